import Ds.Kernel
import DsProofs.Shapley
import Mathlib.Data.List.Perm.Subperm
import Mathlib.Data.List.Nodup
import Mathlib.Data.List.Range
import Mathlib.Algebra.BigOperators.Group.List.Basic

/-!
# Helper lemmas about the model kernel `Ds.Kernel` at `α := ℚ`

All statements are about the executable model `Ds/Kernel.lean` instantiated at `Rat` with the core
instances `Rat.instAdd/instSub/instDiv/instNatCast` (the ones the driver executes).

* K1 `rankScores_closed`, `rankScores_length`: closed form of the backward loop `aux`.
* K2 `scatterAdd_getD` (general: slot `u` receives `contrib order rs u`, the sum of the `rs[r]` with
  `order[r] = u`), `scatterAdd_perm` (for a permutation: exactly `rs[rank of u]`), `isPerm_*`.
* `pointAccum_getD`, `importances_getD_list`, `importances_getD`: explicit formula for one validation
  point and for the whole kernel (`pointContrib`, `cols`, `colContrib`).
* `nnGameU` (the 1-NN utility game over units), `nearest_spec`, `rankEquiv` (unit ↦ rank),
  `nnGameU_eq` (bridge to `Sh.nnGame`), `pointContrib_eq_phi` (core of C01), `nnGameU_univ/empty`,
  `sortsWeakly_isPerm/le`.
* C07 helpers: `importances_perm`, `importances_dup`, `sortsWeakly_map`, `permN`, `relabel`,
  `importances_relabel`, `isPerm_map_permN`, `rankScores_eq_of_const`, `pointContrib_symm(_adjacent)`.
* C08 helpers: `lin`, `aux_lin`, `pointContrib_lin`, `importances_lin(_getD)`, `aux_shift`,
  `pointContrib_shift`, `importances_shift`.
-/

open Finset

namespace Ds.Kernel

/-! ### K1: closed form of the backward loop -/

/-- closed form of one entry of `aux L i` -/
def closed (L : List ℚ) (i r : ℕ) : ℚ :=
  ∑ k ∈ range (L.length - 1), if r ≤ k then (L.getD k 0 - L.getD (k+1) 0) / ((i : ℚ) + k + 1) else 0

theorem aux_length (L : List ℚ) (i : ℕ) : (aux L i).2.length = L.length - 1 := by
  induction L generalizing i with
  | nil => simp [aux]
  | cons u t ih =>
    cases t with
    | nil => simp [aux]
    | cons v rest => simp [aux, ih (i+1)]

theorem rankScores_length (us : List ℚ) (null : ℚ) : (rankScores us null).length = us.length := by
  unfold rankScores; rw [aux_length]; simp

theorem closed_cons_zero (u v : ℚ) (rest : List ℚ) (i : ℕ) :
    closed (u :: v :: rest) i 0 = (u - v) / ((i:ℚ) + 1) + closed (v :: rest) (i+1) 0 := by
  unfold closed
  simp only [List.length_cons, Nat.add_sub_cancel, Nat.zero_le, if_true]
  rw [Finset.sum_range_succ']
  simp only [List.getD_cons_succ, List.getD_cons_zero, Nat.cast_zero, add_zero]
  rw [add_comm]
  congr 1
  apply Finset.sum_congr rfl
  intro k _
  push_cast; ring_nf

theorem closed_cons_succ (u v : ℚ) (rest : List ℚ) (i r : ℕ) :
    closed (u :: v :: rest) i (r+1) = closed (v :: rest) (i+1) r := by
  unfold closed
  simp only [List.length_cons, Nat.add_sub_cancel]
  rw [Finset.sum_range_succ']
  simp only [List.getD_cons_succ, Nat.add_le_add_iff_right]
  have : ¬ (r + 1 ≤ 0) := by omega
  rw [if_neg this, add_zero]
  apply Finset.sum_congr rfl
  intro k _
  push_cast; ring_nf

theorem aux_spec (L : List ℚ) (i : ℕ) :
    (aux L i).1 = closed L i 0 ∧ ∀ r, r < L.length - 1 → (aux L i).2.getD r 0 = closed L i r := by
  induction L generalizing i with
  | nil => simp [aux, closed]
  | cons u t ih =>
    cases t with
    | nil => simp [aux, closed]
    | cons v rest =>
      obtain ⟨h1, h2⟩ := ih (i+1)
      refine ⟨?_, ?_⟩
      · simp only [aux, Nat.cast_one]; rw [h1, closed_cons_zero]; ring
      · intro r hr
        cases r with
        | zero => simp only [aux, Nat.cast_one, List.getD_cons_zero]; rw [h1, closed_cons_zero]; ring
        | succ r =>
          simp only [aux, List.getD_cons_succ]
          rw [closed_cons_succ]
          apply h2
          simp only [List.length_cons] at hr ⊢; omega

/-- **K1.** The kernel's value at rank `r` is `Σ_{k ≥ r} (u_k − u_{k+1})/(k+1)` with `u_n = null`. -/
theorem rankScores_closed (us : List ℚ) (null : ℚ) (r : ℕ) (hr : r < us.length) :
    (rankScores us null).getD r 0 =
      ∑ k ∈ range us.length,
        if r ≤ k then ((us ++ [null]).getD k 0 - (us ++ [null]).getD (k+1) 0) / ((k:ℚ) + 1) else 0 := by
  unfold rankScores
  have := (aux_spec (us ++ [null]) 0).2 r (by simp; omega)
  rw [this]; unfold closed
  simp

/-! ### K2: the scatter loop -/

/-- what the scatter loop adds to slot `u`: the sum of the `rs[r]` over the ranks `r` with `order[r] = u` -/
def contrib (order : List ℕ) (rs : List ℚ) (u : ℕ) : ℚ :=
  ((order.zip rs).map (fun p => if p.1 = u then p.2 else 0)).sum

theorem getD_modify_add (acc : List ℚ) (o u : ℕ) (x : ℚ) (hu : u < acc.length) :
    (acc.modify o (· + x)).getD u 0 = acc.getD u 0 + (if o = u then x else 0) := by
  simp only [List.getD_eq_getElem?_getD, List.getElem?_modify, List.getElem?_eq_getElem hu,
    Option.map_eq_map, Option.map_some, Option.getD_some]
  split_ifs <;> simp

theorem foldl_modify_length (ps : List (ℕ × ℚ)) (acc : List ℚ) :
    (ps.foldl (fun a p => a.modify p.1 (· + p.2)) acc).length = acc.length := by
  induction ps generalizing acc with
  | nil => rfl
  | cons p ps ih => simp only [List.foldl_cons]; rw [ih, List.length_modify]

theorem foldl_modify_getD (ps : List (ℕ × ℚ)) (acc : List ℚ) (u : ℕ) (hu : u < acc.length) :
    (ps.foldl (fun a p => a.modify p.1 (· + p.2)) acc).getD u 0
      = acc.getD u 0 + (ps.map (fun p => if p.1 = u then p.2 else 0)).sum := by
  induction ps generalizing acc with
  | nil => simp
  | cons p ps ih =>
    simp only [List.foldl_cons, List.map_cons, List.sum_cons]
    rw [ih _ (by rw [List.length_modify]; exact hu), getD_modify_add _ _ _ _ hu]
    ring

theorem scatterAdd_length (acc : List ℚ) (order : List ℕ) (rs : List ℚ) :
    (scatterAdd acc order rs).length = acc.length := foldl_modify_length _ _

/-- general form of K2 (no hypothesis on `order`) -/
theorem scatterAdd_getD (acc : List ℚ) (order : List ℕ) (rs : List ℚ) (u : ℕ) (hu : u < acc.length) :
    (scatterAdd acc order rs).getD u 0 = acc.getD u 0 + contrib order rs u :=
  foldl_modify_getD _ _ _ hu

theorem contrib_cons (o : ℕ) (os : List ℕ) (x : ℚ) (xs : List ℚ) (u : ℕ) :
    contrib (o :: os) (x :: xs) u = (if o = u then x else 0) + contrib os xs u := by
  simp [contrib]

theorem contrib_not_mem (order : List ℕ) (rs : List ℚ) (u : ℕ) (hu : u ∉ order) : contrib order rs u = 0 := by
  induction order generalizing rs with
  | nil => simp [contrib]
  | cons o os ih =>
    cases rs with
    | nil => simp [contrib]
    | cons x xs =>
      rw [contrib_cons, ih xs (fun h => hu (List.mem_cons_of_mem _ h)), if_neg (fun h : o = u => hu (h ▸ List.mem_cons_self))]
      ring

theorem contrib_nodup (order : List ℕ) (rs : List ℚ) (u : ℕ) (hnd : order.Nodup)
    (hlen : order.length = rs.length) (hu : u ∈ order) : contrib order rs u = rs.getD (order.idxOf u) 0 := by
  induction order generalizing rs with
  | nil => simp at hu
  | cons o os ih =>
    cases rs with
    | nil => simp at hlen
    | cons x xs =>
      rw [contrib_cons]
      have hnd' := List.nodup_cons.mp hnd
      by_cases h : o = u
      · subst h
        rw [if_pos rfl, contrib_not_mem _ _ _ hnd'.1]
        simp
      · have hu' : u ∈ os := by
          rcases List.mem_cons.mp hu with h' | h'
          · exact absurd h'.symm h
          · exact h'
        rw [if_neg h, ih xs hnd'.2 (by simpa using hlen) hu', List.idxOf_cons_ne _ h]
        simp

/-! facts about `isPerm` -/

theorem isPerm_perm {n : ℕ} {order : List ℕ} (h : isPerm n order = true) : (List.range n).Perm order := by
  unfold isPerm at h
  simp only [Bool.and_eq_true, beq_iff_eq, List.all_eq_true, List.mem_range, List.contains_iff_mem] at h
  have hsub : List.range n ⊆ order := fun x hx => h.2 x (List.mem_range.mp hx)
  exact (List.nodup_range.subperm hsub).perm_of_length_le (by simp [h.1])

theorem isPerm_length {n : ℕ} {order : List ℕ} (h : isPerm n order = true) : order.length = n := by
  simpa using (isPerm_perm h).length_eq.symm

theorem isPerm_nodup {n : ℕ} {order : List ℕ} (h : isPerm n order = true) : order.Nodup :=
  (isPerm_perm h).nodup_iff.mp List.nodup_range

theorem isPerm_mem {n : ℕ} {order : List ℕ} (h : isPerm n order = true) {x : ℕ} : x ∈ order ↔ x < n := by
  rw [← (isPerm_perm h).mem_iff, List.mem_range]

/-- **K2.** If `order` is a permutation of `0…n-1`, every unit is hit exactly once, at its rank. -/
theorem scatterAdd_perm (n : ℕ) (acc : List ℚ) (order : List ℕ) (rs : List ℚ)
    (hp : isPerm n order = true) (hacc : acc.length = n) (hrs : rs.length = n) (u : ℕ) (hu : u < n) :
    (scatterAdd acc order rs).getD u 0 = acc.getD u 0 + rs.getD (order.idxOf u) 0 := by
  rw [scatterAdd_getD _ _ _ _ (by omega),
    contrib_nodup _ _ _ (isPerm_nodup hp) (by rw [isPerm_length hp, hrs]) ((isPerm_mem hp).mpr hu)]

/-! ### Explicit formula for one validation point and for the whole kernel -/

/-- utilities in rank order: `us[r]` = utility of the label of the unit of rank `r` -/
def usOf (labels order : List ℕ) (util : List ℚ) (null : ℚ) : List ℚ :=
  order.map (fun u => util.getD (labels.getD u 0) null)

/-- what one validation point adds to slot `u` -/
def pointContrib (labels order : List ℕ) (util : List ℚ) (null : ℚ) (u : ℕ) : ℚ :=
  contrib order (rankScores (usOf labels order util null) null) u

theorem pointAccum_length (acc : List ℚ) (labels order : List ℕ) (util : List ℚ) (null : ℚ) :
    (pointAccum acc labels order util null).length = acc.length := scatterAdd_length _ _ _

theorem pointAccum_getD (acc : List ℚ) (labels order : List ℕ) (util : List ℚ) (null : ℚ) (u : ℕ)
    (hu : u < acc.length) :
    (pointAccum acc labels order util null).getD u 0 = acc.getD u 0 + pointContrib labels order util null u :=
  scatterAdd_getD _ _ _ _ hu

/-- a validation point = (labels, order, util, null) -/
abbrev Col := List ℕ × List ℕ × List ℚ × ℚ

/-- the zipped columns, as `importances` builds them -/
def cols (labels orders : List (List ℕ)) (utils : List (List ℚ)) (nulls : List ℚ) : List Col :=
  labels.zip (orders.zip (utils.zip nulls))

def colContrib (c : Col) (u : ℕ) : ℚ := pointContrib c.1 c.2.1 c.2.2.1 c.2.2.2 u

theorem foldl_pointAccum_length (cs : List Col) (acc : List ℚ) :
    (cs.foldl (fun a c => pointAccum a c.1 c.2.1 c.2.2.1 c.2.2.2) acc).length = acc.length := by
  induction cs generalizing acc with
  | nil => rfl
  | cons c cs ih => simp only [List.foldl_cons]; rw [ih, pointAccum_length]

theorem foldl_pointAccum_getD (cs : List Col) (acc : List ℚ) (u : ℕ) (hu : u < acc.length) :
    (cs.foldl (fun a c => pointAccum a c.1 c.2.1 c.2.2.1 c.2.2.2) acc).getD u 0
      = acc.getD u 0 + (cs.map (fun c => colContrib c u)).sum := by
  induction cs generalizing acc with
  | nil => simp
  | cons c cs ih =>
    simp only [List.foldl_cons, List.map_cons, List.sum_cons]
    rw [ih _ (by rw [pointAccum_length]; exact hu), pointAccum_getD _ _ _ _ _ _ hu]
    unfold colContrib; ring

theorem importances_length (n : ℕ) (labels orders : List (List ℕ)) (utils : List (List ℚ)) (nulls : List ℚ) :
    (importances n labels orders utils nulls).length = n := by
  unfold importances
  simp only [List.length_map]
  rw [foldl_pointAccum_length]; simp

theorem getD_replicate_zero (n u : ℕ) : (List.replicate n (0:ℚ)).getD u 0 = 0 := by
  simp only [List.getD_eq_getElem?_getD, List.getElem?_replicate]
  split_ifs <;> rfl

theorem getD_map_div (l : List ℚ) (m : ℚ) (u : ℕ) : (l.map (· / m)).getD u 0 = l.getD u 0 / m := by
  simp only [List.getD_eq_getElem?_getD, List.getElem?_map]
  cases l[u]? <;> simp

/-- explicit formula for the kernel, list form -/
theorem importances_getD_list (n : ℕ) (labels orders : List (List ℕ)) (utils : List (List ℚ)) (nulls : List ℚ)
    (u : ℕ) (hu : u < n) :
    (importances n labels orders utils nulls).getD u 0
      = ((cols labels orders utils nulls).map (fun c => colContrib c u)).sum
          / ((cols labels orders utils nulls).length : ℚ) := by
  unfold importances
  simp only []
  rw [getD_map_div, foldl_pointAccum_getD _ _ _ (by simpa using hu), Nat.cast_zero, getD_replicate_zero, zero_add]
  rfl

/-- two lists of the same length `n` with the same entries are equal -/
theorem ext_getD {l₁ l₂ : List ℚ} {n : ℕ} (h₁ : l₁.length = n) (h₂ : l₂.length = n)
    (h : ∀ u, u < n → l₁.getD u 0 = l₂.getD u 0) : l₁ = l₂ := by
  apply List.ext_getElem (by rw [h₁, h₂])
  intro i hi₁ hi₂
  have := h i (by omega)
  simpa [List.getD_eq_getElem?_getD, List.getElem?_eq_getElem hi₁, List.getElem?_eq_getElem hi₂] using this

theorem list_sum_map_eq_range {β : Type} (l : List β) (f : β → ℚ) (d : β) :
    (l.map f).sum = ∑ j ∈ range l.length, f (l.getD j d) := by
  induction l with
  | nil => simp
  | cons a l ih =>
    simp only [List.map_cons, List.sum_cons, List.length_cons]
    rw [Finset.sum_range_succ', ih]
    simp [add_comm]

theorem list_sum_eq_fin (l : List ℚ) (n : ℕ) (h : l.length = n) : l.sum = ∑ u : Fin n, l.getD u.val 0 := by
  have := list_sum_map_eq_range l id 0
  simp only [List.map_id, id] at this
  rw [this, h, Fin.sum_univ_eq_sum_range (fun u => l.getD u 0) n]

/-- number of validation points the kernel sees (zip truncates to the shortest column list) -/
theorem cols_length (labels orders : List (List ℕ)) (utils : List (List ℚ)) (nulls : List ℚ) :
    (cols labels orders utils nulls).length
      = min labels.length (min orders.length (min utils.length nulls.length)) := by
  simp [cols, List.length_zip]

theorem cols_length_eq {m : ℕ} {labels orders : List (List ℕ)} {utils : List (List ℚ)} {nulls : List ℚ}
    (hl : labels.length = m) (ho : orders.length = m) (hU : utils.length = m) (hN : nulls.length = m) :
    (cols labels orders utils nulls).length = m := by
  rw [cols_length, hl, ho, hU, hN]; simp

theorem cols_getD (labels orders : List (List ℕ)) (utils : List (List ℚ)) (nulls : List ℚ) (j : ℕ)
    (hj : j < (cols labels orders utils nulls).length) :
    (cols labels orders utils nulls).getD j ([], [], [], 0)
      = (labels.getD j [], orders.getD j [], utils.getD j [], nulls.getD j 0) := by
  rw [cols_length] at hj
  have h1 : j < labels.length := by omega
  have h2 : j < orders.length := by omega
  have h3 : j < utils.length := by omega
  have h4 : j < nulls.length := by omega
  simp [cols, List.getD_eq_getElem?_getD, h1, h2, h3, h4, List.length_zip]

/-- explicit formula for the kernel, indexed form -/
theorem importances_getD (n : ℕ) (labels orders : List (List ℕ)) (utils : List (List ℚ)) (nulls : List ℚ)
    (u : ℕ) (hu : u < n) :
    (importances n labels orders utils nulls).getD u 0
      = (∑ j ∈ range (cols labels orders utils nulls).length,
          pointContrib (labels.getD j []) (orders.getD j []) (utils.getD j []) (nulls.getD j 0) u)
          / ((cols labels orders utils nulls).length : ℚ) := by
  rw [importances_getD_list _ _ _ _ _ _ hu, list_sum_map_eq_range _ _ ([], [], [], 0)]
  congr 1
  apply Finset.sum_congr rfl
  intro j hj
  rw [cols_getD _ _ _ _ _ (Finset.mem_range.mp hj)]
  rfl

/-! ### The 1-NN utility game over units -/

theorem getD_idxOf {order : List ℕ} {u : ℕ} (hu : u ∈ order) : order.getD (order.idxOf u) 0 = u := by
  have h := List.idxOf_lt_length_iff.mpr hu
  simp [List.getD_eq_getElem?_getD, List.getElem?_eq_getElem h]

theorem idxOf_getD {order : List ℕ} (hnd : order.Nodup) {k : ℕ} (hk : k < order.length) :
    order.idxOf (order.getD k 0) = k := by
  simp only [List.getD_eq_getElem?_getD, List.getElem?_eq_getElem hk, Option.getD_some]
  exact hnd.idxOf_getElem k hk

theorem getD_mem {order : List ℕ} {k : ℕ} (hk : k < order.length) : order.getD k 0 ∈ order := by
  simp only [List.getD_eq_getElem?_getD, List.getElem?_eq_getElem hk, Option.getD_some]
  exact List.getElem_mem hk

/-- smallest rank (position in `order`) among the units of the nonempty coalition `S` -/
def minRank {n : ℕ} (order : List ℕ) (S : Finset (Fin n)) (h : S.Nonempty) : ℕ :=
  (S.image (fun u : Fin n => order.idxOf u.val)).min' (h.image _)

/-- the present unit of smallest rank = the nearest present unit -/
def nearest {n : ℕ} (order : List ℕ) (S : Finset (Fin n)) (h : S.Nonempty) : ℕ :=
  order.getD (minRank order S h) 0

/-- **The 1-NN utility game of one validation point**, over units `0 … n-1`:
the value of a coalition `S` of training units is the utility of the label of the nearest unit
present in `S` (nearest = smallest position in `order`), and the null value when `S` is empty. -/
def nnGameU (n : ℕ) (order labels : List ℕ) (util : List ℚ) (null : ℚ) : Sh.Game n := fun S =>
  if h : S.Nonempty then util.getD (labels.getD (nearest order S h) 0) null else null

/-- `nearest` really is a member of `S`, and no member of `S` has a smaller rank -/
theorem nearest_spec {n : ℕ} {order : List ℕ} (hp : isPerm n order = true) (S : Finset (Fin n)) (h : S.Nonempty) :
    ∃ u ∈ S, u.val = nearest order S h ∧ ∀ v ∈ S, order.idxOf u.val ≤ order.idxOf v.val := by
  have hmem := Finset.min'_mem (S.image (fun u : Fin n => order.idxOf u.val)) (h.image _)
  obtain ⟨u, huS, hu⟩ := Finset.mem_image.mp hmem
  refine ⟨u, huS, ?_, ?_⟩
  · unfold nearest minRank
    rw [← hu, getD_idxOf ((isPerm_mem hp).mpr u.isLt)]
  · intro v hv
    rw [hu]
    exact Finset.min'_le _ _ (Finset.mem_image_of_mem _ hv)

/-- unit ↦ rank, as a permutation of `Fin n` -/
def rankEquiv {n : ℕ} {order : List ℕ} (hp : isPerm n order = true) : Equiv.Perm (Fin n) where
  toFun u := ⟨order.idxOf u.val,
    lt_of_lt_of_eq (List.idxOf_lt_length_iff.mpr ((isPerm_mem hp).mpr u.isLt)) (isPerm_length hp)⟩
  invFun k := ⟨order.getD k.val 0, (isPerm_mem hp).mp (getD_mem (by rw [isPerm_length hp]; exact k.isLt))⟩
  left_inv u := Fin.ext (getD_idxOf ((isPerm_mem hp).mpr u.isLt))
  right_inv k := Fin.ext (idxOf_getD (isPerm_nodup hp) (by rw [isPerm_length hp]; exact k.isLt))

@[simp] theorem rankEquiv_val {n : ℕ} {order : List ℕ} (hp : isPerm n order = true) (u : Fin n) :
    (rankEquiv hp u).val = order.idxOf u.val := rfl

theorem usOf_length (labels order : List ℕ) (util : List ℚ) (null : ℚ) :
    (usOf labels order util null).length = order.length := by simp [usOf]

/-- entries of the rank-ordered utility row with the null row appended -/
theorem usOf_append_getD (labels order : List ℕ) (util : List ℚ) (null : ℚ) (k : ℕ) (hk : k < order.length) :
    (usOf labels order util null ++ [null]).getD k 0 = util.getD (labels.getD (order.getD k 0) 0) null := by
  have hk' : k < (usOf labels order util null).length := by rw [usOf_length]; exact hk
  simp only [List.getD_eq_getElem?_getD, List.getElem?_append_left hk']
  simp [usOf, List.getElem?_eq_getElem hk]

theorem usOf_append_getD_last (labels order : List ℕ) (util : List ℚ) (null : ℚ) :
    (usOf labels order util null ++ [null]).getD order.length 0 = null := by
  simp [List.getD_eq_getElem?_getD, usOf_length]

theorem min'_congr {A B : Finset ℕ} (hA : A.Nonempty) (hB : B.Nonempty) (h : A = B) : A.min' hA = B.min' hB := by
  subst h; rfl

/-- in rank coordinates the game over units is the game `Sh.nnGame` over ranks -/
theorem nnGameU_eq {n : ℕ} {order : List ℕ} (hp : isPerm n order = true) (labels : List ℕ) (util : List ℚ)
    (null : ℚ) (S : Finset (Fin n)) :
    nnGameU n order labels util null S
      = Sh.nnGame (fun k => (usOf labels order util null ++ [null]).getD k 0) (S.map (rankEquiv hp).toEmbedding) := by
  unfold nnGameU Sh.nnGame
  by_cases h : S.Nonempty
  · have h' : (S.map (rankEquiv hp).toEmbedding).Nonempty := h.map
    rw [dif_pos h, dif_pos h']
    have key : minRank order S h = ((S.map (rankEquiv hp).toEmbedding).min' h').val := by
      have himg : S.image (fun u : Fin n => order.idxOf u.val)
          = (S.map (rankEquiv hp).toEmbedding).image Fin.val := by
        rw [Finset.map_eq_image, Finset.image_image]; rfl
      have hne : ((S.map (rankEquiv hp).toEmbedding).image Fin.val).Nonempty := h'.image _
      unfold minRank
      rw [min'_congr _ hne himg]
      exact Finset.min'_image (f := (Fin.val : Fin n → ℕ)) Fin.val_strictMono.monotone _ hne
    unfold nearest
    beta_reduce
    rw [key, usOf_append_getD]
    rw [isPerm_length hp]; exact Fin.isLt _
  · have h' : ¬ (S.map (rankEquiv hp).toEmbedding).Nonempty := by simpa using h
    rw [dif_neg h, dif_neg h']
    have := usOf_append_getD_last labels order util null
    rw [isPerm_length hp] at this
    exact this.symm

/-! facts about `sortsWeakly` -/

theorem sortsWeakly_isPerm {d : List ℚ} {order : List ℕ} (h : sortsWeakly d order = true) :
    isPerm d.length order = true := by
  unfold sortsWeakly at h
  exact (Bool.and_eq_true _ _ ▸ h).1

theorem sortsWeakly_le {d : List ℚ} {order : List ℕ} (h : sortsWeakly d order = true) (r s : ℕ) (hrs : r ≤ s)
    (hs : s < order.length) : d.getD (order.getD r 0) 0 ≤ d.getD (order.getD s 0) 0 := by
  unfold sortsWeakly at h
  simp only [Bool.and_eq_true, List.all_eq_true, List.mem_range, decide_eq_true_eq] at h
  obtain ⟨_, hadj⟩ := h
  induction s with
  | zero => have : r = 0 := by omega
            subst this; exact le_refl _
  | succ s ih =>
    by_cases hr : r = s + 1
    · subst hr; exact le_refl _
    · exact le_trans (ih (by omega) (by omega)) (hadj s (by omega))

/-- **core of C01**: what one validation point adds to the slot of unit `u` is the Shapley value of
`u` in the 1-NN utility game of that point -/
theorem pointContrib_eq_phi {n : ℕ} (hn : 0 < n) {order : List ℕ} (hp : isPerm n order = true)
    (labels : List ℕ) (util : List ℚ) (null : ℚ) (u : Fin n) :
    pointContrib labels order util null u.val = Sh.phi (nnGameU n order labels util null) u := by
  have hu : u.val ∈ order := (isPerm_mem hp).mpr u.isLt
  have hr : order.idxOf u.val < n := lt_of_lt_of_eq (List.idxOf_lt_length_iff.mpr hu) (isPerm_length hp)
  unfold pointContrib
  rw [contrib_nodup _ _ _ (isPerm_nodup hp) (by rw [rankScores_length, usOf_length]) hu,
    rankScores_closed _ _ _ (by rw [usOf_length, isPerm_length hp]; exact hr)]
  have hg : nnGameU n order labels util null
      = fun S => Sh.nnGame (fun k => (usOf labels order util null ++ [null]).getD k 0)
          (S.map (rankEquiv hp).toEmbedding) := funext (nnGameU_eq hp labels util null)
  rw [hg, Sh.phi_equivariant, Sh.phi_nnGame hn, usOf_length, isPerm_length hp]
  apply Finset.sum_congr rfl
  intro k _
  by_cases h : order.idxOf u.val ≤ k
  · have h' : (rankEquiv hp u).val ≤ k := h
    rw [if_pos h, if_pos h']; ring
  · have h' : ¬ (rankEquiv hp u).val ≤ k := h
    rw [if_neg h, if_neg h']; ring

theorem getD_mem' {β : Type} (l : List β) (d : β) {k : ℕ} (hk : k < l.length) : l.getD k d ∈ l := by
  simp only [List.getD_eq_getElem?_getD, List.getElem?_eq_getElem hk, Option.getD_some]
  exact List.getElem_mem hk

theorem nnGameU_empty (n : ℕ) (order labels : List ℕ) (util : List ℚ) (null : ℚ) :
    nnGameU n order labels util null ∅ = null := by
  unfold nnGameU; rw [dif_neg (by simp)]

/-- with every unit present the nearest one is `order[0]` -/
theorem nnGameU_univ {n : ℕ} (hn : 0 < n) {order : List ℕ} (hp : isPerm n order = true) (labels : List ℕ)
    (util : List ℚ) (null : ℚ) :
    nnGameU n order labels util null univ = util.getD (labels.getD (order.getD 0 0) 0) null := by
  have hne : (univ : Finset (Fin n)).Nonempty := ⟨⟨0, hn⟩, Finset.mem_univ _⟩
  have h0 : 0 < order.length := by rw [isPerm_length hp]; exact hn
  obtain ⟨u, _, hu, hmin⟩ := nearest_spec hp univ hne
  have hv : order.getD 0 0 < n := (isPerm_mem hp).mp (getD_mem h0)
  have h1 := hmin ⟨order.getD 0 0, hv⟩ (Finset.mem_univ _)
  rw [idxOf_getD (isPerm_nodup hp) h0] at h1
  have h2 : order.idxOf u.val = 0 := by omega
  have h3 := getD_idxOf ((isPerm_mem hp).mpr u.isLt)
  rw [h2] at h3
  unfold nnGameU
  rw [dif_pos hne, ← hu, h3]

/-! ### Helpers for C07 (invariances) -/

/-- permuting the validation points does not change the kernel (list form, on the zipped columns) -/
theorem importances_perm (n : ℕ) (labels orders : List (List ℕ)) (utils : List (List ℚ)) (nulls : List ℚ)
    (labels' orders' : List (List ℕ)) (utils' : List (List ℚ)) (nulls' : List ℚ)
    (h : (cols labels orders utils nulls).Perm (cols labels' orders' utils' nulls')) :
    importances n labels orders utils nulls = importances n labels' orders' utils' nulls' := by
  apply ext_getD (importances_length _ _ _ _ _) (importances_length _ _ _ _ _)
  intro u hu
  rw [importances_getD_list _ _ _ _ _ _ hu, importances_getD_list _ _ _ _ _ _ hu, h.length_eq,
    (h.map _).sum_eq]

theorem cols_append (labels orders : List (List ℕ)) (utils : List (List ℚ)) (nulls : List ℚ)
    (labels' orders' : List (List ℕ)) (utils' : List (List ℚ)) (nulls' : List ℚ)
    (h1 : labels.length = orders.length) (h2 : orders.length = utils.length) (h3 : utils.length = nulls.length) :
    cols (labels ++ labels') (orders ++ orders') (utils ++ utils') (nulls ++ nulls')
      = cols labels orders utils nulls ++ cols labels' orders' utils' nulls' := by
  unfold cols
  rw [List.zip_append h3, List.zip_append (by simp [List.length_zip]; omega),
    List.zip_append (by simp [List.length_zip]; omega)]

/-- if the zipped columns are duplicated the kernel does not change -/
theorem importances_dup (n : ℕ) (labels orders : List (List ℕ)) (utils : List (List ℚ)) (nulls : List ℚ)
    (labels' orders' : List (List ℕ)) (utils' : List (List ℚ)) (nulls' : List ℚ)
    (h : cols labels' orders' utils' nulls' = cols labels orders utils nulls ++ cols labels orders utils nulls) :
    importances n labels' orders' utils' nulls' = importances n labels orders utils nulls := by
  apply ext_getD (importances_length _ _ _ _ _) (importances_length _ _ _ _ _)
  intro u hu
  rw [importances_getD_list _ _ _ _ _ _ hu, importances_getD_list _ _ _ _ _ _ hu, h]
  simp only [List.map_append, List.sum_append, List.length_append]
  push_cast
  rw [← two_mul, ← two_mul, mul_div_mul_left _ _ (two_ne_zero)]

theorem getD_map_lt (l : List ℚ) (f : ℚ → ℚ) (k : ℕ) (hk : k < l.length) :
    (l.map f).getD k 0 = f (l.getD k 0) := by
  simp only [List.getD_eq_getElem?_getD, List.getElem?_map, List.getElem?_eq_getElem hk]
  simp

/-- strictly monotone maps of the distances are sorted by the same orders -/
theorem sortsWeakly_map (f : ℚ → ℚ) (hf : StrictMono f) (d : List ℚ) (order : List ℕ) :
    sortsWeakly (d.map f) order = sortsWeakly d order := by
  unfold sortsWeakly
  rw [List.length_map]
  cases hp : isPerm d.length order with
  | false => simp
  | true =>
    simp only [Bool.true_and]
    have hlen := isPerm_length hp
    have hget : ∀ r, r < order.length → (d.map f).getD (order.getD r 0) 0 = f (d.getD (order.getD r 0) 0) := by
      intro r hr
      exact getD_map_lt d f _ ((isPerm_mem hp).mp (getD_mem hr))
    rw [Bool.eq_iff_iff]
    simp only [List.all_eq_true, List.mem_range, decide_eq_true_eq]
    apply forall_congr'; intro r
    apply forall_congr'; intro hr
    rw [hget r (by omega), hget (r+1) (by omega)]
    exact hf.le_iff_le

/-! relabelling the units -/

/-- a permutation of `Fin n` acting on unit indices (identity outside `0 … n-1`) -/
def permN {n : ℕ} (π : Equiv.Perm (Fin n)) (v : ℕ) : ℕ := if h : v < n then (π ⟨v, h⟩).val else v

theorem permN_fin {n : ℕ} (π : Equiv.Perm (Fin n)) (u : Fin n) : permN π u.val = (π u).val := by
  unfold permN; rw [dif_pos u.isLt]

theorem permN_lt {n : ℕ} (π : Equiv.Perm (Fin n)) {v : ℕ} (hv : v < n) : permN π v < n := by
  unfold permN; rw [dif_pos hv]; exact Fin.isLt _

theorem permN_symm {n : ℕ} (π : Equiv.Perm (Fin n)) (v : ℕ) : permN π.symm (permN π v) = v := by
  by_cases hv : v < n
  · have := permN_fin π ⟨v, hv⟩
    simp only at this
    rw [this, permN_fin]; simp
  · unfold permN; rw [dif_neg hv, dif_neg hv]

theorem permN_injective {n : ℕ} (π : Equiv.Perm (Fin n)) : Function.Injective (permN π) :=
  Function.LeftInverse.injective (permN_symm π)

/-- the label column after renaming unit `u` to `π u`: new unit `v` carries the label of old unit `π⁻¹ v` -/
def relabel {n : ℕ} (π : Equiv.Perm (Fin n)) (labels : List ℕ) : List ℕ :=
  (List.range n).map (fun v => labels.getD (permN π.symm v) 0)

theorem relabel_getD {n : ℕ} (π : Equiv.Perm (Fin n)) (labels : List ℕ) {x : ℕ} (hx : x < n) :
    (relabel π labels).getD (permN π x) 0 = labels.getD x 0 := by
  have h := permN_lt π hx
  unfold relabel
  simp [List.getD_eq_getElem?_getD, List.getElem?_map, List.getElem?_range h, permN_symm]

theorem contrib_map_inj (f : ℕ → ℕ) (hf : Function.Injective f) (order : List ℕ) (rs : List ℚ) (u : ℕ) :
    contrib (order.map f) rs (f u) = contrib order rs u := by
  induction order generalizing rs with
  | nil => simp [contrib]
  | cons o os ih =>
    cases rs with
    | nil => simp [contrib]
    | cons x xs =>
      rw [List.map_cons, contrib_cons, contrib_cons, ih]
      simp only [hf.eq_iff]

theorem pointContrib_relabel {n : ℕ} (π : Equiv.Perm (Fin n)) (labels order : List ℕ) (util : List ℚ) (null : ℚ)
    (ho : ∀ x ∈ order, x < n) (u : ℕ) :
    pointContrib (relabel π labels) (order.map (permN π)) util null (permN π u)
      = pointContrib labels order util null u := by
  have hus : usOf (relabel π labels) (order.map (permN π)) util null = usOf labels order util null := by
    unfold usOf
    rw [List.map_map]
    apply List.map_congr_left
    intro x hx
    simp only [Function.comp]
    rw [relabel_getD π labels (ho x hx)]
  unfold pointContrib
  rw [hus, contrib_map_inj _ (permN_injective π)]

/-- relabelling the units by `π` permutes the result by `π` -/
theorem importances_relabel {n : ℕ} (π : Equiv.Perm (Fin n)) (labels orders : List (List ℕ))
    (utils : List (List ℚ)) (nulls : List ℚ) (ho : ∀ o ∈ orders, ∀ x ∈ o, x < n) (u : Fin n) :
    (importances n (labels.map (relabel π)) (orders.map (List.map (permN π))) utils nulls).getD (π u).val 0
      = (importances n labels orders utils nulls).getD u.val 0 := by
  have hc : cols (labels.map (relabel π)) (orders.map (List.map (permN π))) utils nulls
      = (cols labels orders utils nulls).map (Prod.map (relabel π) (Prod.map (List.map (permN π)) id)) := by
    unfold cols
    rw [List.zip_map_left (l₁ := orders), List.zip_map]
  rw [importances_getD_list _ _ _ _ _ _ (π u).isLt, importances_getD_list _ _ _ _ _ _ u.isLt, hc,
    List.length_map, List.map_map]
  congr 2
  apply List.map_congr_left
  intro c hc
  have hco : c.2.1 ∈ orders := (List.of_mem_zip (List.of_mem_zip hc).2).1
  simp only [Function.comp, colContrib, Prod.map_fst, Prod.map_snd, id]
  rw [← permN_fin, pointContrib_relabel π _ _ _ _ (ho _ hco)]

theorem isPerm_map_permN {n : ℕ} (π : Equiv.Perm (Fin n)) {o : List ℕ} (hp : isPerm n o = true) :
    isPerm n (o.map (permN π)) = true := by
  have hlen := isPerm_length hp
  unfold isPerm
  simp only [Bool.and_eq_true, beq_iff_eq, List.length_map, List.all_eq_true, List.mem_range,
    List.contains_iff_mem, List.mem_map]
  refine ⟨hlen, fun u hu => ⟨permN π.symm u, (isPerm_mem hp).mpr (permN_lt _ hu), ?_⟩⟩
  have := permN_symm π.symm u
  rwa [Equiv.symm_symm] at this

/-! symmetric units -/

theorem getD_append_lt (us : List ℚ) (null : ℚ) (k : ℕ) (hk : k < us.length) :
    (us ++ [null]).getD k 0 = us.getD k 0 := by
  simp only [List.getD_eq_getElem?_getD, List.getElem?_append_left hk]

/-- if the utilities are constant on the ranks `r … s` the kernel gives those ranks the same score -/
theorem rankScores_eq_of_const (us : List ℚ) (null : ℚ) (r s : ℕ) (hrs : r ≤ s) (hs : s < us.length)
    (hc : ∀ k, r ≤ k → k < s → us.getD k 0 = us.getD (k+1) 0) :
    (rankScores us null).getD r 0 = (rankScores us null).getD s 0 := by
  rw [rankScores_closed _ _ _ (by omega), rankScores_closed _ _ _ hs]
  apply Finset.sum_congr rfl
  intro k _
  by_cases h1 : s ≤ k
  · rw [if_pos h1, if_pos (by omega)]
  · rw [if_neg h1]
    by_cases h2 : r ≤ k
    · rw [if_pos h2, getD_append_lt _ _ _ (by omega), getD_append_lt _ _ _ (by omega), hc k h2 (by omega)]
      simp
    · rw [if_neg h2]

theorem usOf_getD (labels order : List ℕ) (util : List ℚ) (null : ℚ) (k : ℕ) (hk : k < order.length) :
    (usOf labels order util null).getD k 0 = util.getD (labels.getD (order.getD k 0) 0) null := by
  rw [← usOf_append_getD _ _ _ _ _ hk, getD_append_lt _ _ _ (by rw [usOf_length]; exact hk)]

theorem pointContrib_symm_le {n : ℕ} {order : List ℕ} (hp : isPerm n order = true) (labels : List ℕ)
    (util : List ℚ) (null : ℚ) (a b : ℕ) (ha : a < n) (hb : b < n) (hab : order.idxOf a ≤ order.idxOf b)
    (c : ℚ)
    (hc : ∀ k, order.idxOf a ≤ k → k ≤ order.idxOf b →
      util.getD (labels.getD (order.getD k 0) 0) null = c) :
    pointContrib labels order util null a = pointContrib labels order util null b := by
  have hma := (isPerm_mem hp).mpr ha
  have hmb := (isPerm_mem hp).mpr hb
  have hlb : order.idxOf b < order.length := List.idxOf_lt_length_iff.mpr hmb
  have hl : order.length = (rankScores (usOf labels order util null) null).length := by
    rw [rankScores_length, usOf_length]
  unfold pointContrib
  rw [contrib_nodup _ _ _ (isPerm_nodup hp) hl hma, contrib_nodup _ _ _ (isPerm_nodup hp) hl hmb]
  apply rankScores_eq_of_const _ _ _ _ hab (by rw [usOf_length]; exact hlb)
  intro k h1 h2
  rw [usOf_getD _ _ _ _ _ (by omega), usOf_getD _ _ _ _ _ (by omega), hc k h1 (by omega), hc (k+1) (by omega) (by omega)]

/-- one validation point: if all units ranked between `a` and `b` (inclusive) have the same utility,
`a` and `b` receive the same contribution -/
theorem pointContrib_symm {n : ℕ} {order : List ℕ} (hp : isPerm n order = true) (labels : List ℕ)
    (util : List ℚ) (null : ℚ) (a b : ℕ) (ha : a < n) (hb : b < n) (c : ℚ)
    (hc : ∀ k, min (order.idxOf a) (order.idxOf b) ≤ k → k ≤ max (order.idxOf a) (order.idxOf b) →
      util.getD (labels.getD (order.getD k 0) 0) null = c) :
    pointContrib labels order util null a = pointContrib labels order util null b := by
  rcases le_total (order.idxOf a) (order.idxOf b) with h | h
  · rw [min_eq_left h, max_eq_right h] at hc
    exact pointContrib_symm_le hp labels util null a b ha hb h c hc
  · rw [min_eq_right h, max_eq_left h] at hc
    exact (pointContrib_symm_le hp labels util null b a hb ha h c hc).symm

/-- one validation point: two units with the same label that are adjacent in the sorted order -/
theorem pointContrib_symm_adjacent {n : ℕ} {order : List ℕ} (hp : isPerm n order = true) (labels : List ℕ)
    (util : List ℚ) (null : ℚ) (a b : ℕ) (ha : a < n) (hb : b < n)
    (hlab : labels.getD a 0 = labels.getD b 0)
    (hadj : order.idxOf a + 1 = order.idxOf b ∨ order.idxOf b + 1 = order.idxOf a) :
    pointContrib labels order util null a = pointContrib labels order util null b := by
  have hma := (isPerm_mem hp).mpr ha
  have hmb := (isPerm_mem hp).mpr hb
  apply pointContrib_symm hp labels util null a b ha hb (util.getD (labels.getD a 0) null)
  intro k h1 h2
  have hk : k = order.idxOf a ∨ k = order.idxOf b := by
    rcases hadj with h | h <;> simp only [← h] at h1 h2 ⊢ <;> omega
  rcases hk with rfl | rfl
  · rw [getD_idxOf hma]
  · rw [getD_idxOf hmb, hlab]

/-! ### Helpers for C08 (linearity in the utilities) -/

/-- the entrywise combination `a·x + b·y` -/
def lin (a b : ℚ) (x y : ℚ) : ℚ := a * x + b * y

theorem getD_zipWith {α β γ : Type} (f : α → β → γ) (l₁ : List α) (l₂ : List β) (d₁ : α) (d₂ : β) (k : ℕ)
    (h : l₁.length = l₂.length) :
    (List.zipWith f l₁ l₂).getD k (f d₁ d₂) = f (l₁.getD k d₁) (l₂.getD k d₂) := by
  induction l₁ generalizing l₂ k with
  | nil =>
    cases l₂ with
    | nil => simp
    | cons y ys => simp at h
  | cons x xs ih =>
    cases l₂ with
    | nil => simp at h
    | cons y ys =>
      cases k with
      | zero => simp
      | succ k =>
        simp only [List.zipWith_cons_cons, List.getD_cons_succ]
        exact ih ys k (by simpa using h)

theorem getD_map_default {α β : Type} (f : α → β) (l : List α) (d : α) (k : ℕ) :
    (l.map f).getD k (f d) = f (l.getD k d) := by
  simp only [List.getD_eq_getElem?_getD, List.getElem?_map]
  cases l[k]? <;> simp

theorem aux_lin (a b : ℚ) (L₁ L₂ : List ℚ) (i : ℕ) (h : L₁.length = L₂.length) :
    aux (List.zipWith (lin a b) L₁ L₂) i
      = (lin a b (aux L₁ i).1 (aux L₂ i).1, List.zipWith (lin a b) (aux L₁ i).2 (aux L₂ i).2) := by
  induction L₁ generalizing L₂ i with
  | nil =>
    cases L₂ with
    | nil => simp [aux, lin]
    | cons y ys => simp at h
  | cons u t ih =>
    cases L₂ with
    | nil => simp at h
    | cons u' t' =>
      cases t with
      | nil =>
        cases t' with
        | nil => simp [aux, lin]
        | cons _ _ => simp at h
      | cons v rest =>
        cases t' with
        | nil => simp at h
        | cons v' rest' =>
          have := ih (v' :: rest') (i + 1) (by simpa using h)
          simp only [List.zipWith_cons_cons] at this ⊢
          simp only [aux, this, List.zipWith_cons_cons, Prod.mk.injEq, List.cons.injEq, and_true]
          refine ⟨?_, ?_⟩ <;> (unfold lin; ring)

theorem rankScores_lin (a b : ℚ) (us₁ us₂ : List ℚ) (n₁ n₂ : ℚ) (h : us₁.length = us₂.length) :
    rankScores (List.zipWith (lin a b) us₁ us₂) (lin a b n₁ n₂)
      = List.zipWith (lin a b) (rankScores us₁ n₁) (rankScores us₂ n₂) := by
  unfold rankScores
  have : List.zipWith (lin a b) us₁ us₂ ++ [lin a b n₁ n₂] = List.zipWith (lin a b) (us₁ ++ [n₁]) (us₂ ++ [n₂]) := by
    rw [List.zipWith_append h]; rfl
  rw [this, aux_lin _ _ _ _ _ (by simp [h])]

theorem contrib_lin (a b : ℚ) (order : List ℕ) (rs₁ rs₂ : List ℚ) (u : ℕ) (h : rs₁.length = rs₂.length) :
    contrib order (List.zipWith (lin a b) rs₁ rs₂) u = lin a b (contrib order rs₁ u) (contrib order rs₂ u) := by
  induction order generalizing rs₁ rs₂ with
  | nil => simp [contrib, lin]
  | cons o os ih =>
    cases rs₁ with
    | nil =>
      cases rs₂ with
      | nil => simp [contrib, lin]
      | cons _ _ => simp at h
    | cons x xs =>
      cases rs₂ with
      | nil => simp at h
      | cons y ys =>
        rw [List.zipWith_cons_cons, contrib_cons, contrib_cons, contrib_cons, ih xs ys (by simpa using h)]
        unfold lin
        split_ifs <;> ring

theorem usOf_lin (a b : ℚ) (labels order : List ℕ) (U₁ U₂ : List ℚ) (n₁ n₂ : ℚ) (h : U₁.length = U₂.length) :
    usOf labels order (List.zipWith (lin a b) U₁ U₂) (lin a b n₁ n₂)
      = List.zipWith (lin a b) (usOf labels order U₁ n₁) (usOf labels order U₂ n₂) := by
  unfold usOf
  induction order with
  | nil => simp
  | cons o os ih =>
    simp only [List.map_cons, List.zipWith_cons_cons]
    rw [ih, getD_zipWith _ _ _ _ _ _ h]

theorem pointContrib_lin (a b : ℚ) (labels order : List ℕ) (U₁ U₂ : List ℚ) (n₁ n₂ : ℚ) (u : ℕ)
    (h : U₁.length = U₂.length) :
    pointContrib labels order (List.zipWith (lin a b) U₁ U₂) (lin a b n₁ n₂) u
      = lin a b (pointContrib labels order U₁ n₁ u) (pointContrib labels order U₂ n₂ u) := by
  unfold pointContrib
  rw [usOf_lin _ _ _ _ _ _ _ _ h, rankScores_lin _ _ _ _ _ _ (by rw [usOf_length, usOf_length]),
    contrib_lin _ _ _ _ _ _ (by rw [rankScores_length, rankScores_length, usOf_length, usOf_length])]

/-- adding a constant to every utility and to the null value changes nothing -/
theorem aux_shift (c : ℚ) (L : List ℚ) (i : ℕ) : aux (L.map (· + c)) i = aux L i := by
  induction L generalizing i with
  | nil => simp [aux]
  | cons u t ih =>
    cases t with
    | nil => simp [aux]
    | cons v rest =>
      have := ih (i + 1)
      simp only [List.map_cons] at this ⊢
      simp only [aux, this, add_sub_add_right_eq_sub]

theorem pointContrib_shift (c : ℚ) (labels order : List ℕ) (util : List ℚ) (null : ℚ) (u : ℕ) :
    pointContrib labels order (util.map (· + c)) (null + c) u = pointContrib labels order util null u := by
  have hus : usOf labels order (util.map (· + c)) (null + c) = (usOf labels order util null).map (· + c) := by
    unfold usOf
    rw [List.map_map]
    apply List.map_congr_left
    intro x _
    exact getD_map_default (· + c) util null _
  unfold pointContrib rankScores
  have : (usOf labels order util null).map (· + c) ++ [null + c] = (usOf labels order util null ++ [null]).map (· + c) := by
    simp
  rw [hus, this, aux_shift]

theorem getD_default_irrel {α : Type} {l : List α} {k : ℕ} (hk : k < l.length) (d d' : α) :
    l.getD k d = l.getD k d' := by
  simp [List.getD_eq_getElem?_getD, List.getElem?_eq_getElem hk]

/-- the kernel is linear in the utility tables (entrywise form) -/
theorem importances_lin_getD (n : ℕ) (a b : ℚ) (labels orders : List (List ℕ)) (U₁ U₂ : List (List ℚ))
    (N₁ N₂ : List ℚ) (hU : U₁.length = U₂.length)
    (hin : ∀ j, (U₁.getD j []).length = (U₂.getD j []).length) (hN : N₁.length = N₂.length)
    (u : ℕ) (hu : u < n) :
    (importances n labels orders (List.zipWith (List.zipWith (lin a b)) U₁ U₂)
        (List.zipWith (lin a b) N₁ N₂)).getD u 0
      = lin a b ((importances n labels orders U₁ N₁).getD u 0) ((importances n labels orders U₂ N₂).getD u 0) := by
  have hc0 : (cols labels orders (List.zipWith (List.zipWith (lin a b)) U₁ U₂)
      (List.zipWith (lin a b) N₁ N₂)).length = (cols labels orders U₁ N₁).length := by
    simp [cols_length, hU, hN]
  have hc2 : (cols labels orders U₂ N₂).length = (cols labels orders U₁ N₁).length := by
    simp [cols_length, hU, hN]
  rw [importances_getD _ _ _ _ _ _ hu, importances_getD _ _ _ _ _ _ hu, importances_getD _ _ _ _ _ _ hu,
    hc0, hc2]
  have hsum : ∑ j ∈ range (cols labels orders U₁ N₁).length,
        pointContrib (labels.getD j []) (orders.getD j [])
          ((List.zipWith (List.zipWith (lin a b)) U₁ U₂).getD j []) ((List.zipWith (lin a b) N₁ N₂).getD j 0) u
      = a * ∑ j ∈ range (cols labels orders U₁ N₁).length,
            pointContrib (labels.getD j []) (orders.getD j []) (U₁.getD j []) (N₁.getD j 0) u
        + b * ∑ j ∈ range (cols labels orders U₁ N₁).length,
            pointContrib (labels.getD j []) (orders.getD j []) (U₂.getD j []) (N₂.getD j 0) u := by
    rw [Finset.mul_sum, Finset.mul_sum, ← Finset.sum_add_distrib]
    apply Finset.sum_congr rfl
    intro j hj
    have hj' := Finset.mem_range.mp hj
    rw [cols_length] at hj'
    have e1 : (List.zipWith (List.zipWith (lin a b)) U₁ U₂).getD j []
        = List.zipWith (lin a b) (U₁.getD j []) (U₂.getD j []) :=
      getD_zipWith (List.zipWith (lin a b)) U₁ U₂ [] [] j hU
    have e2 : (List.zipWith (lin a b) N₁ N₂).getD j 0 = lin a b (N₁.getD j 0) (N₂.getD j 0) := by
      rw [getD_default_irrel (by simp [← hN]; omega) 0 (lin a b 0 0)]
      exact getD_zipWith (lin a b) N₁ N₂ 0 0 j hN
    rw [e1, e2, pointContrib_lin _ _ _ _ _ _ _ _ _ (hin j)]
    rfl
  rw [hsum]
  unfold lin
  ring

theorem importances_lin (n : ℕ) (a b : ℚ) (labels orders : List (List ℕ)) (U₁ U₂ : List (List ℚ))
    (N₁ N₂ : List ℚ) (hU : U₁.length = U₂.length)
    (hin : ∀ j, (U₁.getD j []).length = (U₂.getD j []).length) (hN : N₁.length = N₂.length) :
    importances n labels orders (List.zipWith (List.zipWith (lin a b)) U₁ U₂) (List.zipWith (lin a b) N₁ N₂)
      = List.zipWith (lin a b) (importances n labels orders U₁ N₁) (importances n labels orders U₂ N₂) := by
  have hl : (importances n labels orders U₁ N₁).length = (importances n labels orders U₂ N₂).length := by
    rw [importances_length, importances_length]
  apply ext_getD (importances_length _ _ _ _ _) (by simp [importances_length])
  intro u hu
  have e := getD_zipWith (lin a b) (importances n labels orders U₁ N₁) (importances n labels orders U₂ N₂) 0 0 u hl
  rw [getD_default_irrel (by simp [importances_length]; exact hu) (lin a b 0 0) 0] at e
  rw [importances_lin_getD n a b labels orders U₁ U₂ N₁ N₂ hU hin hN u hu, e]

/-- adding one constant to every utility and every null value does not change the kernel -/
theorem importances_shift (n : ℕ) (c : ℚ) (labels orders : List (List ℕ)) (utils : List (List ℚ))
    (nulls : List ℚ) :
    importances n labels orders (utils.map (List.map (· + c))) (nulls.map (· + c))
      = importances n labels orders utils nulls := by
  have hc0 : (cols labels orders (utils.map (List.map (· + c))) (nulls.map (· + c))).length
      = (cols labels orders utils nulls).length := by simp [cols_length]
  apply ext_getD (importances_length _ _ _ _ _) (importances_length _ _ _ _ _)
  intro u hu
  rw [importances_getD _ _ _ _ _ _ hu, importances_getD _ _ _ _ _ _ hu, hc0]
  congr 1
  apply Finset.sum_congr rfl
  intro j hj
  have hj' := Finset.mem_range.mp hj
  rw [cols_length] at hj'
  have e1 : (utils.map (List.map (· + c))).getD j [] = (utils.getD j []).map (· + c) :=
    getD_map_default (List.map (· + c)) utils [] j
  have e2 : (nulls.map (· + c)).getD j 0 = nulls.getD j 0 + c := by
    rw [getD_default_irrel (by simp; omega) 0 (0 + c)]
    exact getD_map_default (· + c) nulls 0 j
  rw [e1, e2, pointContrib_shift]

end Ds.Kernel
