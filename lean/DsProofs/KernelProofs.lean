import Ds.Kernel
import DsProofs.Shapley
import Mathlib.Data.List.Perm.Subperm
import Mathlib.Data.List.Nodup
import Mathlib.Data.List.Range
import Mathlib.Algebra.BigOperators.Group.List.Basic

/-!
# Helper lemmas about the model kernel `Ds.Kernel` at `α := ℚ`

* `rankScores_closed` (K1): closed form of the backward loop.
* `scatterAdd_getD`, `scatterAdd_perm` (K2): every unit is hit exactly once, at its rank.
* `importances_getD`, `importances_getD_list`: explicit formula for the whole kernel.
* `rankEquiv`, `nnGameU`: the 1-NN utility game over units, and the bridge to `Sh.nnGame`.
-/

open Finset

namespace Ds.Kernel

/-! ### K1: closed form of the backward loop -/

/-- closed form of one entry of `aux L i` -/
def closed (L : List ℚ) (i r : ℕ) : ℚ :=
  ∑ k ∈ range (L.length - 1), if r ≤ k then (L.getD k 0 - L.getD (k+1) 0) / ((i : ℚ) + k + 1) else 0

theorem aux_length (L : List ℚ) (i : ℕ) : (aux L i).2.length = L.length - 1 := by
  induction L generalizing i with
  | nil => simp [aux]
  | cons u t ih =>
    cases t with
    | nil => simp [aux]
    | cons v rest => simp [aux, ih (i+1)]

theorem rankScores_length (us : List ℚ) (null : ℚ) : (rankScores us null).length = us.length := by
  unfold rankScores; rw [aux_length]; simp

theorem closed_cons_zero (u v : ℚ) (rest : List ℚ) (i : ℕ) :
    closed (u :: v :: rest) i 0 = (u - v) / ((i:ℚ) + 1) + closed (v :: rest) (i+1) 0 := by
  unfold closed
  simp only [List.length_cons, Nat.add_sub_cancel, Nat.zero_le, if_true]
  rw [Finset.sum_range_succ']
  simp only [List.getD_cons_succ, List.getD_cons_zero, Nat.cast_zero, add_zero]
  rw [add_comm]
  congr 1
  apply Finset.sum_congr rfl
  intro k _
  push_cast; ring_nf

theorem closed_cons_succ (u v : ℚ) (rest : List ℚ) (i r : ℕ) :
    closed (u :: v :: rest) i (r+1) = closed (v :: rest) (i+1) r := by
  unfold closed
  simp only [List.length_cons, Nat.add_sub_cancel]
  rw [Finset.sum_range_succ']
  simp only [List.getD_cons_succ, Nat.add_le_add_iff_right]
  have : ¬ (r + 1 ≤ 0) := by omega
  rw [if_neg this, add_zero]
  apply Finset.sum_congr rfl
  intro k _
  push_cast; ring_nf

theorem aux_spec (L : List ℚ) (i : ℕ) :
    (aux L i).1 = closed L i 0 ∧ ∀ r, r < L.length - 1 → (aux L i).2.getD r 0 = closed L i r := by
  induction L generalizing i with
  | nil => simp [aux, closed]
  | cons u t ih =>
    cases t with
    | nil => simp [aux, closed]
    | cons v rest =>
      obtain ⟨h1, h2⟩ := ih (i+1)
      refine ⟨?_, ?_⟩
      · simp only [aux, Nat.cast_one]; rw [h1, closed_cons_zero]; ring
      · intro r hr
        cases r with
        | zero => simp only [aux, Nat.cast_one, List.getD_cons_zero]; rw [h1, closed_cons_zero]; ring
        | succ r =>
          simp only [aux, List.getD_cons_succ]
          rw [closed_cons_succ]
          apply h2
          simp only [List.length_cons] at hr ⊢; omega

/-- **K1.** The kernel's value at rank `r` is `Σ_{k ≥ r} (u_k − u_{k+1})/(k+1)` with `u_n = null`. -/
theorem rankScores_closed (us : List ℚ) (null : ℚ) (r : ℕ) (hr : r < us.length) :
    (rankScores us null).getD r 0 =
      ∑ k ∈ range us.length,
        if r ≤ k then ((us ++ [null]).getD k 0 - (us ++ [null]).getD (k+1) 0) / ((k:ℚ) + 1) else 0 := by
  unfold rankScores
  have := (aux_spec (us ++ [null]) 0).2 r (by simp; omega)
  rw [this]; unfold closed
  simp

/-! ### K2: the scatter loop -/

/-- what the scatter loop adds to slot `u`: the sum of the `rs[r]` over the ranks `r` with `order[r] = u` -/
def contrib (order : List ℕ) (rs : List ℚ) (u : ℕ) : ℚ :=
  ((order.zip rs).map (fun p => if p.1 = u then p.2 else 0)).sum

theorem getD_modify_add (acc : List ℚ) (o u : ℕ) (x : ℚ) (hu : u < acc.length) :
    (acc.modify o (· + x)).getD u 0 = acc.getD u 0 + (if o = u then x else 0) := by
  simp only [List.getD_eq_getElem?_getD, List.getElem?_modify, List.getElem?_eq_getElem hu,
    Option.map_eq_map, Option.map_some, Option.getD_some]
  split_ifs <;> simp

theorem foldl_modify_length (ps : List (ℕ × ℚ)) (acc : List ℚ) :
    (ps.foldl (fun a p => a.modify p.1 (· + p.2)) acc).length = acc.length := by
  induction ps generalizing acc with
  | nil => rfl
  | cons p ps ih => simp only [List.foldl_cons]; rw [ih, List.length_modify]

theorem foldl_modify_getD (ps : List (ℕ × ℚ)) (acc : List ℚ) (u : ℕ) (hu : u < acc.length) :
    (ps.foldl (fun a p => a.modify p.1 (· + p.2)) acc).getD u 0
      = acc.getD u 0 + (ps.map (fun p => if p.1 = u then p.2 else 0)).sum := by
  induction ps generalizing acc with
  | nil => simp
  | cons p ps ih =>
    simp only [List.foldl_cons, List.map_cons, List.sum_cons]
    rw [ih _ (by rw [List.length_modify]; exact hu), getD_modify_add _ _ _ _ hu]
    ring

theorem scatterAdd_length (acc : List ℚ) (order : List ℕ) (rs : List ℚ) :
    (scatterAdd acc order rs).length = acc.length := foldl_modify_length _ _

/-- general form of K2 (no hypothesis on `order`) -/
theorem scatterAdd_getD (acc : List ℚ) (order : List ℕ) (rs : List ℚ) (u : ℕ) (hu : u < acc.length) :
    (scatterAdd acc order rs).getD u 0 = acc.getD u 0 + contrib order rs u :=
  foldl_modify_getD _ _ _ hu

theorem contrib_cons (o : ℕ) (os : List ℕ) (x : ℚ) (xs : List ℚ) (u : ℕ) :
    contrib (o :: os) (x :: xs) u = (if o = u then x else 0) + contrib os xs u := by
  simp [contrib]

theorem contrib_not_mem (order : List ℕ) (rs : List ℚ) (u : ℕ) (hu : u ∉ order) : contrib order rs u = 0 := by
  induction order generalizing rs with
  | nil => simp [contrib]
  | cons o os ih =>
    cases rs with
    | nil => simp [contrib]
    | cons x xs =>
      rw [contrib_cons, ih xs (fun h => hu (List.mem_cons_of_mem _ h)), if_neg (fun h : o = u => hu (h ▸ List.mem_cons_self))]
      ring

theorem contrib_nodup (order : List ℕ) (rs : List ℚ) (u : ℕ) (hnd : order.Nodup)
    (hlen : order.length = rs.length) (hu : u ∈ order) : contrib order rs u = rs.getD (order.idxOf u) 0 := by
  induction order generalizing rs with
  | nil => simp at hu
  | cons o os ih =>
    cases rs with
    | nil => simp at hlen
    | cons x xs =>
      rw [contrib_cons]
      have hnd' := List.nodup_cons.mp hnd
      by_cases h : o = u
      · subst h
        rw [if_pos rfl, contrib_not_mem _ _ _ hnd'.1]
        simp
      · have hu' : u ∈ os := by
          rcases List.mem_cons.mp hu with h' | h'
          · exact absurd h'.symm h
          · exact h'
        rw [if_neg h, ih xs hnd'.2 (by simpa using hlen) hu', List.idxOf_cons_ne _ h]
        simp

/-! facts about `isPerm` -/

theorem isPerm_perm {n : ℕ} {order : List ℕ} (h : isPerm n order = true) : (List.range n).Perm order := by
  unfold isPerm at h
  simp only [Bool.and_eq_true, beq_iff_eq, List.all_eq_true, List.mem_range, List.contains_iff_mem] at h
  have hsub : List.range n ⊆ order := fun x hx => h.2 x (List.mem_range.mp hx)
  exact (List.nodup_range.subperm hsub).perm_of_length_le (by simp [h.1])

theorem isPerm_length {n : ℕ} {order : List ℕ} (h : isPerm n order = true) : order.length = n := by
  simpa using (isPerm_perm h).length_eq.symm

theorem isPerm_nodup {n : ℕ} {order : List ℕ} (h : isPerm n order = true) : order.Nodup :=
  (isPerm_perm h).nodup_iff.mp List.nodup_range

theorem isPerm_mem {n : ℕ} {order : List ℕ} (h : isPerm n order = true) {x : ℕ} : x ∈ order ↔ x < n := by
  rw [← (isPerm_perm h).mem_iff, List.mem_range]

/-- **K2.** If `order` is a permutation of `0…n-1`, every unit is hit exactly once, at its rank. -/
theorem scatterAdd_perm (n : ℕ) (acc : List ℚ) (order : List ℕ) (rs : List ℚ)
    (hp : isPerm n order = true) (hacc : acc.length = n) (hrs : rs.length = n) (u : ℕ) (hu : u < n) :
    (scatterAdd acc order rs).getD u 0 = acc.getD u 0 + rs.getD (order.idxOf u) 0 := by
  rw [scatterAdd_getD _ _ _ _ (by omega),
    contrib_nodup _ _ _ (isPerm_nodup hp) (by rw [isPerm_length hp, hrs]) ((isPerm_mem hp).mpr hu)]

end Ds.Kernel
