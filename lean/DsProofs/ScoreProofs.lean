import DsProofs.NeighborProofs
import DsProofs.Properties.C02Oracle

/-!
# Helper lemmas for `Properties/C02Score.lean`
`Ds.Neighbor.score` on the ADD branch of its dispatch (`¬ (K = 1 ∧ nConj = 1)`): a single call of
`Ds.Oracle.scores`; bookkeeping for the slices `take nTest` of the distance / utility / null tables;
label codes are in range.
-/

open Finset

namespace Ds.Neighbor
open Ds.Kernel Ds.Oracle AddPath

/-- `score`, ADD branch: one call of `Oracle.scores` on the whole validation set -/
theorem score_knn (B : ℕ) (p : Prov.P) (simple : Bool) (yTrain yTest : List Int) (dist : List (List ℚ)) (K : ℕ)
    (u : UtilSpec) (orders : Option (List (List ℕ))) (yTr yTe : List ℕ) (util : List (List ℚ)) (nulls : List ℚ)
    (hD : p.nDisj ≤ 1) (hK : ¬ (K = 1 ∧ p.nConj = 1)) (hT : 0 < yTest.length)
    (hTr : yTrain.mapM (Util.encode (Util.unique yTrain)) = .ok yTr)
    (hTe : yTest.mapM (Util.encode (Util.unique yTrain)) = .ok yTe)
    (hU : utilMatrices u (Util.unique yTrain).length yTe = .ok (util, nulls)) :
    score B p simple yTrain yTest dist K u orders
      = (Oracle.scores p yTr (dist.map (fun row => (row.drop 0).take yTest.length))
            (util.map (·.take yTest.length)) (nulls.take yTest.length) K (Util.unique yTrain).length).map
          (fun cur => List.zipWith (fun a c => a + c * ((yTest.length : ℕ) : ℚ) / ((yTest.length : ℕ) : ℚ))
            (List.replicate p.nUnits 0) cur) := by
  have hb : (K == 1 && p.nConj == 1) = false := by
    rw [Bool.and_eq_false_iff, beq_eq_false_iff_ne, beq_eq_false_iff_ne]
    by_cases h : K = 1
    · exact Or.inr (fun h2 => hK ⟨h, h2⟩)
    · exact Or.inl h
  unfold score
  rw [if_neg (by omega)]
  simp only [hTr, hTe, bind, Except.bind, pure, Except.pure, hU, DsProofs.C07.C07_batch_size,
    DsProofs.C07.C07_single_batch _ hT, hb]
  have h0 : ¬ ((yTest.length == 0) = true) := by rw [beq_iff_eq]; omega
  rw [if_neg h0]
  simp only [List.forIn_cons, List.forIn_nil, bind, Except.bind, pure, Except.pure, Nat.sub_zero, Nat.min_self,
    Bool.false_eq_true, if_false]
  cases Oracle.scores p yTr (dist.map (fun row => (row.drop 0).take yTest.length))
      (util.map (·.take yTest.length)) (nulls.take yTest.length) K (Util.unique yTrain).length with
  | error e => rfl
  | ok v => rfl

/-! ### slices -/

theorem map_take_getD (m : List (List ℚ)) (nb j : ℕ) (hj : j < nb) :
    (m.map (fun row => row.take nb)).map (·.getD j 0) = m.map (·.getD j 0) := by
  rw [List.map_map]
  apply List.map_congr_left
  intro row _
  simp [List.getD_eq_getElem?_getD, hj]

theorem length_take_of_le (nulls : List ℚ) (nb : ℕ) (h : nb ≤ nulls.length) : (nulls.take nb).length = nb := by
  rw [List.length_take]; exact Nat.min_eq_left h

/-! ### label codes are in range -/

theorem unique_ne_nil (yTrain : List Int) (hne : yTrain ≠ []) : Util.unique yTrain ≠ [] := by
  obtain ⟨y, hy⟩ := List.exists_mem_of_ne_nil yTrain hne
  exact List.ne_nil_of_mem ((Util.mem_unique _ _).mpr hy)

/-- `LabelEncoder.transform(y_train)` yields positions in `np.unique(y_train)`, hence `< n_classes` -/
theorem encoded_lt (yTrain : List Int) (hne : yTrain ≠ []) (r : ℕ) :
    (yTrain.map (Util.unique yTrain).idxOf).getD r 0 < (Util.unique yTrain).length := by
  by_cases hr : r < yTrain.length
  · rw [getD_map_lt' _ _ _ 0 0 hr]
    exact List.idxOf_lt_length_iff.mpr ((Util.mem_unique _ _).mpr (Util.getD_mem_int _ hr))
  · rw [getD_default_of_le _ _ (by simpa using not_lt.mp hr)]
    exact List.length_pos_iff.mpr (unique_ne_nil yTrain hne)

theorem train_ne_nil (yTrain yTest : List Int) (hT : 0 < yTest.length) (hte : ∀ y ∈ yTest, y ∈ yTrain) :
    yTrain ≠ [] := by
  obtain ⟨y, hy⟩ := List.exists_mem_of_ne_nil yTest (List.length_pos_iff.mp hT)
  exact List.ne_nil_of_mem (hte y hy)

/-! ### `Oracle.scores` on the sliced tables -/

theorem scores_sliced (p : Prov.P) (labels : List ℕ) (dist util : List (List ℚ)) (nulls : List ℚ) (K c nT : ℕ)
    (orders : ℕ → List ℕ) (hK : 1 ≤ K) (hN : nT ≤ nulls.length)
    (hconj : Ds.Oracle.Conjunctive p) (hcands : p.nCands = 2) (hn : 2 ≤ p.nUnits)
    (hshape : p.nConj = 1 → OneUnit p)
    (cmp : Compiled (AVal (Dom.tally (p.nUnits - 1) K c))) (hcmp : compile p = .ok cmp)
    (hperm : ∀ j < nT, (orders j).Perm (List.range p.data.length))
    (hsort : ∀ j < nT,
      (orders j).Pairwise (fun r s => (column dist j 0).getD r 0 < (column dist j 0).getD s 0))
    (hlab : ∀ r < p.data.length, labels.getD r 0 < c) :
    ∃ L : List ℚ, Oracle.scores p labels (dist.map (fun row => row.take nT)) (util.map (fun row => row.take nT))
        (nulls.take nT) K c = .ok L ∧ L.length = p.nUnits ∧
      ∀ i : Fin p.nUnits, L.getD i.val 0
        = Sh.phiM (fun S => (∑ j ∈ Finset.range nT,
            knnGame p labels (orders j) (column util j 0) (nulls.getD j 0) K c S) / (nT : ℚ)) i := by
  have hlen := length_take_of_le nulls nT hN
  have key := C02_exact p labels (dist.map (fun row => row.take nT)) (util.map (fun row => row.take nT))
    (nulls.take nT) K c orders hK hconj hcands hn hshape cmp hcmp
  rw [hlen] at key
  have hsort' : ∀ j < nT, (orders j).Pairwise (fun r s =>
      ((dist.map (fun row => row.take nT)).map (·.getD j 0)).getD r 0
        < ((dist.map (fun row => row.take nT)).map (·.getD j 0)).getD s 0) := by
    intro j hj
    rw [map_take_getD dist nT j hj]
    exact hsort j hj
  obtain ⟨L, h1, h2, h3⟩ := key hperm hsort' hlab
  refine ⟨L, h1, h2, ?_⟩
  intro i
  rw [h3 i]
  congr 1
  funext S
  congr 1
  apply Finset.sum_congr rfl
  intro j hj
  have hj' := Finset.mem_range.mp hj
  rw [map_take_getD util nT j hj', take_getD nulls nT j hj']
  rfl

/-! ### the accuracy tables -/

/-- column `j` of the accuracy table built from the label codes, read in terms of the original labels:
entry `k` is `1` iff the `k`-th class is the label of validation point `j` -/
theorem acc_column (yTrain yTest : List Int) (j : ℕ) (hj : j < yTest.length) (hte : ∀ y ∈ yTest, y ∈ yTrain) :
    column (Util.accElem ((List.range (Util.unique yTrain).length).map Int.ofNat)
        ((yTest.map (Util.unique yTrain).idxOf).map Int.ofNat)) j 0
      = (Util.unique yTrain).map (fun cl => Util.ind (cl == yTest.getD j 0)) := by
  have hy : yTest.getD j 0 ∈ Util.unique yTrain :=
    (Util.mem_unique _ _).mpr (hte _ (Util.getD_mem_int _ hj))
  apply List.ext_getElem
  · simp [column, Util.accElem]
  · intro k h1 h2
    have hk : k < (Util.unique yTrain).length := by simpa using h2
    simp only [column, Util.accElem, List.map_map, List.getElem_map, List.getElem_range, Function.comp]
    rw [getD_map_lt' _ _ _ 0 0 hj]
    show Util.ind (Int.ofNat k == Int.ofNat ((Util.unique yTrain).idxOf (yTest.getD j 0))) = _
    rw [Util.ind_eq_ite, Util.ind_eq_ite]
    have hnd := Util.nodup_unique yTrain
    by_cases h : (Util.unique yTrain)[k] = yTest.getD j 0
    · rw [if_pos h, if_pos]
      rw [← h, hnd.idxOf_getElem]
    · rw [if_neg h, if_neg]
      intro e
      apply h
      have e' : k = (Util.unique yTrain).idxOf (yTest.getD j 0) := Int.ofNat.inj e
      have := List.getElem_idxOf (List.idxOf_lt_length_of_mem hy)
      simp only [← e'] at this
      exact this

/-! ### transporting a Shapley value along an equality of the number of players -/

theorem phi_congr_card {n m : ℕ} (h : n = m) (F : (k : ℕ) → Sh.Game k) (i : ℕ) (hi : i < n) :
    Sh.phi (F n) ⟨i, hi⟩ = Sh.phi (F m) ⟨i, h ▸ hi⟩ := by
  subst h; rfl

/-! ### data of the concrete instances in `Properties/C02Score.lean` -/

/-- instance data of `Properties/C02Score.lean`: labels `9, 7, 9` → classes `[7, 9]`, codes `1, 0, 1`;
one validation point with label `9` (code `1`); accuracy tables `[[0], [1]]` (class × point) and `[0]` -/
theorem exU : utilMatrices .accuracy (Util.unique [9, 7, 9]).length (([9] : List Int).map (Util.unique [9, 7, 9]).idxOf)
    = .ok ([[0], [1]], [0]) := by
  have hu : Util.unique [9, 7, 9] = [7, 9] := by
    simp [Util.unique, List.mergeSort, List.MergeSort.Internal.splitInTwo, List.eraseDups_cons]
  rw [hu]
  simp [utilMatrices, Util.accElem, Util.accNullElem, Util.ind, Util.mean, pure, Except.pure, List.range_succ]
  norm_num

theorem exUnique : Util.unique [9, 7, 9] = [7, 9] := by
  simp [Util.unique, List.mergeSort, List.MergeSort.Internal.splitInTwo, List.eraseDups_cons]

end Ds.Neighbor
