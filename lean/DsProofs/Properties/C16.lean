import DsProofs.MCProofs

/-!
# C16 — timeout and truncation budgets keep the Monte-Carlo estimate well defined

About `ShapleyImportance._shapley_montecarlo` (model: `Ds.MC.keep`, `Ds.MC.step`, `Ds.MC.column`,
`Ds.MC.run`).

* `C16_keep_nonempty`: the timeout rule keeps a prefix of the finished iterations, and at least one of
  them if at least one permutation was drawn (the clock is read only AFTER an iteration is finished and
  that iteration is kept).
* `C16_keep_exact`: exactly how many are kept: if `k` is the index of the first post-iteration clock
  reading `t` with `timeout > 0 ∧ t − start > timeout`, iterations `0 … k` are kept (all of them when
  there is no such reading, in particular always when `timeout = 0`).
* `C16_defined`: with at least one permutation and no unhandled exception, the method returns a
  proper vector (never the NaN of an empty mean), whatever the clock says, and it is the column
  average over exactly the kept prefix.
* `C16_no_trunc`: with `truncation_steps = 0` a walk is never cut: every unit of the permutation is
  switched on and evaluated.
* `C16_counter_invariant`: along any walk, `truncation_counter` equals the length of the current run of
  consecutive evaluated steps whose score was within the tolerance band of the mean score, and the
  walk is cut exactly when truncation is enabled and this run is longer than `truncation_steps`.
* `C16_trunc_sound`: hence if a walk ends cut, it was cut at a step `j ≥ truncation_steps + 1`, it was
  not cut before, nothing was evaluated after, and the scores after each of the last
  `truncation_steps + 1` evaluated steps were all in the band.
* `C16_trunc_zero`: units that were not reached because of the cut keep importance `0` in that column
  (`C16_trunc_zero_column`: same statement for `Ds.MC.column`).
-/

open Ds Ds.MC BruteP MCP

theorem C16_keep_nonempty (pr : Params) (start : ℚ) (cols : List (List ℚ)) (clock : List ℚ) :
    (cols ≠ [] → keep pr start cols clock ≠ []) ∧ keep pr start cols clock <+: cols := by
  refine ⟨fun h => keep_ne_nil clock h, ?_⟩
  rw [keep_eq_take]; exact List.take_prefix _ _

theorem C16_keep_exact (pr : Params) (start : ℚ) (cols : List (List ℚ)) (clock : List ℚ) :
    let k := clock.findIdx (fun t => decide (pr.timeout > 0 ∧ t - start > pr.timeout))
    let m := if k < clock.length then min cols.length (k + 1) else cols.length
    keep pr start cols clock = cols.take m ∧ (keep pr start cols clock).length = m ∧
      (pr.timeout = 0 → keep pr start cols clock = cols) := by
  intro k m
  have hm : m = keepCount pr start cols.length clock := rfl
  refine ⟨by rw [hm, keep_eq_take], ?_, ?_⟩
  · rw [keep_eq_take, ← hm, List.length_take]
    have : m ≤ cols.length := by
      show (if k < clock.length then min cols.length (k + 1) else cols.length) ≤ _
      split <;> omega
    omega
  · intro h0
    exact keep_of_no_timeout (by rw [h0]; exact lt_irrefl _) _ _ _

theorem C16_defined (n : ℕ) (v : List Int → Outcome) (null mean : ℚ) (pr : Params)
    (perms : List (List ℕ)) (clock : List ℚ) (hp : perms ≠ [])
    (hv : ∀ q, IsQuery n q → v q ≠ .other) :
    ∃ (cols kept : List (List ℚ)) (avg : List ℚ),
      perms.mapM (column n v null mean pr) = some cols ∧
      kept = keep pr (clock.headD 0) cols clock.tail ∧ kept ≠ [] ∧ kept <+: cols ∧
      run n v null mean pr perms clock = some (some avg) ∧ avg.length = n ∧
      ∀ i, i < n → avg.getD i 0 = (kept.map (·.getD i 0)).sum / (kept.length : ℕ) := by
  have hne : perms.map (columnP n v null mean pr) ≠ [] := by simpa using hp
  refine ⟨perms.map (columnP n v null mean pr), _, _,
    mapM_some _ _ perms (fun p _ => column_eq hv p), rfl, keep_ne_nil _ hne,
    (C16_keep_nonempty _ _ _ _).2, ?_, by simp [avgP], fun i hi => getD_avgP n _ hi⟩
  rw [run_eq hv, average_of_ne_nil n (keep_ne_nil _ hne)]

theorem C16_no_trunc (v : List Int → Outcome) (null mean : ℚ) (pr : Params) (htr : pr.truncSteps = 0)
    (l : List ℕ) (w w' : Walk) (hc : w.cut = false)
    (h : l.foldlM (step v null mean pr) w = some w') :
    w'.cut = false ∧ w'.query = l.foldl (fun q idx => q.set idx 1) w.query ∧
      ∀ k, ∃ wk, (l.take k).foldlM (step v null mean pr) w = some wk ∧ wk.cut = false := by
  have e := foldlM_step_some l h
  obtain ⟨e1, e2⟩ := foldl_stepP_eq_next (v := v) (null := null) (mean := mean) htr l hc
  refine ⟨by rw [e]; exact e2, by rw [e, e1, foldl_next_query]; rfl, ?_⟩
  intro k
  exact ⟨_, foldlM_step_take l h k, (foldl_stepP_eq_next htr (l.take k) hc).2⟩

/-- `tr` lists, in chronological order, the scores of the evaluated steps -/
theorem C16_counter_invariant (v : List Int → Outcome) (null mean : ℚ) (pr : Params)
    (w0 w' : Walk) (hc0 : w0.cut = false) (h0 : w0.counter = 0) (perm : List ℕ)
    (h : perm.foldlM (step v null mean pr) w0 = some w') :
    ∃ tr : List ℚ, tr.length ≤ perm.length ∧ (w'.cut = false → tr.length = perm.length) ∧
      (∀ k, k < tr.length → ∃ wk, (perm.take (k+1)).foldlM (step v null mean pr) w0 = some wk ∧
        tr[k]? = some wk.score) ∧
      w'.counter = (tr.reverse.takeWhile (fun x => decide (absR (x - mean) ≤ absR (pr.tolerance * mean)))).length ∧
      (w'.cut = true ↔ pr.truncSteps > 0 ∧ w'.counter > pr.truncSteps) := by
  have e := foldlM_step_some perm h
  have hw : (walkT v null mean pr w0 perm).1 = w' := by rw [walkT_fst, e]
  obtain ⟨s1, s2, _, s4⟩ := walkT_spec v null mean pr w0 perm
  have inv := tinv_walkT (v := v) (null := null) (mean := mean) (pr := pr) hc0 h0 perm
  refine ⟨(walkT v null mean pr w0 perm).2.reverse, by simpa using s1, ?_, ?_, ?_, ?_⟩
  · intro hc; rw [← hw] at hc; simpa using s2 hc
  · intro k hk
    refine ⟨_, foldlM_step_take perm h (k+1), ?_⟩
    rw [(s4 k (by simpa using hk)).1, walkT_fst]
  · rw [List.reverse_reverse, ← hw]; exact inv.counter_eq
  · rw [← hw]; exact inv.cut_iff

theorem C16_trunc_sound (v : List Int → Outcome) (null mean : ℚ) (pr : Params)
    (w0 w' : Walk) (hc0 : w0.cut = false) (h0 : w0.counter = 0) (perm : List ℕ)
    (h : perm.foldlM (step v null mean pr) w0 = some w') (hcut : w'.cut = true) :
    ∃ j, j ≤ perm.length ∧ pr.truncSteps + 1 ≤ j ∧
      (perm.take j).foldlM (step v null mean pr) w0 = some w' ∧
      (∀ k, k < j → ∃ wk, (perm.take k).foldlM (step v null mean pr) w0 = some wk ∧ wk.cut = false) ∧
      pr.truncSteps > 0 ∧ w'.counter > pr.truncSteps ∧
      ∀ k, j - (pr.truncSteps + 1) ≤ k → k < j →
        ∃ wk, (perm.take (k+1)).foldlM (step v null mean pr) w0 = some wk ∧
          absR (wk.score - mean) ≤ absR (pr.tolerance * mean) := by
  have e := foldlM_step_some perm h
  have hw : (walkT v null mean pr w0 perm).1 = w' := by rw [walkT_fst, e]
  obtain ⟨s1, _, s3, s4⟩ := walkT_spec v null mean pr w0 perm
  have inv := tinv_walkT (v := v) (null := null) (mean := mean) (pr := pr) hc0 h0 perm
  have hcut' : (walkT v null mean pr w0 perm).1.cut = true := by rw [hw]; exact hcut
  obtain ⟨c1, c2, c3, _⟩ := tinv_cut inv hcut'
  refine ⟨(walkT v null mean pr w0 perm).2.length, s1, c3, ?_, ?_, c1, by rw [← hw]; exact c2, ?_⟩
  · rw [foldlM_step_take perm h, ← walkT_fst, s3, hw]
  · intro k hk
    refine ⟨_, foldlM_step_take perm h k, ?_⟩
    rw [← walkT_fst]; exact (s4 k hk).2
  · intro k hk1 hk2
    obtain ⟨x, hx1, hx2⟩ := tinv_cut_chrono inv hcut' k hk1 hk2
    refine ⟨_, foldlM_step_take perm h (k+1), ?_⟩
    rw [(s4 k hk2).1] at hx1
    rw [← walkT_fst, Option.some.inj hx1]
    exact hx2

theorem C16_trunc_zero (n : ℕ) (v : List Int → Outcome) (null mean : ℚ) (pr : Params) (s0 : ℚ)
    (perm : List ℕ) (w' : Walk)
    (h : perm.foldlM (step v null mean pr)
      { query := List.replicate n 0, score := s0, counter := 0, imp := List.replicate n 0, cut := false }
        = some w') :
    ∃ j, j ≤ perm.length ∧ (w'.cut = false → j = perm.length) ∧
      (∀ k, k < j → ∃ wk, (perm.take k).foldlM (step v null mean pr)
        { query := List.replicate n 0, score := s0, counter := 0, imp := List.replicate n 0, cut := false }
          = some wk ∧ wk.cut = false) ∧
      (perm.take j).foldlM (step v null mean pr)
        { query := List.replicate n 0, score := s0, counter := 0, imp := List.replicate n 0, cut := false }
          = some w' ∧
      ∀ u, u ∉ perm.take j → w'.imp.getD u 0 = 0 := by
  change perm.foldlM (step v null mean pr) (init n s0) = some w' at h
  show ∃ j, j ≤ perm.length ∧ (w'.cut = false → j = perm.length) ∧
      (∀ k, k < j → ∃ wk, (perm.take k).foldlM (step v null mean pr) (init n s0) = some wk ∧ wk.cut = false) ∧
      (perm.take j).foldlM (step v null mean pr) (init n s0) = some w' ∧
      ∀ u, u ∉ perm.take j → w'.imp.getD u 0 = 0
  have e := foldlM_step_some perm h
  have hw : (walkT v null mean pr (init n s0) perm).1 = w' := by rw [walkT_fst, e]
  obtain ⟨s1, s2, s3, s4⟩ := walkT_spec v null mean pr (init n s0) perm
  have hstop : (perm.take (walkT v null mean pr (init n s0) perm).2.length).foldl
      (stepP v null mean pr) (init n s0) = w' := by rw [← walkT_fst, s3, hw]
  refine ⟨(walkT v null mean pr (init n s0) perm).2.length, s1, fun hc => s2 (by rw [hw]; exact hc), ?_, ?_, ?_⟩
  · intro k hk
    refine ⟨_, foldlM_step_take perm h k, ?_⟩
    rw [← walkT_fst]; exact (s4 k hk).2
  · rw [foldlM_step_take perm h, hstop]
  · intro u hu
    rw [← hstop, foldl_stepP_imp_untouched _ _ _ _ _ _ _ hu]
    simp only [init, List.getD_eq_getElem?_getD, List.getElem?_replicate]
    split <;> rfl

theorem C16_trunc_zero_column (n : ℕ) (v : List Int → Outcome) (null mean : ℚ) (pr : Params)
    (perm : List ℕ) (col : List ℚ) (h : column n v null mean pr perm = some col) :
    ∃ j, j ≤ perm.length ∧ ∀ u, u ∉ perm.take j → col.getD u 0 = 0 := by
  unfold column at h
  cases hb : (v (List.replicate n 0)).caught null with
  | none => rw [hb] at h; cases h
  | some s0 =>
    rw [hb] at h
    simp only at h
    cases hw : perm.foldlM (step v null mean pr)
      { query := List.replicate n 0, score := s0, counter := 0, imp := List.replicate n 0, cut := false } with
    | none => rw [hw] at h; cases h
    | some w' =>
      rw [hw] at h
      obtain ⟨j, hj, _, _, _, hz⟩ := C16_trunc_zero n v null mean pr s0 perm w' hw
      have : col = w'.imp := (Option.some.inj h).symm
      exact ⟨j, hj, fun u hu => by rw [this]; exact hz u hu⟩

/-- non-vacuity of `C16_trunc_sound` / `C16_trunc_zero`: with `truncation_steps = 1`, tolerance `1/10`,
mean `1` and a utility constantly `1`, the walk over `[0,1,2]` is cut after two steps and unit 2 keeps
importance 0 -/
example : column 3 (fun _ => .ok 1) 0 1 { timeout := 0, tolerance := 1/10, truncSteps := 1 } [0, 1, 2]
    = some [0, 0, 0] ∧
    ((([0, 1, 2] : List ℕ).foldlM (step (fun _ => .ok 1) 0 1 { timeout := 0, tolerance := 1/10, truncSteps := 1 })
      { query := List.replicate 3 0, score := 0, counter := 0, imp := List.replicate 3 0, cut := false }).map
        (fun w => (w.cut, w.counter, w.query))) = some (true, 2, [1, 1, 0]) := by
  decide +kernel

/-- the timeout rule on a concrete clock: budget 1, readings after the iterations 0.5, 1.5, 2.5 (start 0):
the second reading exceeds the budget, so two columns are kept -/
example : keep { timeout := 1 } 0 [[1], [2], [3]] [1/2, 3/2, 5/2] = [[1], [2]] := by decide +kernel
