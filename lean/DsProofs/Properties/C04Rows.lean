import DsProofs.ComposeProofs
import DsProofs.Properties.C03Rows
import DsProofs.Properties.C04

/-!
# C04 (rows clause) — in the Monte-Carlo method every marginal is measured on PRECISELY the rows
whose formula is true under the current prefix of the permutation

About `ShapleyImportance._shapley_montecarlo` run on a provenance container (model:
`Ds.MC.runProv p util null mean pr perms clock`, i.e. `Ds.MC.run` in which the 0/1 vector `iter` is
evaluated as `Ds.evalRows`: `indices = provenance.query(iter)`, then the utility on
`X_train[indices]`), with truncation disabled (`truncation_steps = 0`) and no time budget
(`timeout = 0`), for a well padded container `p` and a utility none of whose evaluations on a
selectable row list raises an exception outside `ValueError / RuntimeWarning / UserWarning`.

`ComposeP.rowsOn p A` is the ascending list of exactly the rows whose stored formula is true
(`Ds.Prov.rowSem`) when exactly the units listed in `A` are switched on; `ComposeP.rowsTrue p S` is
the same for a coalition `S` (`rowsOn_eq_rowsTrue`; characterised by `C03_rowsTrue_spec`).
`val rows` is the score the utility returned on `rows`, or the null score when that evaluation raised
one of the three handled classes.

* `C04_rows_estimator`: for a non-empty sample `perms` of permutations of the units the method returns
  a proper vector `avg` of `p.nUnits` scores; `avg[i]` is the average, over the sampled permutations
  `π`, of `val(rowsOn p (first k+1 units of π)) − val(rowsOn p (first k units of π))` where
  `k = π.idxOf i` is the position of unit `i` in `π` (`π[k] = i`).  For `k = 0` the baseline is the rows
  present with NO unit switched on — the rows true under the all-zero assignment, which need not be
  empty when rows carry value-0 literals.  The scores add up to
  `val(rows under all units) − val(rows under no unit)`.
* `C04_rows_uniform`: if every permutation of the units occurs equally often (`c ≥ 1` times) in the
  sample, `avg[i]` is exactly the Shapley value of unit `i` (permutation form `Sh.phiP`, textbook form
  `Sh.phiM`, coefficient form `Sh.phi`) in the game `S ↦ val(util (rowsTrue p S))`.
* `C04_rows_eq_brute`: under the same hypothesis the Monte-Carlo result IS the bruteforce vector of
  `C03_rows`: `MC.runProv … = some (Brute.scoresProv …)`, both are proper vectors, entrywise equal.
* `C04_rows_uncaught`: an unhandled exception on the rows of the empty prefix or of any prefix of a
  drawn permutation propagates out of the method.
* examples: the 2-unit container `[x0==1, x1==0, x0==1 & x1==1]` of `C03Rows` (row 1 is a value-0
  literal) with its table utility.
-/

open Ds Ds.Prov BruteP MCP ComposeP

theorem C04_rows_estimator (p : P) (util : List ℕ → Outcome) (null mean : ℚ) (pr : MC.Params)
    (perms : List (List ℕ)) (clock : List ℚ) (hp : WellPadded p)
    (htr : pr.truncSteps = 0) (hto : pr.timeout = 0)
    (hutil : ∀ S : Finset (Fin p.nUnits), util (rowsTrue p S) ≠ .other)
    (hne : perms ≠ [])
    (hperm : ∀ π ∈ perms, π.Nodup ∧ (∀ x ∈ π, x < p.nUnits) ∧ π.length = p.nUnits) :
    ∃ avg : List ℚ, MC.runProv p util null mean pr perms clock = some (some avg) ∧
      avg.length = p.nUnits ∧
      (∀ i, i < p.nUnits → avg.getD i 0 =
        (perms.map (fun π => valOf null (util (rowsOn p (π.take (π.idxOf i + 1)))) -
            valOf null (util (rowsOn p (π.take (π.idxOf i)))))).sum / (perms.length : ℕ)) ∧
      (∀ π ∈ perms, ∀ i, i < p.nUnits → ∃ h : π.idxOf i < π.length, π[π.idxOf i] = i) ∧
      (∀ π : List ℕ, rowsOn p (π.take 0) = rowsTrueA p (List.replicate p.nUnits 0)) ∧
      avg.sum = valOf null (util (rowsTrue p Finset.univ)) - valOf null (util (rowsTrue p ∅)) := by
  have hv := evalRows_ne_other p util hp hutil
  obtain ⟨cols, avg, h1, h2, h3, h4, h5⟩ :=
    C04_estimator p.nUnits (evalRows p util) null mean pr perms clock htr hto hv hne hperm
  have hcols : cols = perms.map (columnP p.nUnits (evalRows p util) null mean pr) := by
    rw [mapM_some _ _ perms (fun π _ => column_eq hv π)] at h1
    exact (Option.some.inj h1).symm
  refine ⟨avg, h2, h3, ?_, ?_, ?_, ?_⟩
  · intro i hi
    rw [h4 i hi, hcols, List.map_map]
    congr 2
    apply List.map_congr_left
    intro π hπ
    obtain ⟨hnd, hlt, hlen⟩ := hperm π hπ
    exact columnP_prov_entry p util null mean pr hp htr hnd hlt hlen hi
  · intro π hπ i hi
    obtain ⟨hnd, hlt, hlen⟩ := hperm π hπ
    exact getElem_idxOf_perm hnd hlt hlen hi
  · intro π
    rw [List.take_zero, rowsOn_nil_replicate]
  · rw [h5, evalRows_ones p util hp, evalRows_zeros p util hp]

theorem C04_rows_uniform (p : P) (util : List ℕ → Outcome) (null mean : ℚ) (pr : MC.Params)
    (perms : List (List ℕ)) (clock : List ℚ) (c : ℕ) (hp : WellPadded p)
    (htr : pr.truncSteps = 0) (hto : pr.timeout = 0)
    (hutil : ∀ S : Finset (Fin p.nUnits), util (rowsTrue p S) ≠ .other)
    (hc : 0 < c)
    (hperm : ∀ π ∈ perms, π.Nodup ∧ (∀ x ∈ π, x < p.nUnits) ∧ π.length = p.nUnits)
    (hcount : ∀ π : List ℕ, (π.Nodup ∧ (∀ x ∈ π, x < p.nUnits) ∧ π.length = p.nUnits) →
      perms.count π = c) :
    ∃ avg : List ℚ, MC.runProv p util null mean pr perms clock = some (some avg) ∧
      avg.length = p.nUnits ∧
      ∀ i : Fin p.nUnits,
        avg.getD i.val 0 = Sh.phiM (fun S => valOf null (util (rowsTrue p S))) i ∧
        avg.getD i.val 0 = Sh.phiP (fun S => valOf null (util (rowsTrue p S))) i ∧
        avg.getD i.val 0 = Sh.phi (fun S => valOf null (util (rowsTrue p S))) i := by
  have hv := evalRows_ne_other p util hp hutil
  obtain ⟨avg, h1, h2, h3⟩ :=
    C04_uniform p.nUnits (evalRows p util) null mean pr perms clock c htr hto hv hc hperm hcount
  have hg : (fun S : Finset (Fin p.nUnits) => valOf null (evalRows p util (indS S))) =
      fun S => valOf null (util (rowsTrue p S)) :=
    funext (fun S => by rw [evalRows_indS p util hp])
  rw [hg] at h3
  exact ⟨avg, h1, h2, fun i => ⟨(h3 i).2.2, (h3 i).1, (h3 i).2.1⟩⟩

theorem C04_rows_eq_brute (p : P) (util : List ℕ → Outcome) (null mean : ℚ) (pr : MC.Params)
    (perms : List (List ℕ)) (clock : List ℚ) (c : ℕ) (hp : WellPadded p)
    (htr : pr.truncSteps = 0) (hto : pr.timeout = 0)
    (hutil : ∀ S : Finset (Fin p.nUnits), util (rowsTrue p S) ≠ .other)
    (hc : 0 < c)
    (hperm : ∀ π ∈ perms, π.Nodup ∧ (∀ x ∈ π, x < p.nUnits) ∧ π.length = p.nUnits)
    (hcount : ∀ π : List ℕ, (π.Nodup ∧ (∀ x ∈ π, x < p.nUnits) ∧ π.length = p.nUnits) →
      perms.count π = c) :
    MC.runProv p util null mean pr perms clock = some (Brute.scoresProv p util null) ∧
    ∃ avg L : List ℚ, MC.runProv p util null mean pr perms clock = some (some avg) ∧
      Brute.scoresProv p util null = some L ∧ avg.length = p.nUnits ∧ L.length = p.nUnits ∧
      ∀ i, i < p.nUnits → avg.getD i 0 = L.getD i 0 := by
  obtain ⟨avg, ha1, ha2, ha3⟩ :=
    C04_rows_uniform p util null mean pr perms clock c hp htr hto hutil hc hperm hcount
  obtain ⟨L, hl1, hl2, hl3⟩ := C03_rows p util null hp hutil
  have hent : ∀ i, i < p.nUnits → avg.getD i 0 = L.getD i 0 :=
    fun i hi => (ha3 ⟨i, hi⟩).1.trans (hl3 ⟨i, hi⟩).1.symm
  have heq : avg = L := ext_getD ha2 hl2 hent
  exact ⟨by rw [ha1, hl1, heq], avg, L, ha1, hl1, ha2, hl2, hent⟩

/-- nothing is swallowed: an unhandled exception on the rows present for some prefix (including the
empty one) of some drawn permutation makes the whole method raise -/
theorem C04_rows_uncaught (p : P) (util : List ℕ → Outcome) (null mean : ℚ) (pr : MC.Params)
    (perms : List (List ℕ)) (clock : List ℚ) (hp : WellPadded p) (htr : pr.truncSteps = 0)
    (h : ∃ π ∈ perms, ∃ k, k ≤ π.length ∧ util (rowsOn p (π.take k)) = .other) :
    MC.runProv p util null mean pr perms clock = none := by
  obtain ⟨π, hπ, k, hk, hko⟩ := h
  exact C04_uncaught p.nUnits (evalRows p util) null mean pr perms clock htr
    ⟨π, hπ, k, hk, by rw [evalRows_indQ p util hp]; exact hko⟩

/-! ### examples (container and utility of `C03Rows`) -/

/-- the rows present for the prefixes of the order 1, 0: no unit `↦ [1]` (the value-0 literal
`x1 == 0` is true), unit 1 `↦ []`, units 1 and 0 `↦ [0, 2]` -/
example : rowsOn C03Rows_ex ([1, 0].take 0) = [1] ∧ rowsOn C03Rows_ex ([1, 0].take 1) = [] ∧
    rowsOn C03Rows_ex ([1, 0].take 2) = [0, 2] := by
  decide +kernel

/-- a concrete run on the two permutations of two units: the column of the order 0,1 is
`[4−1, 6−4] = [3, 2]`, that of the order 1,0 is `[6−0, 0−1] = [6, −1]` (the empty training set raises
`ValueError`, worth the null score 0); the average is `[9/2, 1/2]`, which sums to `6 − 1` -/
example : MC.runProv C03Rows_ex C03Rows_util 0 0 { timeout := 0, tolerance := 1/10, truncSteps := 0 }
    [[0, 1], [1, 0]] [0, 3, 7] = some (some [9/2, 1/2]) := by
  decide +kernel

/-- the same through `C04_rows_eq_brute`: the two permutations once each are a uniform sample, so the
Monte-Carlo result is the bruteforce result of `C03_rows` -/
example : MC.runProv C03Rows_ex C03Rows_util 0 0 { timeout := 0, tolerance := 1/10, truncSteps := 0 }
    [[0, 1], [1, 0]] [0, 3, 7] = some (Brute.scoresProv C03Rows_ex C03Rows_util 0) := by
  refine (C04_rows_eq_brute C03Rows_ex C03Rows_util 0 0 _ [[0, 1], [1, 0]] [0, 3, 7] 1
    (by decide +kernel) rfl rfl (by decide +kernel) Nat.one_pos (by decide) ?_).1
  intro π hπ
  obtain ⟨σ, rfl⟩ := exists_listOf_eq (n := 2) hπ
  revert σ
  decide

/-- the estimator hypotheses hold for a single permutation too (no uniformity needed): the order 1,0
alone gives unit 0 the marginal `6 − 0` and unit 1 the marginal `0 − 1` -/
example : MC.runProv C03Rows_ex C03Rows_util 0 0 { timeout := 0, tolerance := 1/10, truncSteps := 0 }
    [[1, 0]] [] = some (some [6, -1]) := by
  decide +kernel

/-- `C04_rows_uncaught` is not vacuous -/
example : MC.runProv C03Rows_ex (fun rows => if rows = [] then .other else .ok 1) 0 0
    { timeout := 0, tolerance := 1/10, truncSteps := 0 } [[1, 0]] [] = none :=
  C04_rows_uncaught _ _ 0 0 _ _ _ (by decide +kernel) rfl
    ⟨[1, 0], by simp, 1, by simp, by decide +kernel⟩
