import DsProofs.OracleProofs

/-!
# C09 — the Shapley oracle counts coalitions exactly

About `datascope/importance/oracle.py` (`compile`, `ShapleyOracle.__init__`, `ShapleyOracle.query`); model:
`Ds.Oracle` (Ds/Oracle.lean) on top of the diagrams `Ds.Dd` (Ds/Add.lean) and the tally domain `Ds.AVal`
(Ds/AVal.lean); helper lemmas: DsProofs/OracleProofs.lean (which builds on C10: AddProofs / AValProofs).

Vocabulary.  `p : Prov.P` is the padded provenance array; `Conjunctive p` (decidable): one disjunct per row, every
literal that names a unit names a unit `< p.nUnits` with candidate 1, the units of a row are pairwise distinct
(row `r` is *present* under a 0/1 assignment of the units iff all its units are 1).  `OneUnit p` (decidable):
`nConj = 1` and every row names exactly one unit (map / fork pipelines).  `D = Dom.tally N K c` is `ATally[N, K, c]`;
`D.vecs` lists its valid vectors `t :: (w ++ wo)` in domain order.  `countSpec p labels dist c K target bw bwo t w wo`
(Ds/Oracle.lean) is the by-definition count: assignments `a` of all units with `a[target] = 0` such that the `with`
boundary row `bw` is present under `a[target := 1]`, the `without` boundary row `bwo` is present under `a`, exactly
`t` units are 1 in `a`, and the (capped) label tallies of the rows present under `a[target := 1]` / `a` that are no
farther than `bw` / `bwo` are `w` / `wo`.  `LocSpec p cmp` is the `Prop` behind the executable check
`Ds.Oracle.locSpecOk`: every `locs[r]` is a duplicate-free list of existing edges and the path of every 0/1
argument tuple crosses exactly one edge of `locs[r]` when row `r` is present and none otherwise.

* `C09_locSpecOk`: `locSpecOk p cmp = true → LocSpec p cmp` (the check the harness runs discharges the hypothesis).
* `C09_main` (C09a): for a conjunctive provenance with binary candidates and at least two units, if
  `ShapleyOracle.__init__` succeeded (`build … = .ok b`) and `LocSpec` holds for the compiled diagram, then that
  diagram is `Reach`able, mentions every unit exactly once, and `query(unit, bw, bwo)` succeeds for every unit and
  every pair of boundary rows (or `None`) and returns one count per value of the domain: entry `k` is exactly
  `countSpec … (t, w, wo of D.vecs[k])`, and the last entry is `2^(n-1)` minus the others (the assignments whose
  tallies overflow).  Nothing is assumed about `labels`, `dist`, `N`, `K`, `c` (the hypotheses `labels[r] < c`,
  `N ≥ nUnits - 1`, `0 < c` of the plan turned out not to be needed).  The hypothesis `LocSpec` can be discharged
  by running `locSpecOk` (`C09_locSpecOk`) or, in general, by `C09_compile` (this is `C09_exact`).
* `C09_total` (C09b): the entries returned by `query` add up to `2^(nUnits - 1)`.
* `C09_chain` (C09c): when every row has exactly one unit, `compile` returns the chain diagram over
  `range nUnits`, which is `Reach`able, and `LocSpec` holds.  `C09_mapfork`: hence for map/fork provenance
  `__init__` succeeds and the conclusions of `C09_main`/`C09_total` hold unconditionally.
* `C09_compile` (C09d): whatever `compile` returns for a conjunctive provenance (general case: `stack`s of chains
  over the leaf units under header trees over the factor units, one per connected component, `concatenate`d) is a
  `Reach`able diagram (hence well-formed and rectangular) with two candidates whose edge values are all zero, whose
  units are a permutation of `range nUnits` (the components computed by `compile` partition the units), and
  `LocSpec` holds (the greedy leaf set is independent, so a row has at most one leaf unit and it comes last in
  diagram order; `get_update_location` returns the edges of the last mentioned unit at the nodes reached by the
  consistent paths; in a stack the node reached spells the factor bits); `__init__` then succeeds.  Only proviso:
  when `nConj = 1` the rows must really have one non-padding literal each (`OneUnit`), because the code then reads
  only the first literal slot.
* `C09_exact`: `C09_main` + `C09_total` with the hypothesis `LocSpec` discharged by `C09_compile` — the oracle
  counts coalitions exactly for every conjunctive provenance with at least two units.
* `C09_single_unit` (C09e): with a single unit `query` raises `IndexError` (finding F3b: `restrict` on a
  one-variable diagram) — this is why `C09_main` asks for `2 ≤ nUnits`.
Examples use `decide` (`decide +kernel` where `build` has to be run); `compile` of the two-units-per-row example runs
`mergeSort` (well-founded recursion, which `decide` cannot unfold) and is therefore evaluated once by `simp`
(`C09ex.compile_p3`).
-/

open Ds Ds.Dd Ds.Oracle

namespace C09ex
/-- two units, three rows (a fork): rows 0, 1 come from unit 0, row 2 from unit 1 -/
def p2 : Prov.P := { data := [[[(0, 1)]], [[(0, 1)]], [[(1, 1)]]], nDisj := 1, nConj := 1, nUnits := 2 }
/-- three units, two rows with two units each (a join): row 0 = `x0 ∧ x1`, row 1 = `x1 ∧ x2` -/
def p3 : Prov.P := { data := [[[(0, 1), (1, 1)]], [[(1, 1), (2, 1)]]], nDisj := 1, nConj := 2, nUnits := 3 }
/-- one unit, two rows -/
def p1 : Prov.P := { data := [[[(0, 1)]], [[(0, 1)]]], nDisj := 1, nConj := 1, nUnits := 1 }
abbrev D2 : Dom := .tally 1 1 2
abbrev D3 : Dom := .tally 2 1 2
/-- what `compile p3` returns: header node for unit 1 over two copies of the chain over the leaf units 0, 2 -/
def cmp3 : Compiled (AVal D3) :=
  { add := { units := [1, 0, 2], C := 2, diameter := 2, root := 0,
             levels := [[⟨true, [0, 1], [0, 0]⟩, ⟨false, [0, 0], [0, 0]⟩],
                        [⟨true, [0, 0], [0, 0]⟩, ⟨true, [1, 1], [0, 0]⟩],
                        [⟨true, [0, 0], [0, 0]⟩, ⟨true, [1, 1], [0, 0]⟩]] },
    locs := [[(1, 1, 1)], [(2, 1, 1)]] }
set_option maxRecDepth 8000 in
set_option linter.unusedSimpArgs false in
/-- (`mergeSort` is defined by well-founded recursion, so `compile p3` is evaluated by `simp`, not by `decide`) -/
theorem compile_p3 : compile p3 = .ok cmp3 := by
  simp [compile, p3, cmp3, pairsOf, rowUnits, rowLits, leafUnits, components, componentOf, neighborsOf, dedupSorted,
    List.mergeSort, List.MergeSort.Internal.splitInTwo, List.merge, List.range_succ, List.eraseDups_cons,
    stack, concatenate, concatenate.go, chain, treeLevels, padLevel, Diagram.getUpdateLocation,
    Diagram.getUpdateLocation.walk, Diagram.getUpdateLocation.skip, nodeAt, Node.ch, liveZero, blank, bind,
    Except.bind, pure, Except.pure, Except.map, throw, throwThe, MonadExceptOf.throw]
  rfl
end C09ex
open C09ex

/-- the executable check `locSpecOk` discharges `LocSpec` -/
theorem C09_locSpecOk {V : Type} (p : Prov.P) (cmp : Compiled V) (h : locSpecOk p cmp = true) : LocSpec p cmp :=
  locSpecOk_sound p cmp h

example : compile p3 = .ok cmp3 ∧ locSpecOk p3 cmp3 = true := ⟨compile_p3, by decide⟩

/-- C09a: `query` returns the by-definition counts -/
theorem C09_main (N K c : ℕ) (p : Prov.P) (labels : List ℕ) (dist : List Rat) (b : Built (Dom.tally N K c))
    (hconj : Conjunctive p) (hcands : p.nCands = 2) (hn : 2 ≤ p.nUnits)
    (hb : build (Dom.tally N K c) c p labels dist = .ok b) (hloc : LocSpec p b.base)
    (unit : ℕ) (hu : unit < p.nUnits) (bw bwo : Option ℕ)
    (hbw : ∀ t, bw = some t → t < p.data.length) (hbwo : ∀ t, bwo = some t → t < p.data.length) :
    compile p = .ok b.base ∧ Reach b.base.add ∧ b.base.add.units.Perm (List.range p.nUnits) ∧
    ∃ counts : List Int, query c b p.data.length unit bw bwo = .ok counts ∧
      counts.length = (Dom.tally N K c).vecs.length + 1 ∧
      (∀ k (hk : k < (Dom.tally N K c).vecs.length), counts.getD k 0 =
        ((countSpec p labels dist c K unit bw bwo ((Dom.tally N K c).vecs[k].headD 0)
          (((Dom.tally N K c).vecs[k].drop 1).take c) (((Dom.tally N K c).vecs[k].drop (1 + c)).take c) : ℕ) : Int)) ∧
      counts.getD (Dom.tally N K c).vecs.length 0 =
        2 ^ (p.nUnits - 1) - (counts.take (Dom.tally N K c).vecs.length).sum := by
  obtain ⟨hcomp, hmk⟩ := build_spec c p labels dist b hb
  have hperm := compile_units_perm p b.base hcomp hconj hcands
  have H := baseOK_of_compile p b.base hcomp hcands hperm hloc
  obtain ⟨counts, h1, h2, h3, h4⟩ := query_counts H hconj hn labels dist hmk unit hu bw bwo hbw hbwo
  exact ⟨hcomp, (compile_reach p b.base hcomp hcands).1, hperm, counts, h1, h2, h3, last_of_sum counts _ _ h2 h4⟩

/-- an instance of the hypotheses of `C09_main` outside the chain case (two units per row): `__init__` succeeds, the
compiled diagram has the units `[1, 0, 2]` and passes `locSpecOk` -/
example : Conjunctive p3 ∧ p3.nCands = 2 ∧ 2 ≤ p3.nUnits := by decide
example : (build D3 2 p3 [0, 1] [1, 2]).map (fun b =>
    (b.base.add.units, decide (b.base.add.units.Perm (List.range p3.nUnits)), locSpecOk p3 b.base)) =
      .ok ([1, 0, 2], true, true) := by rw [build_eq, compile_p3]; decide +kernel
/-- … and what `query(1, 0, None)` returns there: unit 1 off, row 0 never present without it; the two
assignments of the other units with `x0 = 1` (`t = 1` or `2`, label 0 counted once on the `with` side) -/
example : (build D3 2 p3 [0, 1] [1, 2]).bind (fun b => query 2 b 2 1 (some 0) none) =
    .ok [0, 0, 0, 0, 0, 0, 0, 0, 0, 0, 0, 0, 0, 0, 0, 1, 0, 0, 0, 0, 0, 0, 0, 0, 1, 0, 0, 2] := by
  rw [build_eq, compile_p3]; decide +kernel

/-- C09b: the counts returned by `query` add up to the number of coalitions without the target -/
theorem C09_total (N K c : ℕ) (p : Prov.P) (labels : List ℕ) (dist : List Rat) (b : Built (Dom.tally N K c))
    (hconj : Conjunctive p) (hcands : p.nCands = 2) (hn : 2 ≤ p.nUnits)
    (hb : build (Dom.tally N K c) c p labels dist = .ok b) (hloc : LocSpec p b.base)
    (unit : ℕ) (hu : unit < p.nUnits) (bw bwo : Option ℕ)
    (hbw : ∀ t, bw = some t → t < p.data.length) (hbwo : ∀ t, bwo = some t → t < p.data.length)
    (counts : List Int) (hq : query c b p.data.length unit bw bwo = .ok counts) :
    counts.sum = 2 ^ (p.nUnits - 1) := by
  obtain ⟨hcomp, hmk⟩ := build_spec c p labels dist b hb
  have H := baseOK_of_compile p b.base hcomp hcands (compile_units_perm p b.base hcomp hconj hcands) hloc
  obtain ⟨counts', h1, _, _, h4⟩ := query_counts H hconj hn labels dist hmk unit hu bw bwo hbw hbwo
  rw [hq] at h1
  cases h1
  exact h4

example : ((build D3 2 p3 [0, 1] [1, 2]).bind (fun b => query 2 b 2 1 (some 0) none)).map List.sum = .ok (2 ^ (3 - 1)) := by
  rw [build_eq, compile_p3]; decide +kernel

/-- C09c: one unit per row — `compile` returns the chain over `range nUnits`, and everything `C09_main` asks of
the compiled diagram holds -/
theorem C09_chain {D : Dom} (p : Prov.P) (hconj : Conjunctive p) (hone : OneUnit p) (hcands : p.nCands = 2) :
    ∃ cmp : Compiled (AVal D), compile p = .ok cmp ∧ cmp.add = chain (List.range p.nUnits) p.nCands ∧
      Reach cmp.add ∧ cmp.add.units = List.range p.nUnits ∧ LocSpec p cmp :=
  ⟨_, compile_chain p (by rw [hconj.1]) hone.1, rfl, Reach.chain _ _, rfl, (chain_baseOK p hconj hone hcands).loc⟩

example : Conjunctive p2 ∧ OneUnit p2 ∧ p2.nCands = 2 := by decide
example : (compile p2 : Except Err (Compiled (AVal D2))).map (fun cmp => (cmp.add.units, locSpecOk p2 cmp)) =
    .ok ([0, 1], true) ∧ chainLocs p2 = [[(0, 0, 1)], [(0, 0, 1)], [(1, 0, 1)]] := by decide

/-- C09c, corollary: for map / fork provenance (one unit per row) `__init__` succeeds and `query` returns the
by-definition counts, with no side conditions on the compiled diagram -/
theorem C09_mapfork (N K c : ℕ) (p : Prov.P) (labels : List ℕ) (dist : List Rat)
    (hconj : Conjunctive p) (hone : OneUnit p) (hcands : p.nCands = 2) (hn : 2 ≤ p.nUnits) :
    ∃ b : Built (Dom.tally N K c), build (Dom.tally N K c) c p labels dist = .ok b ∧
      ∀ unit, unit < p.nUnits → ∀ bw bwo : Option ℕ,
        (∀ t, bw = some t → t < p.data.length) → (∀ t, bwo = some t → t < p.data.length) →
        ∃ counts : List Int, query c b p.data.length unit bw bwo = .ok counts ∧
          counts.length = (Dom.tally N K c).vecs.length + 1 ∧
          (∀ k (hk : k < (Dom.tally N K c).vecs.length), counts.getD k 0 =
            ((countSpec p labels dist c K unit bw bwo ((Dom.tally N K c).vecs[k].headD 0)
              (((Dom.tally N K c).vecs[k].drop 1).take c) (((Dom.tally N K c).vecs[k].drop (1 + c)).take c) : ℕ) : Int)) ∧
          counts.getD (Dom.tally N K c).vecs.length 0 =
            2 ^ (p.nUnits - 1) - (counts.take (Dom.tally N K c).vecs.length).sum ∧
          counts.sum = 2 ^ (p.nUnits - 1) := by
  obtain ⟨cmp, hcomp, _, _, hunits, hloc⟩ := C09_chain (D := Dom.tally N K c) p hconj hone hcands
  have hperm : cmp.add.units.Perm (List.range p.nUnits) := by rw [hunits]
  obtain ⟨b, hb, hbase⟩ := build_ok c p labels dist cmp hcomp hconj hperm
  subst hbase
  refine ⟨b, hb, fun unit hu bw bwo hbw hbwo => ?_⟩
  obtain ⟨_, _, _, counts, h1, h2, h3, h4⟩ :=
    C09_main N K c p labels dist b hconj hcands hn hb hloc unit hu bw bwo hbw hbwo
  exact ⟨counts, h1, h2, h3, h4,
    C09_total N K c p labels dist b hconj hcands hn hb hloc unit hu bw bwo hbw hbwo counts h1⟩

/-- the fork `p2` (labels 0, 1, 1; distances 1, 2, 3): `query(0, 0, 2)` — with unit 0 on, rows 0 and 1 are present
and row 0 is the boundary (tally `[1, 0]`); without it only row 2 can be present (tally `[0, 1]`), so the single
assignment `x1 = 1` lands on the key `(1, [1, 0], [0, 1])` and `x1 = 0` on the invalid value -/
example : ∃ b, build D2 2 p2 [0, 1, 1] [1, 2, 3] = .ok b ∧ ∃ counts, query 2 b 3 0 (some 0) (some 2) = .ok counts ∧
    counts.sum = 2 := by
  obtain ⟨b, hb, h⟩ := C09_mapfork 1 1 2 p2 [0, 1, 1] [1, 2, 3] (by decide) (by decide) (by decide) (by decide)
  obtain ⟨counts, h1, _, _, _, h5⟩ := h 0 (by decide) (some 0) (some 2) (by decide) (by decide)
  exact ⟨b, hb, counts, h1, h5⟩
example : (build D2 2 p2 [0, 1, 1] [1, 2, 3]).bind (fun b => query 2 b 3 0 (some 0) (some 2)) =
    .ok [0, 0, 0, 0, 0, 0, 0, 0, 0, 0, 0, 0, 0, 0, 0, 0, 1, 0, 1] ∧ D2.vecs[16]? = some [1, 1, 0, 0, 1] ∧
    countSpec p2 [0, 1, 1] [1, 2, 3] 2 1 0 (some 0) (some 2) 1 [1, 0] [0, 1] = 1 := by decide +kernel

/-- C09d: what `compile` returns for a conjunctive provenance with binary candidates (chain when `nConj = 1`, otherwise
`stack`s of copies of a chain over the leaf units under a header tree over the factor units, one per connected
component of the co-occurrence graph, `concatenate`d): a `Reach`able diagram (well-formed, rectangular) with two
candidates, all edge values zero, whose units are a permutation of `range nUnits`, and whose locations satisfy
`LocSpec`; moreover `ShapleyOracle.__init__` then succeeds.  (When `nConj = 1` the code reads only the first literal
slot of each row, so the rows must really consist of one non-padding literal: `OneUnit`.) -/
theorem C09_compile {D : Dom} (p : Prov.P) (cmp : Compiled (AVal D)) (hconj : Conjunctive p)
    (hcands : p.nCands = 2) (hshape : p.nConj = 1 → OneUnit p) (h : compile p = .ok cmp) :
    Reach cmp.add ∧ cmp.add.WF ∧ cmp.add.Rect ∧ cmp.add.C = 2 ∧ (∀ args, cmp.add.eval args = 0) ∧
    cmp.add.units.Perm (List.range p.nUnits) ∧ LocSpec p cmp ∧
    (∀ (c : ℕ) (labels : List ℕ) (dist : List Rat), ∃ b, build D c p labels dist = .ok b ∧ b.base = cmp) := by
  obtain ⟨h1, h2, _, h4⟩ := compile_reach p cmp h hcands
  have hp := compile_units_perm p cmp h hconj hcands
  exact ⟨h1, h1.inv.1, h1.inv.2, h2, h4, hp, compile_locSpec p cmp h hconj hcands hshape,
    fun c labels dist => build_ok c p labels dist cmp h hconj hp⟩

example : compile p3 = .ok cmp3 ∧ cmp3.add.WF ∧ cmp3.add.C = 2 ∧ cmp3.add.call [1, 0, 1] = .ok 0 ∧
    cmp3.add.units.Perm (List.range p3.nUnits) ∧ locSpecOk p3 cmp3 = true :=
  ⟨compile_p3, by decide, by decide, by decide, by decide, by decide⟩
example : LocSpec p3 cmp3 := (C09_compile p3 cmp3 (by decide) (by decide) (by decide) compile_p3).2.2.2.2.2.2.1

/-- C09a without side conditions: for every conjunctive provenance with binary candidates and at least two units on
which `ShapleyOracle.__init__` succeeds, `query` returns the by-definition counts (`C09_main` + `C09_compile`) -/
theorem C09_exact (N K c : ℕ) (p : Prov.P) (labels : List ℕ) (dist : List Rat) (b : Built (Dom.tally N K c))
    (hconj : Conjunctive p) (hcands : p.nCands = 2) (hn : 2 ≤ p.nUnits) (hshape : p.nConj = 1 → OneUnit p)
    (hb : build (Dom.tally N K c) c p labels dist = .ok b)
    (unit : ℕ) (hu : unit < p.nUnits) (bw bwo : Option ℕ)
    (hbw : ∀ t, bw = some t → t < p.data.length) (hbwo : ∀ t, bwo = some t → t < p.data.length) :
    ∃ counts : List Int, query c b p.data.length unit bw bwo = .ok counts ∧
      counts.length = (Dom.tally N K c).vecs.length + 1 ∧
      (∀ k (hk : k < (Dom.tally N K c).vecs.length), counts.getD k 0 =
        ((countSpec p labels dist c K unit bw bwo ((Dom.tally N K c).vecs[k].headD 0)
          (((Dom.tally N K c).vecs[k].drop 1).take c) (((Dom.tally N K c).vecs[k].drop (1 + c)).take c) : ℕ) : Int)) ∧
      counts.getD (Dom.tally N K c).vecs.length 0 =
        2 ^ (p.nUnits - 1) - (counts.take (Dom.tally N K c).vecs.length).sum ∧
      counts.sum = 2 ^ (p.nUnits - 1) := by
  have hloc : LocSpec p b.base :=
    compile_locSpec p b.base (build_spec c p labels dist b hb).1 hconj hcands hshape
  obtain ⟨_, _, _, counts, h1, h2, h3, h4⟩ :=
    C09_main N K c p labels dist b hconj hcands hn hb hloc unit hu bw bwo hbw hbwo
  exact ⟨counts, h1, h2, h3, h4,
    C09_total N K c p labels dist b hconj hcands hn hb hloc unit hu bw bwo hbw hbwo counts h1⟩

/-- the join `p3` (labels 0, 1; distances 1, 2): `C09_exact` applies to whatever `__init__` returns … -/
example (b : Built D3) (hb : build D3 2 p3 [0, 1] [1, 2] = .ok b) :
    ∃ counts, query 2 b 2 1 (some 0) none = .ok counts ∧ counts.sum = 4 := by
  obtain ⟨counts, h1, _, _, _, h5⟩ := C09_exact 2 1 2 p3 [0, 1] [1, 2] b (by decide) (by decide) (by decide) (by decide) hb
    1 (by decide) (some 0) none (by decide) (by decide)
  exact ⟨counts, h1, h5⟩
/-- … and `__init__` does succeed there -/
example : ∃ b, build D3 2 p3 [0, 1] [1, 2] = .ok b ∧ b.base = cmp3 :=
  (C09_compile p3 cmp3 (by decide) (by decide) (by decide) compile_p3).2.2.2.2.2.2.2 2 [0, 1] [1, 2]

/-- C09e: with a single unit `query` raises `IndexError` (finding F3b), whatever the boundaries -/
theorem C09_single_unit (N K c : ℕ) (p : Prov.P) (labels : List ℕ) (dist : List Rat) (b : Built (Dom.tally N K c))
    (hconj : Conjunctive p) (hcands : p.nCands = 2) (hn : p.nUnits = 1)
    (hb : build (Dom.tally N K c) c p labels dist = .ok b) (hloc : LocSpec p b.base)
    (bw bwo : Option ℕ) (hbw : ∀ t, bw = some t → t < p.data.length) :
    query c b p.data.length 0 bw bwo = .error Err.indexError := by
  obtain ⟨hcomp, hmk⟩ := build_spec c p labels dist b hb
  exact query_single (baseOK_of_compile p b.base hcomp hcands (compile_units_perm p b.base hcomp hconj hcands) hloc)
    hconj hn labels dist hmk bw bwo hbw

example : Conjunctive p1 ∧ OneUnit p1 ∧ p1.nCands = 2 ∧ p1.nUnits = 1 := by decide
example : (build D2 2 p1 [0, 1] [1, 2]).bind (fun b => query 2 b 2 0 (some 0) none) = .error Err.indexError ∧
    (build D2 2 p1 [0, 1] [1, 2]).map (fun b => (b.base.add.units, locSpecOk p1 b.base)) = .ok ([0], true) := by
  decide +kernel
