import DsProofs.AddProofs
import DsProofs.AValProofs

/-!
# C10 — the decision-diagram algebra agrees with the pointwise semantics

About `datascope/utility/add.py` (`AValue`, `ADD`) and `datascope/importance/oracle.py` (`ATally`);
models: `Ds.AVal` (Ds/AVal.lean) and `Ds.Dd` (Ds/Add.lean); helper lemmas: DsProofs/AValProofs.lean,
DsProofs/AddProofs.lean.  Vocabulary:
`evalFrom L r args` is the sum of the edge values along the path that starts at node `r` of the first level
and follows `args`; `Diagram.eval d args = evalFrom d.levels d.root args`.  `wf C L r`: every node reachable
from `r` through candidates `< C` is active.  `Diagram.WF d`: one level per unit and `wf` at the root.
`Diagram.Rect d`: the arrays are rectangular (`diameter ≥ 1` nodes per level, `C` child slots per node).
`edge L i j c` is `adder[i, j, c]`.  `allArgs C n` lists all `n`-tuples of candidates `< C`.

Value domain (`AValue[m₀,…]` = `Dom.box`, `ATally[n,K,c]` = `Dom.tally`; `none` is the invalid value "inf"):
* `C10_aval_monoid`, `C10_aval_monoid_ops`, `C10_aval_laws`: `__add__` with `zero` is a commutative monoid on
  the clipped values of every domain, the invalid value is absorbing; the monoid's `+`/`0` are the model's.
  `C10_ok_box`, `C10_ok_tally`, `C10_ok_down`: what "inside the domain" means; both kinds of domain contain
  zero and are downward closed (this is what associativity rests on).
* `C10_add_spec`, `C10_add_none`: `a + b` is the component-wise sum, and it is the invalid value exactly
  when an addend is invalid or the component-wise sum leaves the domain.
* `C10_sub_spec`, `C10_sub_components`, `C10_subq_spec`: for a valid minuend `x`, `x - a = r` (valid `r`) iff
  `a + r = x`; i.e. the component-wise difference, invalid exactly when a component would go negative
  or `a` is invalid.  Needs at least one component (`0 < D.dim`): `AValue[()]` is a counterexample (shown).
* `C10_index_bijective`: `domain()` lists every value exactly once, the zero value first and the invalid
  value last, so `__index__` (position in `domain()`) is a bijection onto `range(len(domain()))`, and
  `len(domain()) = domainsize` for boxes and for tallies (stars and bars).  `C10_boxIndex`: the mixed-radix
  formula of `AValue.__index__` is that position.

Diagrams (values in any commutative monoid `V`):
* `C10_call`: `ADD.__call__` returns the path sum (`ValueError` on a wrong number of arguments,
  `IndexError` on a candidate `≥ num_candidates`).
* `C10_restrict_pos`, `C10_restrict_root`, `C10_restrict_single`, `C10_restrict`, `C10_restrict_ok`:
  `restrict(u, c)` of a well-formed diagram with at least two variables succeeds and is the diagram over the
  remaining units whose value at `as` is the original value at `as` with `c` inserted at `u`'s position
  (and it raises the same exceptions); on a one-variable diagram it raises `IndexError` (finding F3b).
* `C10_sum`: `a.sum(b)` evaluates to `a(args) + b(args)` and raises whatever `a(args)`/`b(args)` raise.
* `C10_modelcount`, `C10_modelcount_aval`: `modelcount()` lists, for every value of the domain in domain
  order, the number of 0/1 assignments whose path value is that value; the last entry `2^n − Σ` is the
  number of assignments evaluating to the invalid value.
* `C10_chain_wf`, `C10_eval_chain`, `C10_tree_wf`: `construct_chain` / `construct_tree` give well-formed
  rectangular diagrams that are zero everywhere.  `C10_update`: `update` changes exactly the listed edges
  (to `old + v`, or `v`) and nothing else.  `C10_stack`: a stack evaluates to the element selected by the
  factor bits.  `C10_concat`: a concatenation evaluates to the sum of its elements on their argument slices.
* `C10_history` (+ `_restrict`, `_sum`, `_modelcount`): every diagram obtained from the constructors by any
  sequence of `stack`, `concatenate`, `update`, `restrict`, `sum` (`Ds.Dd.Reach`) is well-formed and
  rectangular, so the statements above hold for it with no side conditions left.
Each theorem is followed by, or has in `C10ex` at the end, a concrete instance checked by `decide`.
-/

open Ds Ds.Dd

/-! ## Value domain -/

/-- V1: the commutative monoid of clipped values -/
@[reducible] def C10_aval_monoid (D : Dom) : AddCommMonoid (AVal D) := AVal.instAddCommMonoid D

/-- the monoid's operations are the model's `AVal.add` / `AVal.zero`, and so are the instances the model
itself uses for `+` and `0` -/
theorem C10_aval_monoid_ops (D : Dom) :
    (∀ a b : AVal D, (C10_aval_monoid D).add a b = AVal.add a b) ∧ (C10_aval_monoid D).zero = AVal.zero D ∧
    (C10_aval_monoid D).toAdd = AVal.instAdd ∧ (C10_aval_monoid D).toZero = AVal.instZero :=
  ⟨fun _ _ => rfl, rfl, rfl, rfl⟩

theorem C10_aval_laws {D : Dom} (a b c : AVal D) :
    a + b + c = a + (b + c) ∧ a + b = b + a ∧ 0 + a = a ∧ a + 0 = a ∧ none + a = none ∧ a + none = none :=
  ⟨AVal.add_assoc' a b c, AVal.add_comm' a b, AVal.zero_add' a, AVal.add_zero' a, AVal.none_add a, AVal.add_none a⟩

example : let D : Dom := .tally 2 1 2
    let a : AVal D := AVal.clip D [1, 1, 0, 0, 0]; let b : AVal D := AVal.clip D [1, 0, 0, 0, 1]
    let c : AVal D := AVal.clip D [0, 1, 0, 0, 0]
    a + b = AVal.clip D [2, 1, 0, 0, 1] ∧ b + a = a + b + 0 ∧ a + c = none ∧ (a + b) + c = none ∧ a + (b + c) = none := by
  decide

/-- membership in a box: every component within its bound -/
theorem C10_ok_box (m x : List Nat) : (Dom.box m).ok x = true ↔ List.Forall₂ (· ≤ ·) x m := Dom.ok_box_iff m x

/-- membership in a tally domain -/
theorem C10_ok_tally (n K c : Nat) (x : List Nat) :
    (Dom.tally n K c).ok x = true ↔
      x.length = 1 + 2 * c ∧ x.headD 0 ≤ n ∧ ((x.drop 1).take c).sum ≤ K ∧ ((x.drop (1 + c)).take c).sum ≤ K :=
  Dom.ok_tally_iff n K c x

/-- both kinds of domain contain zero and are downward closed -/
theorem C10_ok_down (D : Dom) :
    D.ok D.zeroVec = true ∧ ∀ x y, D.ok x = true → List.Forall₂ (· ≤ ·) y x → D.ok y = true :=
  ⟨Dom.ok_zeroVec D, fun _ _ h hle => Dom.ok_down h hle⟩

/-- V2: addition is component-wise -/
theorem C10_add_spec {D : Dom} (a b : AVal D) (s : {x : List Nat // D.ok x = true}) :
    a + b = some s ↔
      ∃ x y, a = some x ∧ b = some y ∧ s.1 = List.zipWith (· + ·) x.1 y.1 ∧
        D.ok (List.zipWith (· + ·) x.1 y.1) = true := by
  cases a with
  | none => simp [show (none + b : AVal D) = none from AVal.none_add b]
  | some x =>
    cases b with
    | none => simp [show (some x + none : AVal D) = none from rfl]
    | some y =>
      show AVal.clip D _ = some s ↔ _
      rw [AVal.clip_eq_some_iff]
      constructor
      · intro h; exact ⟨x, y, rfl, rfl, h, h ▸ s.2⟩
      · rintro ⟨x', y', hx, hy, h, _⟩
        cases hx; cases hy; exact h

/-- … and invalid exactly when an addend is invalid or a component leaves its bounds -/
theorem C10_add_none {D : Dom} (a b : AVal D) :
    a + b = none ↔
      a = none ∨ b = none ∨
        ∃ x y, a = some x ∧ b = some y ∧ D.ok (List.zipWith (· + ·) x.1 y.1) = false := by
  cases a with
  | none => simp [show (none + b : AVal D) = none from AVal.none_add b]
  | some x =>
    cases b with
    | none => simp [show (some x + none : AVal D) = none from rfl]
    | some y =>
      show AVal.clip D _ = none ↔ _
      by_cases h : D.ok (List.zipWith (· + ·) x.1 y.1) = true
      · rw [AVal.clip_ok h]; simp [h]
      · rw [AVal.clip_not_ok h]; simpa using h

example : let D : Dom := .box [3, 2]
    (AVal.clip D [1, 1] + AVal.clip D [2, 1] = AVal.clip D [3, 2]) ∧ (AVal.clip D [1, 1] + AVal.clip D [2, 2] = none) ∧
    D.ok (List.zipWith (· + ·) [1, 1] [2, 2]) = false := by decide

/-- V3: subtraction from a valid minuend is the inverse of addition -/
theorem C10_sub_spec {D : Dom} (hd : 0 < D.dim) (x r : {x : List Nat // D.ok x = true}) (a : AVal D) :
    AVal.sub (some x) a = some r ↔ a + some r = some x := AVal.sub_spec hd x r a

/-- component form: the difference is valid iff no component goes negative (and `a` is valid) -/
theorem C10_sub_components {D : Dom} (hd : 0 < D.dim) (x : {x : List Nat // D.ok x = true}) :
    AVal.sub (some x) none = none ∧
    ∀ y r : {x : List Nat // D.ok x = true},
      AVal.sub (some x) (some y) = some r ↔
        List.Forall₂ (· ≤ ·) y.1 x.1 ∧ r.1 = List.zipWith (· - ·) x.1 y.1 := by
  classical
  refine ⟨AVal.sub_some_none hd x, fun y r => ?_⟩
  rw [AVal.sub_some_some]
  by_cases h : VLe y.1 x.1
  · rw [if_pos h, AVal.clip_eq_some_iff]; simp [h]
  · rw [if_neg h]; simp [h]

/-- `sub?` (what `modelcount` uses) is `sub` with the invalid result turned into "no result" -/
theorem C10_subq_spec {D : Dom} (e a r : AVal D) : AVal.sub? e a = some r ↔ r ≠ none ∧ AVal.sub e a = r :=
  AVal.sub?_iff e a r

example : let D : Dom := .tally 2 1 1
    AVal.sub (AVal.clip D [2, 1, 0]) (AVal.clip D [1, 0, 0]) = AVal.clip D [1, 1, 0] ∧
    AVal.clip D [1, 0, 0] + AVal.clip D [1, 1, 0] = AVal.clip D [2, 1, 0] ∧
    AVal.sub (AVal.clip D [2, 1, 0]) (AVal.clip D [0, 0, 1]) = none ∧
    AVal.sub (AVal.clip D [2, 1, 0]) none = none := by decide

/-- the hypothesis `0 < D.dim` cannot be dropped: in the empty box the invalid value can be subtracted -/
example : AVal.sub (AVal.clip (.box []) []) none = AVal.clip (.box []) [] := by decide

/-- V4: the enumerated domain and `__index__` -/
theorem C10_index_bijective (D : Dom) :
    D.domain.Nodup ∧ (∀ v : AVal D, v ∈ D.domain) ∧
    (∀ v w : AVal D, D.index v = D.index w ↔ v = w) ∧
    (∀ v : AVal D, ∃ h : D.index v < D.domain.length, D.domain[D.index v] = v) ∧
    (∀ i (h : i < D.domain.length), D.index D.domain[i] = i) ∧
    D.index (0 : AVal D) = 0 ∧ D.index (none : AVal D) = D.domain.length - 1 ∧
    D.domain.length = D.domainsize :=
  ⟨Dom.nodup_domain D, Dom.mem_domain, Dom.index_inj, fun v => ⟨Dom.index_lt v, Dom.domain_index v⟩,
    Dom.index_domain, Dom.index_zero D, Dom.index_none D, Dom.domain_length_eq D⟩

/-- V4, boxes: `AValue.__index__` (the mixed-radix formula) is the position in `domain()` -/
theorem C10_boxIndex (m : List Nat) (v : AVal (.box m)) : Dom.boxIndex m v.toList = (Dom.box m).index v :=
  Dom.boxIndex_eq_index m v

example : let D : Dom := .box [2, 1, 3]
    Dom.boxIndex [2, 1, 3] (some [1, 0, 2]) = 10 ∧ D.index (AVal.clip D [1, 0, 2]) = 10 ∧ D.domainsize = 25 ∧
    D.index (none : AVal D) = 24 ∧ Dom.boxIndex [2, 1, 3] none = 24 := by decide

example : let D : Dom := .tally 1 1 2
    D.domain.length = 19 ∧ D.domainsize = 19 ∧ D.index (AVal.clip D [1, 0, 1, 1, 0]) = 14 ∧ D.index (none : AVal D) = 18 := by
  decide

/-! ## Diagrams -/

section
variable {V : Type} [AddCommMonoid V]

/-- D1: `__call__` -/
theorem C10_call (d : Diagram V) (args : List ℕ) :
    (args.length = d.units.length → (∀ a ∈ args, a < d.C) → d.call args = .ok (evalFrom d.levels d.root args)) ∧
    (args.length ≠ d.units.length → d.call args = .error Err.valueError) ∧
    (args.length = d.units.length → (∃ a ∈ args, d.C ≤ a) → d.call args = .error Err.indexError) := by
  rw [call_eq]
  refine ⟨fun h1 h2 => ?_, fun h1 => ?_, fun h1 h2 => ?_⟩
  · rw [if_neg (not_not.mpr h1), if_neg]; rfl
    rintro ⟨a, ha, h⟩; exact absurd (h2 a ha) (Nat.not_lt.mpr h)
  · rw [if_pos h1]
  · rw [if_neg (not_not.mpr h1), if_pos h2]

/-- D2: restrict of a unit that is not the first one -/
theorem C10_restrict_pos (C k value : ℕ) (L : List (Level V)) (j : ℕ) (as : List ℕ)
    (hv : value < C) (hk : k + 1 < L.length) (hlen : as.length + 1 = L.length) (hC : ∀ a ∈ as, a < C)
    (hw : wf C L j) :
    evalFrom (restrictPos C k value L) j as = evalFrom L j (as.insertIdx (k + 1) value) ∧
    wf C (restrictPos C k value L) j :=
  ⟨eval_restrictPos C k value L j as hk hlen hC hw, wf_restrictPos C k value L j hv hw⟩

/-- D2': restrict of the first unit of a diagram with at least two levels -/
theorem C10_restrict_root (C root value : ℕ) (lv next : Level V) (rest : List (Level V))
    (hv : value < C) (hw : wf C (lv :: next :: rest) root) :
    ∃ r' L', restrictRoot C root value (lv :: next :: rest) = .ok (r', L') ∧ wf C L' r' ∧
      ∀ b as, b < C → evalFrom L' r' (b :: as) = evalFrom (lv :: next :: rest) root (value :: b :: as) :=
  ⟨_, _, restrictRoot_ok C root value lv next rest hv hw, wf_restrictRoot C root value lv next rest hv hw _,
    fun b as hb => eval_restrictRoot C root value lv next rest hv hw b as hb⟩

/-- D2'': finding F3b — restricting the variable of a one-variable diagram raises `IndexError` -/
theorem C10_restrict_single (d : Diagram V) (u c : ℕ) (h1 : d.units = [u]) (hlen : d.levels.length = 1)
    (hc : c < d.C) : d.restrict u c = .error Err.indexError :=
  restrict_single d u c (by omega) (by simp [h1]) (by simp [h1]) hc

/-- D2: `restrict`, for a well-formed diagram with at least two variables -/
theorem C10_restrict (d d' : Diagram V) (u c : ℕ) (hwf : d.WF) (h2 : 2 ≤ d.units.length)
    (h : d.restrict u c = .ok d') :
    d'.WF ∧ d'.units = d.units.eraseIdx (d.units.idxOf u) ∧
    ∀ as, d'.call as = d.call (as.insertIdx (d.units.idxOf u) c) :=
  ⟨(restrict_spec d d' u c hwf h2 h).2.2.1, (restrict_spec d d' u c hwf h2 h).2.2.2.1,
    restrict_call d d' u c hwf h2 h⟩

/-- … and under these hypotheses `restrict` does succeed for every unit of the diagram and candidate `< C` -/
theorem C10_restrict_ok (d : Diagram V) (u c : ℕ) (hwf : d.WF) (h2 : 2 ≤ d.units.length)
    (hu : u ∈ d.units) (hc : c < d.C) : ∃ d', d.restrict u c = .ok d' := restrict_ok d u c hwf h2 hu hc

/-- D3: `sum` is the pointwise sum (errors of the operands' calls are propagated) -/
theorem C10_sum (a b s : Diagram V) (ha : a.WF) (hb : b.WF) (h : a.sum b = .ok s) :
    s.WF ∧ s.units = a.units ∧
    ∀ as, s.call as = (do let x ← a.call as; let y ← b.call as; pure (x + y)) :=
  ⟨(sum_spec a b s ha hb h).2.2.1, (sum_spec a b s ha hb h).2.2.2.1, sum_call a b s ha hb h⟩

/-- D4: the `modelcount` recurrence counts the argument tuples by path value -/
theorem C10_modelcount [DecidableEq V] (C : ℕ) (sub? : V → V → Option V) (valid : V → Prop)
    (H : ∀ e a r, valid e → (sub? e a = some r ↔ a + r = e))
    (Hv : ∀ e a r, valid e → a + r = e → valid r)
    (L : List (Level V)) (j : ℕ) (e : V) (he : valid e) (hw : wf C L j) :
    mc C sub? L j e = ((allArgs C L.length).countP (fun as => evalFrom L j as = e)) :=
  mc_eq_countSpec C sub? valid H Hv L j e he hw

end

/-- D4 for the clipped values: `modelcount()` is the histogram of the diagram over all 0/1 assignments,
in domain order, the invalid value last -/
theorem C10_modelcount_aval (D : Dom) (hd : 0 < D.dim) (d : Diagram (AVal D)) (hw : d.WF) (hC : d.C = 2) :
    d.modelcount AVal.sub? (D.vecs.map (AVal.clip D)) =
      D.domain.map (fun e => (((allArgs 2 d.units.length).countP (fun as => evalFrom d.levels d.root as = e) : ℕ) : Int)) := by
  have h := modelcount_complete d hw AVal.sub? (· ≠ none)
    (fun e a r he => AVal.sub?_law hd e a r he) (fun e a r he h => AVal.add_valid a r e he h)
    (D.vecs.map (AVal.clip D))
    (fun e he hn => Dom.none_notMem D (hn ▸ he)) none (Dom.nodup_domain D) Dom.mem_domain hC
  rw [h, ← hw.len]; rfl


/-! ### D5: constructors and `update` -/

section
variable {V : Type} [AddCommMonoid V]

/-- `construct_chain`: well-formed, rectangular, … -/
theorem C10_chain_wf (units : List ℕ) (C : ℕ) :
    (chain units C : Diagram V).WF ∧ (chain units C : Diagram V).Rect := ⟨chain_wf units C, chain_rect units C⟩

/-- … and zero everywhere -/
theorem C10_eval_chain (units : List ℕ) (C : ℕ) (as : List ℕ) : (chain units C : Diagram V).eval as = 0 :=
  eval_chain units C as

/-- `update(location, v, increment)`: the edges listed in `location` (a duplicate-free list of existing
edges `(level, node, candidate)`) get `old + v` (or `v`), every other edge keeps its value, the graph
(activity flags, children) is unchanged, so well-formedness is preserved -/
theorem C10_update (d : Diagram V) (loc : List (ℕ × ℕ × ℕ)) (v : V) (inc : Bool) :
    (loc.Nodup → (∀ e ∈ loc, inRange d.levels e) → ∀ i j c,
      edge (d.update loc v inc).levels i j c =
        if (i, j, c) ∈ loc then (if inc then edge d.levels i j c + v else v) else edge d.levels i j c) ∧
    SameShape d.levels (d.update loc v inc).levels ∧
    ((d.update loc v inc).units = d.units ∧ (d.update loc v inc).root = d.root ∧ (d.update loc v inc).C = d.C) ∧
    (d.WF → (d.update loc v inc).WF) ∧ (d.Rect → (d.update loc v inc).Rect) :=
  ⟨fun hnd hr i j c => edge_foldl_upd1 v inc loc d.levels hnd hr i j c, foldl_upd1_shape v inc loc d.levels,
    ⟨rfl, rfl, rfl⟩, update_wf d loc v inc, update_rect d loc v inc⟩

/-- `construct_tree` (succeeds for binary candidates, or a single unit): well-formed, rectangular, zero -/
theorem C10_tree_wf (units : List ℕ) (C : ℕ) :
    (units ≠ [] → (C = 2 ∨ units.length = 1) → ∃ d : Diagram V, tree units C = .ok d) ∧
    ∀ d : Diagram V, tree units C = .ok d →
      d.WF ∧ d.Rect ∧ d.units = units ∧ d.C = C ∧ ∀ as, d.eval as = 0 :=
  ⟨tree_ok units C, fun d h =>
    ⟨(tree_spec units C d h).1, tree_rect units C d h, (tree_spec units C d h).2.1, (tree_spec units C d h).2.2.1,
      (tree_spec units C d h).2.2.2.2⟩⟩

/-- `stack(factors, elements)` over well-formed rectangular binary elements of equal depth `n`: the
value at `bits ++ as` is the value at `as` of the element selected by `bits` read as a binary number
(`itertools.product` order) -/
theorem C10_stack (factors : List ℕ) (e0 : Diagram V) (rest : List (Diagram V)) (d : Diagram V) (n : ℕ)
    (h : stack factors (e0 :: rest) = .ok d)
    (hwf : ∀ e ∈ e0 :: rest, e.WF ∧ e.Rect ∧ e.C = 2 ∧ e.units.length = n) :
    d.WF ∧ d.Rect ∧ d.C = 2 ∧ d.units = factors ++ e0.units ∧ (e0 :: rest).length = 2 ^ factors.length ∧
    ∀ bits as, bits.length = factors.length → (∀ b ∈ bits, b < 2) → (∀ a ∈ as, a < 2) →
      ∃ hm : bitsVal bits < (e0 :: rest).length, d.eval (bits ++ as) = ((e0 :: rest)[bitsVal bits]).eval as :=
  stack_spec factors e0 rest d n h
    ⟨fun e he => (hwf e he).1, fun e he => (hwf e he).2.1, fun e he => (hwf e he).2.2.1,
      fun e he => by rw [(hwf e he).1.len]; exact (hwf e he).2.2.2⟩

/-- `concatenate(elements)` over well-formed elements: the value at the concatenated argument
lists is the sum of the elements' values on their own slices -/
theorem C10_concat (els : List (Diagram V)) (d : Diagram V) (h : concatenate els = .ok d)
    (hwf : ∀ e ∈ els, e.WF) :
    d.WF ∧ ((∀ e ∈ els, e.Rect) → d.Rect) ∧ d.units = els.flatMap (·.units) ∧ d.C = 2 ∧
    ∀ ass : List (List ℕ),
      List.Forall₂ (fun (x : Diagram V) as => as.length = x.units.length ∧ ∀ a ∈ as, a < 2) els ass →
      d.eval ass.flatten = (List.zipWith (fun (x : Diagram V) as => x.eval as) els ass).sum :=
  ⟨(concat_spec els d h hwf).1, concat_rect els d h, (concat_spec els d h hwf).2.1, (concat_spec els d h hwf).2.2.1,
    (concat_spec els d h hwf).2.2.2.2⟩

/-! ### D6: histories -/

/-- every diagram built from `construct_chain` / `construct_tree` by any sequence of `stack` (binary elements
of equal depth), `concatenate`, `update`, `restrict`, `sum` is well-formed and rectangular … -/
theorem C10_history (d : Diagram V) (h : Reach d) : d.WF ∧ d.Rect := h.inv

/-- … hence D1–D4 hold for it without further hypotheses: `restrict` -/
theorem C10_history_restrict (d d' : Diagram V) (u c : ℕ) (hd : Reach d) (h : d.restrict u c = .ok d') :
    Reach d' ∧ ∀ as, d'.call as = d.call (as.insertIdx (d.units.idxOf u) c) :=
  ⟨.restrict d d' u c hd h, restrict_call d d' u c hd.inv.1 (restrict_two_le d d' u c hd.inv.1 h) h⟩

/-- `sum` -/
theorem C10_history_sum (a b s : Diagram V) (ha : Reach a) (hb : Reach b) (h : a.sum b = .ok s) :
    Reach s ∧ ∀ as, s.call as = (do let x ← a.call as; let y ← b.call as; pure (x + y)) :=
  ⟨.sum a b s ha hb h, sum_call a b s ha.inv.1 hb.inv.1 h⟩

end

/-- `modelcount` -/
theorem C10_history_modelcount (D : Dom) (hd : 0 < D.dim) (d : Diagram (AVal D)) (h : Reach d) (hC : d.C = 2) :
    d.modelcount AVal.sub? (D.vecs.map (AVal.clip D)) =
      D.domain.map (fun e => (((allArgs 2 d.units.length).countP (fun as => evalFrom d.levels d.root as = e) : ℕ) : Int)) :=
  C10_modelcount_aval D hd d h.inv.1 hC

/-! ### concrete instances -/

namespace C10ex
abbrev B3 : Dom := .box [3]
def v (n : Nat) : AVal B3 := AVal.clip B3 [n]
/-- units 10, 11; edge `x10 = 1` carries 1, edge `x11 = 1` carries 2 -/
def d0 : Diagram (AVal B3) := ((chain [10, 11] 2).update [(0, 0, 1)] (v 1) true).update [(1, 0, 1)] (v 2) true
/-- units 10, 11; edge `x10 = 0` carries 1, edge `x11 = 1` carries 1 -/
def d1 : Diagram (AVal B3) := ((chain [10, 11] 2).update [(0, 0, 0)] (v 1) true).update [(1, 0, 1)] (v 1) true
/-- a one-variable diagram -/
def d2 : Diagram (AVal B3) := (chain [10] 2).update [(0, 0, 1)] (v 1) true

example : d0.WF ∧ d1.WF ∧ d2.WF := by decide
example : (chain [10, 11] 2 : Diagram (AVal B3)).call [1, 0] = .ok 0 ∧ (chain [10, 11] 2 : Diagram (AVal B3)).WF := by decide
example : d0.call [1, 1] = .ok (v 3) ∧ d0.call [1] = .error Err.valueError ∧ d0.call [1, 2] = .error Err.indexError := by
  decide
example : (d0.restrict 11 1).map (fun d' => (d'.units, [d'.call [1], d'.call [0]])) = .ok ([10], [.ok (v 3), .ok (v 2)]) := by
  decide
example : (d0.restrict 10 1).map (fun d' => (d'.units, [d'.call [1], d'.call [0]])) = .ok ([11], [.ok (v 3), .ok (v 1)]) := by
  decide
example : (d2.restrict 10 1).map (fun _ => ()) = .error Err.indexError := by decide
example : (d0.sum d1).map (fun s => [s.call [0, 0], s.call [1, 0], s.call [1, 1], s.call [0, 1]]) =
    .ok [.ok (v 1), .ok (v 1), .ok none, .ok none] := by decide
example : d0.modelcount AVal.sub? (B3.vecs.map (AVal.clip B3)) = [1, 1, 1, 1, 0] := by decide
example : ((d0.sum d1).map (fun s => s.modelcount AVal.sub? (B3.vecs.map (AVal.clip B3)))) = .ok [0, 2, 0, 0, 2] := by
  decide

example : Reach d0 ∧ Reach d1 ∧ Reach d2 :=
  ⟨.update _ _ _ _ (.update _ _ _ _ (.chain _ _)), .update _ _ _ _ (.update _ _ _ _ (.chain _ _)),
    .update _ _ _ _ (.chain _ _)⟩
example : edge d0.levels 0 0 1 = v 1 ∧ edge d0.levels 1 0 1 = v 2 ∧ edge d0.levels 1 0 0 = 0 ∧
    inRange (chain [10, 11] 2 : Diagram (AVal B3)).levels (0, 0, 1) := by decide
/-- a tree over two units with updated leaves -/
def t0 : Except Err (Diagram (AVal B3)) := (tree [20, 21] 2).map (fun t => t.update [(1, 1, 0)] (v 2) true)
example : t0.map (fun t => (t.units, [t.call [0, 0], t.call [1, 0], t.call [1, 1]])) =
    .ok ([20, 21], [.ok (v 0), .ok (v 2), .ok (v 0)]) ∧ t0.map (·.diameter) = .ok 2 := by decide
example : (stack [5] [d0, d1]).map (fun s => (s.units, [s.call [0, 1, 1], s.call [1, 1, 1], s.call [1, 0, 0]])) =
    .ok ([5, 10, 11], [d0.call [1, 1], d1.call [1, 1], d1.call [0, 0]]) ∧
    (stack [5] [d0, d1]).map (·.diameter) = .ok 2 := by decide
example : bitsVal [1, 0] = 2 ∧ d0.Rect ∧ d1.Rect := by
  refine ⟨by decide, ?_, ?_⟩ <;> exact (C10_history _ (.update _ _ _ _ (.update _ _ _ _ (.chain _ _)))).2
example : (concatenate [d0, d2]).map (fun s => (s.units, [s.call [1, 1, 1], s.call [0, 1, 0]])) =
    .ok ([10, 11, 10], [.ok none, .ok (v 2)]) := by decide
end C10ex
