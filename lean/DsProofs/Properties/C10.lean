import DsProofs.AddProofs
import DsProofs.AValProofs

/-!
# C10 — the decision-diagram algebra agrees with the pointwise semantics

About `datascope/utility/add.py` (`AValue`, `ADD`) and `datascope/importance/oracle.py` (`ATally`);
models: `Ds.AVal` (Ds/AVal.lean) and `Ds.Dd` (Ds/Add.lean).  `evalFrom L r args` is the sum of the edge
values along the path that starts at node `r` of the first level and follows `args`; `Diagram.eval d args`
is `evalFrom d.levels d.root args`.  `wf C L r` says that every node reachable from `r` through candidates
`< C` is active; `Diagram.WF d` adds "one level per unit".

Value domain (`AValue[m₀,…]` = `Dom.box`, `ATally[n,K,c]` = `Dom.tally`; `none` is the invalid value "inf"):
* `C10_aval_monoid`, `C10_aval_monoid_ops`, `C10_aval_laws`: `__add__` with `zero` is a commutative monoid on
  the clipped values of every domain, the invalid value is absorbing; the monoid's `+`/`0` are the model's.
* `C10_add_spec`, `C10_add_none`, `C10_ok_box`, `C10_ok_tally`: `a + b` is the component-wise sum, and it is
  the invalid value exactly when an addend is invalid or the component-wise sum leaves the domain.
* `C10_sub_spec`, `C10_sub_components`, `C10_subq_spec`: for a valid minuend `x`, `x - a = r` (valid `r`) iff
  `a + r = x`; i.e. the component-wise difference, invalid exactly when a component would go negative
  or `a` is invalid.  Needs at least one component (`0 < D.dim`): `AValue[()]` is a counterexample.
* `C10_index_bijective`: `domain()` lists every value exactly once, the valid ones first, the zero
  value first of all and the invalid value last, so `__index__` is a bijection onto `range(domainsize)`.

Diagrams (values in any commutative monoid `V`):
* `C10_call`: `ADD.__call__` returns the path sum (`ValueError` on a wrong number of arguments,
  `IndexError` on a candidate `≥ num_candidates`).
* `C10_restrict_pos`, `C10_restrict_root`, `C10_restrict_single`, `C10_restrict`: `restrict(u, c)` is the
  diagram over the remaining units whose value at `as` is the original value at `as` with `c` inserted at
  `u`'s position — for diagrams with at least two variables; on a one-variable diagram it raises
  `IndexError` (finding F3b).
* `C10_sum`: `a.sum(b)` evaluates to `a(args) + b(args)` and raises whatever `a(args)`/`b(args)` raise.
* `C10_modelcount`, `C10_modelcount_aval`: `modelcount()` lists, for every value of the domain in domain
  order, the number of 0/1 assignments whose path value is that value (last entry: the invalid value).
-/

open Ds Ds.Dd

/-! ## Value domain -/

/-- V1: the commutative monoid of clipped values -/
@[reducible] def C10_aval_monoid (D : Dom) : AddCommMonoid (AVal D) := AVal.instAddCommMonoid D

/-- the monoid's operations are the model's `AVal.add` / `AVal.zero`, and so are the instances the model
itself uses for `+` and `0` -/
theorem C10_aval_monoid_ops (D : Dom) :
    (∀ a b : AVal D, (C10_aval_monoid D).add a b = AVal.add a b) ∧ (C10_aval_monoid D).zero = AVal.zero D ∧
    (C10_aval_monoid D).toAdd = AVal.instAdd ∧ (C10_aval_monoid D).toZero = AVal.instZero :=
  ⟨fun _ _ => rfl, rfl, rfl, rfl⟩

theorem C10_aval_laws {D : Dom} (a b c : AVal D) :
    a + b + c = a + (b + c) ∧ a + b = b + a ∧ 0 + a = a ∧ a + 0 = a ∧ none + a = none ∧ a + none = none :=
  ⟨AVal.add_assoc' a b c, AVal.add_comm' a b, AVal.zero_add' a, AVal.add_zero' a, AVal.none_add a, AVal.add_none a⟩

example : let D : Dom := .tally 2 1 2
    let a : AVal D := AVal.clip D [1, 1, 0, 0, 0]; let b : AVal D := AVal.clip D [1, 0, 0, 0, 1]
    let c : AVal D := AVal.clip D [0, 1, 0, 0, 0]
    a + b = AVal.clip D [2, 1, 0, 0, 1] ∧ b + a = a + b + 0 ∧ a + c = none ∧ (a + b) + c = none ∧ a + (b + c) = none := by
  decide

/-- membership in a box: every component within its bound -/
theorem C10_ok_box (m x : List Nat) : (Dom.box m).ok x = true ↔ List.Forall₂ (· ≤ ·) x m := Dom.ok_box_iff m x

/-- membership in a tally domain -/
theorem C10_ok_tally (n K c : Nat) (x : List Nat) :
    (Dom.tally n K c).ok x = true ↔
      x.length = 1 + 2 * c ∧ x.headD 0 ≤ n ∧ ((x.drop 1).take c).sum ≤ K ∧ ((x.drop (1 + c)).take c).sum ≤ K :=
  Dom.ok_tally_iff n K c x

/-- both kinds of domain contain zero and are downward closed -/
theorem C10_ok_down (D : Dom) :
    D.ok D.zeroVec = true ∧ ∀ x y, D.ok x = true → List.Forall₂ (· ≤ ·) y x → D.ok y = true :=
  ⟨Dom.ok_zeroVec D, fun _ _ h hle => Dom.ok_down h hle⟩

/-- V2: addition is component-wise -/
theorem C10_add_spec {D : Dom} (a b : AVal D) (s : {x : List Nat // D.ok x = true}) :
    a + b = some s ↔
      ∃ x y, a = some x ∧ b = some y ∧ s.1 = List.zipWith (· + ·) x.1 y.1 ∧
        D.ok (List.zipWith (· + ·) x.1 y.1) = true := by
  cases a with
  | none => simp [show (none + b : AVal D) = none from AVal.none_add b]
  | some x =>
    cases b with
    | none => simp [show (some x + none : AVal D) = none from rfl]
    | some y =>
      show AVal.clip D _ = some s ↔ _
      rw [AVal.clip_eq_some_iff]
      constructor
      · intro h; exact ⟨x, y, rfl, rfl, h, h ▸ s.2⟩
      · rintro ⟨x', y', hx, hy, h, _⟩
        cases hx; cases hy; exact h

/-- … and invalid exactly when an addend is invalid or a component leaves its bounds -/
theorem C10_add_none {D : Dom} (a b : AVal D) :
    a + b = none ↔
      a = none ∨ b = none ∨
        ∃ x y, a = some x ∧ b = some y ∧ D.ok (List.zipWith (· + ·) x.1 y.1) = false := by
  cases a with
  | none => simp [show (none + b : AVal D) = none from AVal.none_add b]
  | some x =>
    cases b with
    | none => simp [show (some x + none : AVal D) = none from rfl]
    | some y =>
      show AVal.clip D _ = none ↔ _
      by_cases h : D.ok (List.zipWith (· + ·) x.1 y.1) = true
      · rw [AVal.clip_ok h]; simp [h]
      · rw [AVal.clip_not_ok h]; simpa using h

example : let D : Dom := .box [3, 2]
    (AVal.clip D [1, 1] + AVal.clip D [2, 1] = AVal.clip D [3, 2]) ∧ (AVal.clip D [1, 1] + AVal.clip D [2, 2] = none) ∧
    D.ok (List.zipWith (· + ·) [1, 1] [2, 2]) = false := by decide

/-- V3: subtraction from a valid minuend is the inverse of addition -/
theorem C10_sub_spec {D : Dom} (hd : 0 < D.dim) (x r : {x : List Nat // D.ok x = true}) (a : AVal D) :
    AVal.sub (some x) a = some r ↔ a + some r = some x := AVal.sub_spec hd x r a

/-- component form: the difference is valid iff no component goes negative (and `a` is valid) -/
theorem C10_sub_components {D : Dom} (hd : 0 < D.dim) (x : {x : List Nat // D.ok x = true}) :
    AVal.sub (some x) none = none ∧
    ∀ y r : {x : List Nat // D.ok x = true},
      AVal.sub (some x) (some y) = some r ↔
        List.Forall₂ (· ≤ ·) y.1 x.1 ∧ r.1 = List.zipWith (· - ·) x.1 y.1 := by
  classical
  refine ⟨AVal.sub_some_none hd x, fun y r => ?_⟩
  rw [AVal.sub_some_some]
  by_cases h : VLe y.1 x.1
  · rw [if_pos h, AVal.clip_eq_some_iff]; simp [h]
  · rw [if_neg h]; simp [h]

/-- `sub?` (what `modelcount` uses) is `sub` with the invalid result turned into "no result" -/
theorem C10_subq_spec {D : Dom} (e a r : AVal D) : AVal.sub? e a = some r ↔ r ≠ none ∧ AVal.sub e a = r :=
  AVal.sub?_iff e a r

example : let D : Dom := .tally 2 1 1
    AVal.sub (AVal.clip D [2, 1, 0]) (AVal.clip D [1, 0, 0]) = AVal.clip D [1, 1, 0] ∧
    AVal.clip D [1, 0, 0] + AVal.clip D [1, 1, 0] = AVal.clip D [2, 1, 0] ∧
    AVal.sub (AVal.clip D [2, 1, 0]) (AVal.clip D [0, 0, 1]) = none ∧
    AVal.sub (AVal.clip D [2, 1, 0]) none = none := by decide

/-- the hypothesis `0 < D.dim` cannot be dropped: in the empty box the invalid value can be subtracted -/
example : AVal.sub (AVal.clip (.box []) []) none = AVal.clip (.box []) [] := by decide

/-- V4: the enumerated domain and `__index__` -/
theorem C10_index_bijective (D : Dom) :
    D.domain.Nodup ∧ (∀ v : AVal D, v ∈ D.domain) ∧
    (∀ v w : AVal D, D.index v = D.index w ↔ v = w) ∧
    (∀ v : AVal D, ∃ h : D.index v < D.domain.length, D.domain[D.index v] = v) ∧
    (∀ i (h : i < D.domain.length), D.index D.domain[i] = i) ∧
    D.index (0 : AVal D) = 0 ∧ D.index (none : AVal D) = D.domain.length - 1 :=
  ⟨Dom.nodup_domain D, Dom.mem_domain, Dom.index_inj, fun v => ⟨Dom.index_lt v, Dom.domain_index v⟩,
    Dom.index_domain, Dom.index_zero D, Dom.index_none D⟩

example : let D : Dom := .tally 1 1 2
    D.domain.length = 19 ∧ D.index (AVal.clip D [1, 0, 1, 1, 0]) = 14 ∧ D.index (none : AVal D) = 18 := by decide

/-! ## Diagrams -/

section
variable {V : Type} [AddCommMonoid V]

/-- D1: `__call__` -/
theorem C10_call (d : Diagram V) (args : List ℕ) :
    (args.length = d.units.length → (∀ a ∈ args, a < d.C) → d.call args = .ok (evalFrom d.levels d.root args)) ∧
    (args.length ≠ d.units.length → d.call args = .error Err.valueError) ∧
    (args.length = d.units.length → (∃ a ∈ args, d.C ≤ a) → d.call args = .error Err.indexError) := by
  rw [call_eq]
  refine ⟨fun h1 h2 => ?_, fun h1 => ?_, fun h1 h2 => ?_⟩
  · rw [if_neg (not_not.mpr h1), if_neg]; rfl
    rintro ⟨a, ha, h⟩; exact absurd (h2 a ha) (Nat.not_lt.mpr h)
  · rw [if_pos h1]
  · rw [if_neg (not_not.mpr h1), if_pos h2]

/-- D2: restrict of a unit that is not the first one -/
theorem C10_restrict_pos (C k value : ℕ) (L : List (Level V)) (j : ℕ) (as : List ℕ)
    (hv : value < C) (hk : k + 1 < L.length) (hlen : as.length + 1 = L.length) (hC : ∀ a ∈ as, a < C)
    (hw : wf C L j) :
    evalFrom (restrictPos C k value L) j as = evalFrom L j (as.insertIdx (k + 1) value) ∧
    wf C (restrictPos C k value L) j :=
  ⟨eval_restrictPos C k value L j as hk hlen hC hw, wf_restrictPos C k value L j hv hw⟩

/-- D2': restrict of the first unit of a diagram with at least two levels -/
theorem C10_restrict_root (C root value : ℕ) (lv next : Level V) (rest : List (Level V))
    (hv : value < C) (hw : wf C (lv :: next :: rest) root) :
    ∃ r' L', restrictRoot C root value (lv :: next :: rest) = .ok (r', L') ∧ wf C L' r' ∧
      ∀ b as, b < C → evalFrom L' r' (b :: as) = evalFrom (lv :: next :: rest) root (value :: b :: as) :=
  ⟨_, _, restrictRoot_ok C root value lv next rest hv hw, wf_restrictRoot C root value lv next rest hv hw _,
    fun b as hb => eval_restrictRoot C root value lv next rest hv hw b as hb⟩

/-- D2'': finding F3b — restricting the variable of a one-variable diagram raises `IndexError` -/
theorem C10_restrict_single (d : Diagram V) (u c : ℕ) (h1 : d.units = [u]) (hlen : d.levels.length = 1)
    (hc : c < d.C) : d.restrict u c = .error Err.indexError :=
  restrict_single d u c (by omega) (by simp [h1]) (by simp [h1]) hc

/-- D2: `restrict`, for a well-formed diagram with at least two variables -/
theorem C10_restrict (d d' : Diagram V) (u c : ℕ) (hwf : d.WF) (h2 : 2 ≤ d.units.length)
    (h : d.restrict u c = .ok d') :
    d'.WF ∧ d'.units = d.units.eraseIdx (d.units.idxOf u) ∧
    ∀ as, d'.call as = d.call (as.insertIdx (d.units.idxOf u) c) :=
  ⟨(restrict_spec d d' u c hwf h2 h).2.2.1, (restrict_spec d d' u c hwf h2 h).2.2.2.1,
    restrict_call d d' u c hwf h2 h⟩

/-- … and under these hypotheses `restrict` does succeed for every unit of the diagram and candidate `< C` -/
theorem C10_restrict_ok (d : Diagram V) (u c : ℕ) (hwf : d.WF) (h2 : 2 ≤ d.units.length)
    (hu : u ∈ d.units) (hc : c < d.C) : ∃ d', d.restrict u c = .ok d' := restrict_ok d u c hwf h2 hu hc

/-- D3: `sum` is the pointwise sum (errors of the operands' calls are propagated) -/
theorem C10_sum (a b s : Diagram V) (ha : a.WF) (hb : b.WF) (h : a.sum b = .ok s) :
    s.WF ∧ s.units = a.units ∧
    ∀ as, s.call as = (do let x ← a.call as; let y ← b.call as; pure (x + y)) :=
  ⟨(sum_spec a b s ha hb h).2.2.1, (sum_spec a b s ha hb h).2.2.2.1, sum_call a b s ha hb h⟩

/-- D4: the `modelcount` recurrence counts the argument tuples by path value -/
theorem C10_modelcount [DecidableEq V] (C : ℕ) (sub? : V → V → Option V) (valid : V → Prop)
    (H : ∀ e a r, valid e → (sub? e a = some r ↔ a + r = e))
    (Hv : ∀ e a r, valid e → a + r = e → valid r)
    (L : List (Level V)) (j : ℕ) (e : V) (he : valid e) (hw : wf C L j) :
    mc C sub? L j e = ((allArgs C L.length).countP (fun as => evalFrom L j as = e)) :=
  mc_eq_countSpec C sub? valid H Hv L j e he hw

end

/-- D4 for the clipped values: `modelcount()` is the histogram of the diagram over all 0/1 assignments,
in domain order, the invalid value last -/
theorem C10_modelcount_aval (D : Dom) (hd : 0 < D.dim) (d : Diagram (AVal D)) (hw : d.WF) (hC : d.C = 2) :
    d.modelcount AVal.sub? (D.vecs.map (AVal.clip D)) =
      D.domain.map (fun e => (((allArgs 2 d.units.length).countP (fun as => evalFrom d.levels d.root as = e) : ℕ) : Int)) := by
  have h := modelcount_complete d hw AVal.sub? (· ≠ none)
    (fun e a r he => AVal.sub?_law hd e a r he) (fun e a r he h => AVal.add_valid a r e he h)
    (D.vecs.map (AVal.clip D))
    (fun e he hn => Dom.none_notMem D (hn ▸ he)) none (Dom.nodup_domain D) Dom.mem_domain hC
  rw [h, ← hw.len]; rfl

/-! ### concrete instances -/

namespace C10ex
abbrev B3 : Dom := .box [3]
def v (n : Nat) : AVal B3 := AVal.clip B3 [n]
/-- units 10, 11; edge `x10 = 1` carries 1, edge `x11 = 1` carries 2 -/
def d0 : Diagram (AVal B3) := ((chain [10, 11] 2).update [(0, 0, 1)] (v 1) true).update [(1, 0, 1)] (v 2) true
/-- units 10, 11; edge `x10 = 0` carries 1, edge `x11 = 1` carries 1 -/
def d1 : Diagram (AVal B3) := ((chain [10, 11] 2).update [(0, 0, 0)] (v 1) true).update [(1, 0, 1)] (v 1) true
/-- a one-variable diagram -/
def d2 : Diagram (AVal B3) := (chain [10] 2).update [(0, 0, 1)] (v 1) true

example : d0.WF ∧ d1.WF ∧ d2.WF := by decide
example : d0.call [1, 1] = .ok (v 3) ∧ d0.call [1] = .error Err.valueError ∧ d0.call [1, 2] = .error Err.indexError := by
  decide
example : (d0.restrict 11 1).map (fun d' => (d'.units, [d'.call [1], d'.call [0]])) = .ok ([10], [.ok (v 3), .ok (v 2)]) := by
  decide
example : (d0.restrict 10 1).map (fun d' => (d'.units, [d'.call [1], d'.call [0]])) = .ok ([11], [.ok (v 3), .ok (v 1)]) := by
  decide
example : (d2.restrict 10 1).map (fun _ => ()) = .error Err.indexError := by decide
example : (d0.sum d1).map (fun s => [s.call [0, 0], s.call [1, 0], s.call [1, 1], s.call [0, 1]]) =
    .ok [.ok (v 1), .ok (v 1), .ok none, .ok none] := by decide
example : d0.modelcount AVal.sub? (B3.vecs.map (AVal.clip B3)) = [1, 1, 1, 1, 0] := by decide
example : ((d0.sum d1).map (fun s => s.modelcount AVal.sub? (B3.vecs.map (AVal.clip B3)))) = .ok [0, 2, 0, 0, 2] := by
  decide
end C10ex
