import DsProofs.ScoreProofs
import DsProofs.Properties.C01Rows

/-!
# C02 (pipeline level) — the neighbor scores of `_shapley_neighbor` for `K ≥ 1` / join provenance

`Properties/C02.lean` and `Properties/C02Oracle.lean` show that `shapley.py:compute_shapley_add` (model
`Ds.Oracle.scores`) returns the Shapley values of the mean K-NN game.  This file connects that to the
function the user calls, `shapley.py:_shapley_neighbor` (model `Ds.Neighbor.score`): label encoding with
`np.unique(y_train)` / `LabelEncoder` (`Util.unique`, `Util.encode`), the element-wise utility tables
(`utilMatrices`), the batch loop, the dispatch `K == 1 and provenance.max_conj == 1` between
`compute_shapley_1nn_mapfork` and `compute_shapley_add`, and the accumulation
`acc += cur * n_batch / n_test`.  Throughout: `yTrain`, `yTest` are the integer labels, `dist[r][j]` is the
distance of training row `r` to validation point `j` (what the distance callable returned for the whole
validation set), `classes = Util.unique yTrain`, the label codes are `yTr = yTrain.map classes.idxOf`
(position in `np.unique(y_train)`), `nTest = yTest.length`, `Ds.Neighbor.column m j 0` is column `j` of a
table `m`.

* S1 `C02_score_reduce`: if the dispatch condition `K = 1 ∧ nConj = 1` is FALSE, the provenance has at
  most one disjunct, the validation set is non-empty and every validation label occurs among the training
  labels, then `_shapley_neighbor` is exactly ONE call of `compute_shapley_add` on the label codes, the
  distance matrix, the utility table and the null vector (each cut to `n_test` columns), with
  `n_classes = len(np.unique(y_train))` — the batching never splits (C07) — and each entry `cur` of its
  result is stored as `0 + cur * n_test / n_test`.  `C02_score_ok`: if that call returns a vector with one
  entry per unit, `_shapley_neighbor` returns it unchanged.
* S2 `C02_score_shapley`: if moreover the provenance is conjunctive over binary candidates with at least
  two units, `compile` succeeds on it (and, when `max_conj = 1`, every row names exactly one unit), the
  null vector has at least `n_test` entries, `K ≥ 1`, and for each validation point `j` `orders j` is a
  permutation of the rows that STRICTLY sorts column `j` of `dist` (distances pairwise distinct), then
  `_shapley_neighbor` returns (without raising) a vector with one entry per unit whose entry `i` is the
  Shapley value (marginal form `Sh.phiM`) of unit `i` in the MEAN over the validation points of the
  by-definition K-NN games `AddPath.knnGame` built from the label codes, column `j` of the utility table
  and `nulls[j]`.  The hypothesis "label codes `< n_classes`" of `C02_exact` is not assumed: it is derived
  from the encoding (`C02_codes_lt`).
* S3 `C02_score_accuracy`: the same for `u = accuracy`: the utility column of point `j` is
  `[classes[k] == y_test[j]]` over the sorted distinct training labels, the null entry is that of
  `SklearnModelAccuracy.elementwise_null_score` (`Util.accNullElem`, on the codes).
* S4 `C02_dispatch_consistent`: for `K = 1` and a provenance with one row per unit in unit order (row `r`
  depends on unit `r` only), the game of S2 for validation point `j` IS the 1-NN game
  `Ds.Kernel.nnGameU` that the kernel branch of the dispatch evaluates for the same order (C01): the two
  branches are Shapley values of the same game.  `C02_dispatch_shapley` is the same for the mean games and
  their Shapley values, and `C02_score_shapley_k1` closes the loop: on the default-provenance (`simple`)
  path of the KERNEL branch (`K = 1`, `max_conj = 1`) the vector returned by `_shapley_neighbor` satisfies
  the formula of S2 verbatim (with `K = 1` and the sort orders the kernel used), so that formula describes
  the output of `_shapley_neighbor` whichever branch the dispatch takes.
-/

open Finset Ds Ds.Oracle Ds.Neighbor AddPath

namespace DsProofs.C02

/-! ### S1 -/

/-- **S1.** `_shapley_neighbor` on the ADD branch of the dispatch = one call of `compute_shapley_add`
on the encoded labels and the tables cut to `n_test` columns; the result `cur` is then stored as
`0 + cur * n_test / n_test`. -/
theorem C02_score_reduce (B : ℕ) (p : Prov.P) (simple : Bool) (yTrain yTest : List Int) (dist : List (List ℚ))
    (K : ℕ) (u : UtilSpec) (ordersOpt : Option (List (List ℕ))) (util : List (List ℚ)) (nulls : List ℚ)
    (hD : p.nDisj ≤ 1) (hK1 : ¬ (K = 1 ∧ p.nConj = 1)) (hT : 0 < yTest.length) (hte : ∀ y ∈ yTest, y ∈ yTrain)
    (hU : utilMatrices u (Util.unique yTrain).length (yTest.map (Util.unique yTrain).idxOf) = .ok (util, nulls)) :
    score B p simple yTrain yTest dist K u ordersOpt
      = (Oracle.scores p (yTrain.map (Util.unique yTrain).idxOf) (dist.map (fun row => row.take yTest.length))
            (util.map (fun row => row.take yTest.length)) (nulls.take yTest.length) K (Util.unique yTrain).length).map
          (fun cur => List.zipWith (fun a c => a + c * ((yTest.length : ℕ) : ℚ) / ((yTest.length : ℕ) : ℚ))
            (List.replicate p.nUnits 0) cur) := by
  have := score_knn B p simple yTrain yTest dist K u ordersOpt _ _ util nulls hD hK1 hT
    (encode_train yTrain) (encode_test yTrain yTest hte) hU
  simpa only [List.drop_zero] using this

/-- … and if that call returns a vector with one entry per unit, it is returned unchanged. -/
theorem C02_score_ok (B : ℕ) (p : Prov.P) (simple : Bool) (yTrain yTest : List Int) (dist : List (List ℚ))
    (K : ℕ) (u : UtilSpec) (ordersOpt : Option (List (List ℕ))) (util : List (List ℚ)) (nulls : List ℚ)
    (hD : p.nDisj ≤ 1) (hK1 : ¬ (K = 1 ∧ p.nConj = 1)) (hT : 0 < yTest.length) (hte : ∀ y ∈ yTest, y ∈ yTrain)
    (hU : utilMatrices u (Util.unique yTrain).length (yTest.map (Util.unique yTrain).idxOf) = .ok (util, nulls))
    (L : List ℚ) (hL : L.length = p.nUnits)
    (hs : Oracle.scores p (yTrain.map (Util.unique yTrain).idxOf) (dist.map (fun row => row.take yTest.length))
            (util.map (fun row => row.take yTest.length)) (nulls.take yTest.length) K (Util.unique yTrain).length
          = .ok L) :
    score B p simple yTrain yTest dist K u ordersOpt = .ok L := by
  rw [C02_score_reduce B p simple yTrain yTest dist K u ordersOpt util nulls hD hK1 hT hte hU, hs]
  simp only [Except.map]
  rw [zipWith_zero_add L p.nUnits yTest.length hT hL]

/-! Instance used below (`exU`, `exUnique` in `DsProofs/ScoreProofs.lean`): labels `9, 7, 9` → classes
`[7, 9]`, codes `1, 0, 1`; one validation point with label `9` (code `1`); the accuracy tables are `[[0], [1]]`
(class × point) and `[0]`. -/

/-- `exP3` (three rows, row `r` depends on unit `r`), `K = 2`: the dispatch takes the ADD branch, and
`_shapley_neighbor` is the single call of `compute_shapley_add` on the codes `[1, 0, 1]` -/
example : score 1024 exP3 false [9, 7, 9] [9] [[1], [2], [3]] 2 .accuracy none
    = (Oracle.scores exP3 (([9, 7, 9] : List Int).map (Util.unique [9, 7, 9]).idxOf)
          (([[1], [2], [3]] : List (List ℚ)).map (fun row => row.take 1))
          (([[0], [1]] : List (List ℚ)).map (fun row => row.take 1)) (([0] : List ℚ).take 1) 2
          (Util.unique [9, 7, 9]).length).map
        (fun cur => List.zipWith (fun a c => a + c * ((1 : ℕ) : ℚ) / ((1 : ℕ) : ℚ)) (List.replicate 3 0) cur) :=
  C02_score_reduce 1024 exP3 false [9, 7, 9] [9] [[1], [2], [3]] 2 .accuracy none [[0], [1]] [0]
    (by decide) (by decide) (by decide) (by decide) exU

/-- … and the numbers: `_shapley_neighbor` returns `[1/6, -1/3, 1/6]` -/
example : score 1024 exP3 false [9, 7, 9] [9] [[1], [2], [3]] 2 .accuracy none = .ok [1/6, -1/3, 1/6] := by
  apply C02_score_ok 1024 exP3 false [9, 7, 9] [9] [[1], [2], [3]] 2 .accuracy none [[0], [1]] [0]
    (by decide) (by decide) (by decide) (by decide) exU _ rfl
  rw [exUnique]
  decide +kernel

/-! ### S2 -/

/-- the label codes are positions in `np.unique(y_train)`, hence smaller than the number of classes
(also beyond the end of the list, where `getD` reads `0`, as soon as there is a training label) -/
theorem C02_codes_lt (yTrain : List Int) (hne : yTrain ≠ []) (r : ℕ) :
    (yTrain.map (Util.unique yTrain).idxOf).getD r 0 < (Util.unique yTrain).length :=
  encoded_lt yTrain hne r

example : ([9, 7, 9] : List Int).map (Util.unique [9, 7, 9]).idxOf = [1, 0, 1] ∧ (Util.unique [9, 7, 9]).length = 2 := by
  rw [exUnique]; decide

/-- **S2.** The K-NN (`K ≥ 1`) / join-provenance neighbor scores of the whole `_shapley_neighbor` pipeline
are the Shapley values of the mean K-NN game. -/
theorem C02_score_shapley (B : ℕ) (p : Prov.P) (simple : Bool) (yTrain yTest : List Int) (dist : List (List ℚ))
    (K : ℕ) (u : UtilSpec) (ordersOpt : Option (List (List ℕ))) (util : List (List ℚ)) (nulls : List ℚ)
    (orders : ℕ → List ℕ)
    (hK1 : ¬ (K = 1 ∧ p.nConj = 1)) (hK : 1 ≤ K) (hT : 0 < yTest.length) (hte : ∀ y ∈ yTest, y ∈ yTrain)
    (hU : utilMatrices u (Util.unique yTrain).length (yTest.map (Util.unique yTrain).idxOf) = .ok (util, nulls))
    (hN : yTest.length ≤ nulls.length)
    (hconj : Ds.Oracle.Conjunctive p) (hcands : p.nCands = 2) (hn : 2 ≤ p.nUnits)
    (hshape : p.nConj = 1 → OneUnit p)
    (cmp : Compiled (AVal (Dom.tally (p.nUnits - 1) K (Util.unique yTrain).length))) (hcmp : compile p = .ok cmp)
    (hperm : ∀ j < yTest.length, (orders j).Perm (List.range p.data.length))
    (hsort : ∀ j < yTest.length,
      (orders j).Pairwise (fun r s => (column dist j 0).getD r 0 < (column dist j 0).getD s 0)) :
    ∃ L : List ℚ, score B p simple yTrain yTest dist K u ordersOpt = .ok L ∧ L.length = p.nUnits ∧
      ∀ i : Fin p.nUnits, L.getD i.val 0
        = Sh.phiM (fun S => (∑ j ∈ Finset.range yTest.length,
            knnGame p (yTrain.map (Util.unique yTrain).idxOf) (orders j) (column util j 0) (nulls.getD j 0)
              K (Util.unique yTrain).length S) / (yTest.length : ℚ)) i := by
  have hne := train_ne_nil yTrain yTest hT hte
  have hlab : ∀ r < p.data.length,
      (yTrain.map (Util.unique yTrain).idxOf).getD r 0 < (Util.unique yTrain).length :=
    fun r _ => C02_codes_lt yTrain hne r
  have key := scores_sliced p (yTrain.map (Util.unique yTrain).idxOf) dist util nulls K
    (Util.unique yTrain).length yTest.length orders hK hN hconj hcands hn hshape cmp hcmp
  obtain ⟨L, h1, h2, h3⟩ := key hperm hsort hlab
  have hD : p.nDisj ≤ 1 := by rw [hconj.1]
  exact ⟨L, C02_score_ok B p simple yTrain yTest dist K u ordersOpt util nulls hD hK1 hT hte hU L h2 h1, h2, h3⟩

/-- all hypotheses of S2 hold for `exP3`, labels `9, 7, 9`, distances `1, 2, 3` (sorted order `[0, 1, 2]`),
one validation point with label `9`, `K = 2`, accuracy; so the theorem applies: -/
example : ∃ L : List ℚ, score 1024 exP3 false [9, 7, 9] [9] [[1], [2], [3]] 2 .accuracy none = .ok L ∧ L.length = 3 ∧
    ∀ i : Fin 3, L.getD i.val 0
      = Sh.phiM (fun S => (∑ j ∈ Finset.range 1,
          knnGame exP3 (([9, 7, 9] : List Int).map (Util.unique [9, 7, 9]).idxOf) [0, 1, 2]
            (column ([[0], [1]] : List (List ℚ)) j 0) (([0] : List ℚ).getD j 0) 2 (Util.unique [9, 7, 9]).length S)
            / ((1 : ℕ) : ℚ)) i := by
  have hj : ∀ j < ([9] : List Int).length, j = 0 := by intro j hj; simpa using hj
  have key := C02_score_shapley 1024 exP3 false [9, 7, 9] [9] [[1], [2], [3]] 2 .accuracy none [[0], [1]] [0]
    (fun _ => [0, 1, 2]) (by decide) (by decide) (by decide) (by decide) exU (by decide) (by decide) (by decide)
    (by decide) (by decide) _ (compile_chain exP3 (by decide) rfl)
  apply key
  · intro j _; decide
  · intro j h; rw [hj j h]; decide +kernel

/-- … and the numbers: the Shapley values of that 2-NN game (codes `[1, 0, 1]`, utility column `[0, 1]`,
null `0`) are `[1/6, -1/3, 1/6]`, the vector `_shapley_neighbor` returns (see the example after S1) -/
example : Sh.phiM (knnGame exP3 [1, 0, 1] [0, 1, 2] [0, 1] 0 2 2) (0 : Fin 3) = 1/6
    ∧ Sh.phiM (knnGame exP3 [1, 0, 1] [0, 1, 2] [0, 1] 0 2 2) (1 : Fin 3) = -1/3
    ∧ Sh.phiM (knnGame exP3 [1, 0, 1] [0, 1, 2] [0, 1] 0 2 2) (2 : Fin 3) = 1/6 := by decide +kernel

/-- a JOIN provenance (`C09ex.p3`: three units, row 0 = `x0 ∧ x1`, row 1 = `x1 ∧ x2`, `max_conj = 2`), labels
`9, 7` (codes `1, 0`), distances `1, 2`, one validation point with label `9`, `K = 1`: the dispatch takes the
ADD branch although `K = 1`, `compile` returns `C09ex.cmp3` (`C09ex.compile_p3`), all hypotheses of S2 hold,
and the scores are the Shapley values `[1/2, 1/2, 0]` of the game "row 0 is present" -/
example : ∃ L : List ℚ, score 1024 C09ex.p3 false [9, 7] [9] [[1], [2]] 1 .accuracy none = .ok L ∧ L.length = 3 ∧
    L.getD 0 0 = 1/2 ∧ L.getD 1 0 = 1/2 ∧ L.getD 2 0 = 0 := by
  have hu : Util.unique [9, 7] = [7, 9] := by
    simp [Util.unique, List.mergeSort, List.MergeSort.Internal.splitInTwo, List.eraseDups_cons]
  have hU : utilMatrices .accuracy (Util.unique [9, 7]).length (([9] : List Int).map (Util.unique [9, 7]).idxOf)
      = .ok ([[0], [1]], [0]) := by
    rw [hu]
    simp [utilMatrices, Util.accElem, Util.accNullElem, Util.ind, Util.mean, pure, Except.pure, List.range_succ]
    norm_num
  have hc : ∃ cmp : Compiled (AVal (Dom.tally (C09ex.p3.nUnits - 1) 1 (Util.unique [9, 7]).length)),
      compile C09ex.p3 = .ok cmp := by
    rw [hu]; exact ⟨C09ex.cmp3, C09ex.compile_p3⟩
  obtain ⟨cmp, hcmp⟩ := hc
  have hj : ∀ j < ([9] : List Int).length, j = 0 := by intro j hj; simpa using hj
  have key := C02_score_shapley 1024 C09ex.p3 false [9, 7] [9] [[1], [2]] 1 .accuracy none [[0], [1]] [0]
    (fun _ => [0, 1]) (by decide) (by decide) (by decide) (by decide) hU (by decide) (by decide) (by decide)
    (by decide) (by decide) cmp hcmp
  obtain ⟨L, h1, h2, h3⟩ := key (by intro j _; decide) (by intro j h; rw [hj j h]; decide +kernel)
  refine ⟨L, h1, h2, ?_, ?_, ?_⟩
  · refine (h3 (0 : Fin 3)).trans ?_; rw [hu]; decide +kernel
  · refine (h3 (1 : Fin 3)).trans ?_; rw [hu]; decide +kernel
  · refine (h3 (2 : Fin 3)).trans ?_; rw [hu]; decide +kernel

/-! ### S3 -/

/-- **S3.** Accuracy utility: the utility column of validation point `j` is `[classes[k] == y_test[j]]`
(`k` ranging over the sorted distinct training labels), its null entry that of `elementwise_null_score`. -/
theorem C02_score_accuracy (B : ℕ) (p : Prov.P) (simple : Bool) (yTrain yTest : List Int) (dist : List (List ℚ))
    (K : ℕ) (ordersOpt : Option (List (List ℕ))) (orders : ℕ → List ℕ)
    (hK1 : ¬ (K = 1 ∧ p.nConj = 1)) (hK : 1 ≤ K) (hT : 0 < yTest.length) (hte : ∀ y ∈ yTest, y ∈ yTrain)
    (hconj : Ds.Oracle.Conjunctive p) (hcands : p.nCands = 2) (hn : 2 ≤ p.nUnits)
    (hshape : p.nConj = 1 → OneUnit p)
    (cmp : Compiled (AVal (Dom.tally (p.nUnits - 1) K (Util.unique yTrain).length))) (hcmp : compile p = .ok cmp)
    (hperm : ∀ j < yTest.length, (orders j).Perm (List.range p.data.length))
    (hsort : ∀ j < yTest.length,
      (orders j).Pairwise (fun r s => (column dist j 0).getD r 0 < (column dist j 0).getD s 0)) :
    ∃ L : List ℚ, score B p simple yTrain yTest dist K .accuracy ordersOpt = .ok L ∧ L.length = p.nUnits ∧
      ∀ i : Fin p.nUnits, L.getD i.val 0
        = Sh.phiM (fun S => (∑ j ∈ Finset.range yTest.length,
            knnGame p (yTrain.map (Util.unique yTrain).idxOf) (orders j)
              ((Util.unique yTrain).map (fun cl => Util.ind (cl == yTest.getD j 0)))
              ((Util.accNullElem ((List.range (Util.unique yTrain).length).map Int.ofNat)
                  ((yTest.map (Util.unique yTrain).idxOf).map Int.ofNat)).getD j 0)
              K (Util.unique yTrain).length S) / (yTest.length : ℚ)) i := by
  have hU := utilMatrices_accuracy (Util.unique yTrain).length (yTest.map (Util.unique yTrain).idxOf)
  have hcol : ∀ j < yTest.length,
      column (Util.accElem ((List.range (Util.unique yTrain).length).map Int.ofNat)
        ((yTest.map (Util.unique yTrain).idxOf).map Int.ofNat)) j 0
      = (Util.unique yTrain).map (fun cl => Util.ind (cl == yTest.getD j 0)) :=
    fun j hj => acc_column yTrain yTest j hj hte
  generalize Util.accElem ((List.range (Util.unique yTrain).length).map Int.ofNat)
      ((yTest.map (Util.unique yTrain).idxOf).map Int.ofNat) = util at hU hcol
  generalize hnu : Util.accNullElem ((List.range (Util.unique yTrain).length).map Int.ofNat)
      ((yTest.map (Util.unique yTrain).idxOf).map Int.ofNat) = nulls at hU
  have hN : yTest.length ≤ nulls.length := by
    rw [← hnu, accNullElem_length]; simp
  have key := C02_score_shapley B p simple yTrain yTest dist K .accuracy ordersOpt util nulls orders
    hK1 hK hT hte hU hN hconj hcands hn hshape cmp hcmp
  obtain ⟨L, h1, h2, h3⟩ := key hperm hsort
  refine ⟨L, h1, h2, ?_⟩
  intro i
  rw [h3 i]
  congr 1
  funext S
  congr 1
  apply Finset.sum_congr rfl
  intro j hj
  rw [hcol j (Finset.mem_range.mp hj)]

/-- S3 on the same instance: the utility column of the single validation point (label `9`) over the classes
`[7, 9]` is `[7 == 9, 9 == 9] = [0, 1]` -/
example : ∃ L : List ℚ, score 1024 exP3 false [9, 7, 9] [9] [[1], [2], [3]] 2 .accuracy none = .ok L ∧ L.length = 3 ∧
    ∀ i : Fin 3, L.getD i.val 0
      = Sh.phiM (fun S => (∑ j ∈ Finset.range 1,
          knnGame exP3 (([9, 7, 9] : List Int).map (Util.unique [9, 7, 9]).idxOf) [0, 1, 2]
            ((Util.unique [9, 7, 9]).map (fun cl => Util.ind (cl == ([9] : List Int).getD j 0)))
            ((Util.accNullElem ((List.range (Util.unique [9, 7, 9]).length).map Int.ofNat)
                ((([9] : List Int).map (Util.unique [9, 7, 9]).idxOf).map Int.ofNat)).getD j 0)
            2 (Util.unique [9, 7, 9]).length S) / ((1 : ℕ) : ℚ)) i := by
  have hj : ∀ j < ([9] : List Int).length, j = 0 := by intro j hj; simpa using hj
  have key := C02_score_accuracy 1024 exP3 false [9, 7, 9] [9] [[1], [2], [3]] 2 none
    (fun _ => [0, 1, 2]) (by decide) (by decide) (by decide) (by decide) (by decide) (by decide)
    (by decide) (by decide) _ (compile_chain exP3 (by decide) rfl)
  apply key
  · intro j _; decide
  · intro j h; rw [hj j h]; decide +kernel

example : (Util.unique [9, 7, 9]).map (fun cl => Util.ind (cl == ([9] : List Int).getD 0 0)) = [0, 1] := by
  rw [exUnique]; decide +kernel

/-! ### S4 -/

/-- **S4.** `K = 1`, one row per unit in unit order: the K-NN game of S2 for a validation point is the 1-NN
game of the kernel branch (`Ds.Kernel.nnGameU`, property C01) for the same order — whichever branch the
dispatch takes, it computes Shapley values of the same game.  (`util`, `nulls` are the tables of any
utility with at least one row per class; `j` is the validation point.) -/
theorem C02_dispatch_consistent (p : Prov.P) (yTrain : List Int) (util : List (List ℚ)) (nulls : List ℚ)
    (order : List ℕ) (j : ℕ) (hne : yTrain ≠ [])
    (hrows : p.data.length = p.nUnits) (hrow : ∀ r < p.nUnits, rowUnits (p.data.getD r []) = [r])
    (hperm : order.Perm (List.range p.nUnits))
    (hutil : (Util.unique yTrain).length ≤ util.length) :
    knnGame p (yTrain.map (Util.unique yTrain).idxOf) order (column util j 0) (nulls.getD j 0) 1
        (Util.unique yTrain).length
      = Ds.Kernel.nnGameU p.nUnits order (yTrain.map (Util.unique yTrain).idxOf) (column util j 0)
          (nulls.getD j 0) :=
  C02_knn1 p (yTrain.map (Util.unique yTrain).idxOf) order (column util j 0) (nulls.getD j 0)
    (Util.unique yTrain).length hrows hrow hperm (fun r _ => C02_codes_lt yTrain hne r)
    (by simpa [column] using hutil)

/-- … hence the mean games coincide, and so do their Shapley values (marginal form on the ADD side,
coefficient form `Sh.phi` on the kernel side, as in C01). -/
theorem C02_dispatch_shapley (p : Prov.P) (yTrain : List Int) (util : List (List ℚ)) (nulls : List ℚ)
    (orders : ℕ → List ℕ) (nTest : ℕ) (hne : yTrain ≠ [])
    (hrows : p.data.length = p.nUnits) (hrow : ∀ r < p.nUnits, rowUnits (p.data.getD r []) = [r])
    (hperm : ∀ j < nTest, (orders j).Perm (List.range p.nUnits))
    (hutil : (Util.unique yTrain).length ≤ util.length) (i : Fin p.nUnits) :
    Sh.phiM (fun S => (∑ j ∈ Finset.range nTest,
        knnGame p (yTrain.map (Util.unique yTrain).idxOf) (orders j) (column util j 0) (nulls.getD j 0) 1
          (Util.unique yTrain).length S) / (nTest : ℚ)) i
      = Sh.phi (fun S => (∑ j ∈ Finset.range nTest,
        Ds.Kernel.nnGameU p.nUnits (orders j) (yTrain.map (Util.unique yTrain).idxOf) (column util j 0)
          (nulls.getD j 0) S) / (nTest : ℚ)) i := by
  rw [Sh.phiM_eq_phi]
  congr 1
  funext S
  congr 1
  apply Finset.sum_congr rfl
  intro j hj
  rw [C02_dispatch_consistent p yTrain util nulls (orders j) j hne hrows hrow
    (hperm j (Finset.mem_range.mp hj)) hutil]

example (i : Fin 3) :
    Sh.phiM (fun S => (∑ j ∈ Finset.range 1,
        knnGame exP3 (([9, 7, 9] : List Int).map (Util.unique [9, 7, 9]).idxOf) [0, 1, 2]
          (column ([[0], [1]] : List (List ℚ)) j 0) (([0] : List ℚ).getD j 0) 1 (Util.unique [9, 7, 9]).length S)
          / ((1 : ℕ) : ℚ)) i
      = Sh.phi (fun S => (∑ j ∈ Finset.range 1,
        Ds.Kernel.nnGameU 3 [0, 1, 2] (([9, 7, 9] : List Int).map (Util.unique [9, 7, 9]).idxOf)
          (column ([[0], [1]] : List (List ℚ)) j 0) (([0] : List ℚ).getD j 0) S) / ((1 : ℕ) : ℚ)) i :=
  C02_dispatch_shapley exP3 [9, 7, 9] [[0], [1]] [0] (fun _ => [0, 1, 2]) 1 (by decide) (by decide) (by decide)
    (by intro j _; decide) (by rw [exUnique]; decide) i

/-- **S4, closing the loop.** The KERNEL branch of the dispatch (`K = 1`, `max_conj = 1`) on the
default-provenance (`simple`) path, for a provenance with one row per unit in unit order: the vector
`_shapley_neighbor` returns satisfies the formula of S2 verbatim, with `K = 1` and, as `orders j`, the sort
order the kernel used for validation point `j` (the supplied one if it weakly sorts the distances, the
model's stable `argsort` when none is supplied).  Ties among the distances are allowed here. -/
theorem C02_score_shapley_k1 (B : ℕ) (p : Prov.P) (yTrain yTest : List Int) (dist : List (List ℚ))
    (u : UtilSpec) (ordersOpt : Option (List (List ℕ))) (util : List (List ℚ)) (nulls : List ℚ)
    (hD : p.nDisj = 1) (hC : p.nConj = 1) (hT : 0 < yTest.length) (hte : ∀ y ∈ yTest, y ∈ yTrain)
    (hU : utilMatrices u (Util.unique yTrain).length (yTest.map (Util.unique yTrain).idxOf) = .ok (util, nulls))
    (hunits : p.nUnits = yTrain.length) (hdist : dist.length = yTrain.length) (hN : yTest.length ≤ nulls.length)
    (hrows : p.data.length = p.nUnits) (hrow : ∀ r < p.nUnits, rowUnits (p.data.getD r []) = [r])
    (hutil : (Util.unique yTrain).length ≤ util.length)
    (hok : ordersOK (dist.map (fun row => row.take yTest.length)) yTest.length ordersOpt = true) :
    ∃ L : List ℚ, score B p true yTrain yTest dist 1 u ordersOpt = .ok L ∧ L.length = p.nUnits ∧
      ∀ i : Fin p.nUnits, L.getD i.val 0
        = Sh.phiM (fun S => (∑ j ∈ Finset.range yTest.length,
            knnGame p (yTrain.map (Util.unique yTrain).idxOf)
              ((ordersUsed (dist.map (fun row => row.take yTest.length)) yTest.length ordersOpt).getD j [])
              (column util j 0) (nulls.getD j 0) 1 (Util.unique yTrain).length S) / (yTest.length : ℚ)) i := by
  have key := DsProofs.C01.C01_score_shapley_simple B p yTrain yTest dist u ordersOpt util nulls hD hC hT hte hU
    hunits hdist hN
  obtain ⟨L, hs, hL, hphi⟩ := key hok
  refine ⟨L, hs, by rw [hL, hunits], ?_⟩
  intro i
  have hne := train_ne_nil yTrain yTest hT hte
  have hperm : ∀ j < yTest.length,
      ((ordersUsed (dist.map (fun row => row.take yTest.length)) yTest.length ordersOpt).getD j []).Perm
        (List.range p.nUnits) := by
    intro j hj
    have h1 := Ds.Kernel.sortsWeakly_isPerm (ordersUsed_sorts _ yTest.length ordersOpt hok j hj)
    have h2 := (Ds.Kernel.isPerm_perm h1).symm
    rwa [column, List.length_map, List.length_map, hdist, ← hunits] at h2
  rw [C02_dispatch_shapley p yTrain util nulls _ yTest.length hne hrows hrow hperm hutil i]
  have hlen : p.nUnits = (yTrain.map (Util.unique yTrain).idxOf).length := by rw [List.length_map, hunits]
  have e := phi_congr_card hlen (fun k => ((fun S => (∑ j ∈ Finset.range yTest.length,
      Ds.Kernel.nnGameU k
        ((ordersUsed (dist.map (fun row => row.take yTest.length)) yTest.length ordersOpt).getD j [])
        (yTrain.map (Util.unique yTrain).idxOf) (column util j 0) (nulls.getD j 0) S) / (yTest.length : ℚ)) :
      Sh.Game k)) i.val i.isLt
  exact (hphi ⟨i.val, hlen ▸ i.isLt⟩).trans e.symm

/-- the hypotheses of `C02_score_shapley_k1` hold for `exP3`, labels `9, 7, 9`, `K = 1`, default path, no
orders supplied (the kernel uses the stable `argsort`) -/
example : ∃ L : List ℚ, score 1024 exP3 true [9, 7, 9] [9] [[1], [2], [3]] 1 .accuracy none = .ok L ∧ L.length = 3 ∧
    ∀ i : Fin 3, L.getD i.val 0
      = Sh.phiM (fun S => (∑ j ∈ Finset.range 1,
          knnGame exP3 (([9, 7, 9] : List Int).map (Util.unique [9, 7, 9]).idxOf)
            ((ordersUsed (([[1], [2], [3]] : List (List ℚ)).map (fun row => row.take 1)) 1 none).getD j [])
            (column ([[0], [1]] : List (List ℚ)) j 0) (([0] : List ℚ).getD j 0) 1 (Util.unique [9, 7, 9]).length S)
            / ((1 : ℕ) : ℚ)) i :=
  C02_score_shapley_k1 1024 exP3 [9, 7, 9] [9] [[1], [2], [3]] .accuracy none [[0], [1]] [0]
    (by decide) (by decide) (by decide) (by decide) exU (by decide) (by decide) (by decide) (by decide) (by decide)
    (by rw [exUnique]; decide) rfl

/-- `exP3` has one row per unit in unit order; with the labels `9, 7, 9` and the accuracy tables of the
instance above, the 1-NN instance of the K-NN game is the kernel's game -/
example : knnGame exP3 (([9, 7, 9] : List Int).map (Util.unique [9, 7, 9]).idxOf) [0, 1, 2]
      (column ([[0], [1]] : List (List ℚ)) 0 0) (([0] : List ℚ).getD 0 0) 1 (Util.unique [9, 7, 9]).length
    = Ds.Kernel.nnGameU 3 [0, 1, 2] (([9, 7, 9] : List Int).map (Util.unique [9, 7, 9]).idxOf)
        (column ([[0], [1]] : List (List ℚ)) 0 0) (([0] : List ℚ).getD 0 0) :=
  C02_dispatch_consistent exP3 [9, 7, 9] [[0], [1]] [0] [0, 1, 2] 0 (by decide) (by decide) (by decide) (by decide)
    (by rw [exUnique]; decide)

/-- the values: `K = 1` on the same data, both branches: `[5/6, -1/6, 1/3]` (`#eval` of the model's `score`
gives this list for `simple = true` and `simple = false`) -/
example : Sh.phiM (knnGame exP3 [1, 0, 1] [0, 1, 2] [0, 1] 0 1 2) (0 : Fin 3) = 5/6
    ∧ Sh.phiM (knnGame exP3 [1, 0, 1] [0, 1, 2] [0, 1] 0 1 2) (1 : Fin 3) = -1/6
    ∧ Sh.phiM (knnGame exP3 [1, 0, 1] [0, 1, 2] [0, 1] 0 1 2) (2 : Fin 3) = 1/3 := by decide +kernel

end DsProofs.C02

#print axioms DsProofs.C02.C02_score_reduce
#print axioms DsProofs.C02.C02_score_ok
#print axioms DsProofs.C02.C02_codes_lt
#print axioms DsProofs.C02.C02_score_shapley
#print axioms DsProofs.C02.C02_score_accuracy
#print axioms DsProofs.C02.C02_dispatch_consistent
#print axioms DsProofs.C02.C02_dispatch_shapley
#print axioms DsProofs.C02.C02_score_shapley_k1
