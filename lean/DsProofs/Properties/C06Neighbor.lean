import DsProofs.Properties.C01

/-!
# C06 (neighbor path) — efficiency of the 1-NN kernel

What these theorems say about the Python code (`compute_all_importances(_cy)`, modelled by
`Ds.Kernel.pointAccum` / `Ds.Kernel.importances` over exact rationals):

* `C06_neighbor_point`: for one validation point (zero accumulator, the sort result `order` a
  permutation of the `n > 0` units) the `n` scores add up to
  `util[label of order[0]] − null`, i.e. the utility obtained with the whole training set (the
  nearest of all units decides) minus the utility of the empty training set.
* `C06_neighbor`: the `n` entries of the final result add up to the mean, over the `m` validation
  points, of that difference.
Both are the efficiency property `Sh.phi_efficiency` of the Shapley value applied to the game of C01.
-/

open Finset Ds.Kernel

namespace DsProofs.C06

/-- **C06n (one point).** The scores of one validation point sum to
`utility(whole training set) − utility(∅)`. -/
theorem C06_neighbor_point (n : ℕ) (hn : 0 < n) (labels order : List ℕ) (util : List ℚ) (null : ℚ)
    (hp : isPerm n order = true) :
    (pointAccum (List.replicate n 0) labels order util null).sum
      = util.getD (labels.getD (order.getD 0 0) 0) null - null := by
  rw [list_sum_eq_fin _ n (by rw [pointAccum_length]; simp),
    Finset.sum_congr rfl (fun u _ => DsProofs.C01.C01_point n labels order util null hp u),
    Sh.phi_efficiency hn, nnGameU_univ hn hp, nnGameU_empty]

/-- **C06n (whole kernel).** The entries of `importances` sum to the mean over the validation points
of `utility(whole training set) − utility(∅)`. -/
theorem C06_neighbor (n m : ℕ) (hn : 0 < n) (labels orders : List (List ℕ)) (utils : List (List ℚ))
    (nulls : List ℚ)
    (hl : labels.length = m) (ho : orders.length = m) (hU : utils.length = m) (hN : nulls.length = m)
    (hp : ∀ o ∈ orders, isPerm n o = true) :
    (importances n labels orders utils nulls).sum
      = (∑ j ∈ range m,
          ((utils.getD j []).getD ((labels.getD j []).getD ((orders.getD j []).getD 0 0) 0) (nulls.getD j 0)
            - nulls.getD j 0)) / (m : ℚ) := by
  rw [list_sum_eq_fin _ n (importances_length _ _ _ _ _),
    Finset.sum_congr rfl
      (fun u _ => DsProofs.C01.C01_importances n m labels orders utils nulls hl ho hU hN hp u),
    Sh.phi_efficiency hn, ← sub_div, ← Finset.sum_sub_distrib]
  congr 1
  apply Finset.sum_congr rfl
  intro j hj
  rw [nnGameU_univ hn (hp _ (getD_mem' _ _ (by rw [ho]; exact Finset.mem_range.mp hj))), nnGameU_empty]

/-- instance: labels 0,1,0 sorted, utility 1 for class 0: scores 5/6 − 1/6 + 1/3 = 1 = 1 − 0 -/
example : (pointAccum (List.replicate 3 (0:ℚ)) [0,1,0] [0,1,2] [1,0] 0).sum = 1 - 0 :=
  C06_neighbor_point 3 (by decide) [0,1,0] [0,1,2] [1,0] 0 (by decide)

end DsProofs.C06
