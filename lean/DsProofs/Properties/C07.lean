import DsProofs.Properties.C01

/-!
# C07 — symmetries / invariances of the 1-NN kernel

What these theorems say about the Python code (`compute_all_importances(_cy)` and the sort feeding
it, modelled by `Ds.Kernel.importances` / `Ds.Kernel.sortsWeakly` over exact rationals):

* `C07_val_perm`: presenting the validation points in another order (any `List.Perm` of the zipped
  per-point columns label/order/utility/null) gives exactly the same list of scores.  No hypothesis
  on the data.
* `C07_val_dup`: presenting every validation point twice (columns `cols ++ cols`) gives exactly the
  same scores (the sum doubles and so does the divisor).  No hypothesis besides the four columns
  having the same length.
* `C07_monotone`: applying a strictly increasing function to all distances does not change which
  orders are accepted as sorted — so the scores, which see the distances only through `order`,
  are invariant under strictly monotone rescaling of the distance.
* `C07_units_perm`: renaming the units by a permutation `π` of `0 … n-1` (labels re-indexed, every
  sort result mapped through `π`) permutes the scores by `π`: the new score of unit `π u` is the old
  score of unit `u`.  `C07_units_perm_hyp` checks that the renamed orders are again permutations.
* `C07_symmetric`: two units `a`, `b` that are interchangeable in the game of every validation point
  (swapping them in any coalition never changes the 1-NN utility) get equal scores
  (Shapley symmetry, via C01b).
* `C07_symmetric_between`: a concrete sufficient condition on the data: if, for every validation
  point, all the units ranked between `a` and `b` (inclusive) have the same utility, then `a` and `b`
  get equal scores.  `C07_symmetric_adjacent`: in particular two units with equal labels that are
  adjacent in the sorted order of every validation point.
  (Equal labels alone are NOT enough: a unit of another class ranked between them separates them.)
-/

open Finset Ds.Kernel

namespace DsProofs.C07

/-- **C07a.** Permuting the validation points does not change the result. -/
theorem C07_val_perm (n : ℕ) (labels orders : List (List ℕ)) (utils : List (List ℚ)) (nulls : List ℚ)
    (labels' orders' : List (List ℕ)) (utils' : List (List ℚ)) (nulls' : List ℚ)
    (h : (labels.zip (orders.zip (utils.zip nulls))).Perm (labels'.zip (orders'.zip (utils'.zip nulls')))) :
    importances n labels orders utils nulls = importances n labels' orders' utils' nulls' :=
  importances_perm n _ _ _ _ _ _ _ _ h

/-- **C07b.** Duplicating every validation point does not change the result. -/
theorem C07_val_dup (n : ℕ) (labels orders : List (List ℕ)) (utils : List (List ℚ)) (nulls : List ℚ)
    (h1 : labels.length = orders.length) (h2 : orders.length = utils.length) (h3 : utils.length = nulls.length) :
    importances n (labels ++ labels) (orders ++ orders) (utils ++ utils) (nulls ++ nulls)
      = importances n labels orders utils nulls :=
  importances_dup n _ _ _ _ _ _ _ _ (cols_append _ _ _ _ _ _ _ _ h1 h2 h3)

/-- **C07c.** A strictly monotone transformation of the distances is sorted by exactly the same orders. -/
theorem C07_monotone (f : ℚ → ℚ) (hf : StrictMono f) (d : List ℚ) (order : List ℕ) :
    sortsWeakly (d.map f) order = sortsWeakly d order :=
  sortsWeakly_map f hf d order

/-- **C07d.** Renaming the units by `π` permutes the scores by `π`.
`relabel π lab = [lab[π⁻¹ 0], …, lab[π⁻¹ (n-1)]]`, `permN π` is `π` acting on unit indices. -/
theorem C07_units_perm (n : ℕ) (π : Equiv.Perm (Fin n)) (labels orders : List (List ℕ))
    (utils : List (List ℚ)) (nulls : List ℚ) (hp : ∀ o ∈ orders, isPerm n o = true) (u : Fin n) :
    (importances n (labels.map (relabel π)) (orders.map (List.map (permN π))) utils nulls).getD (π u).val 0
      = (importances n labels orders utils nulls).getD u.val 0 :=
  importances_relabel π labels orders utils nulls (fun o ho _ hx => (isPerm_mem (hp o ho)).mp hx) u

/-- the renamed instance of C07d satisfies the same hypothesis -/
theorem C07_units_perm_hyp (n : ℕ) (π : Equiv.Perm (Fin n)) (orders : List (List ℕ))
    (hp : ∀ o ∈ orders, isPerm n o = true) : ∀ o ∈ orders.map (List.map (permN π)), isPerm n o = true := by
  intro o ho
  obtain ⟨o', ho', rfl⟩ := List.mem_map.mp ho
  exact isPerm_map_permN π (hp o' ho')

/-- **C07e (game form).** Units that are interchangeable in every per-point game get equal scores. -/
theorem C07_symmetric (n m : ℕ) (labels orders : List (List ℕ)) (utils : List (List ℚ)) (nulls : List ℚ)
    (hl : labels.length = m) (ho : orders.length = m) (hU : utils.length = m) (hN : nulls.length = m)
    (hp : ∀ o ∈ orders, isPerm n o = true) (a b : Fin n)
    (hsym : ∀ j, j < m → ∀ S : Finset (Fin n),
      nnGameU n (orders.getD j []) (labels.getD j []) (utils.getD j []) (nulls.getD j 0)
          (S.map (Equiv.swap a b).toEmbedding)
        = nnGameU n (orders.getD j []) (labels.getD j []) (utils.getD j []) (nulls.getD j 0) S) :
    (importances n labels orders utils nulls).getD a 0 = (importances n labels orders utils nulls).getD b 0 := by
  rw [DsProofs.C01.C01_importances n m labels orders utils nulls hl ho hU hN hp a,
    DsProofs.C01.C01_importances n m labels orders utils nulls hl ho hU hN hp b]
  apply Sh.phi_symm
  intro S
  congr 1
  exact Finset.sum_congr rfl (fun j hj => hsym j (Finset.mem_range.mp hj) S)

/-- **C07e (data form).** If for every validation point all units ranked between `a` and `b`
(inclusive) have the same utility, `a` and `b` get equal scores. -/
theorem C07_symmetric_between (n m : ℕ) (labels orders : List (List ℕ)) (utils : List (List ℚ))
    (nulls : List ℚ)
    (hl : labels.length = m) (ho : orders.length = m) (hU : utils.length = m) (hN : nulls.length = m)
    (hp : ∀ o ∈ orders, isPerm n o = true) (a b : Fin n)
    (hsym : ∀ j, j < m → ∃ c : ℚ, ∀ k,
      min ((orders.getD j []).idxOf a.val) ((orders.getD j []).idxOf b.val) ≤ k →
      k ≤ max ((orders.getD j []).idxOf a.val) ((orders.getD j []).idxOf b.val) →
      (utils.getD j []).getD ((labels.getD j []).getD ((orders.getD j []).getD k 0) 0) (nulls.getD j 0) = c) :
    (importances n labels orders utils nulls).getD a 0 = (importances n labels orders utils nulls).getD b 0 := by
  rw [importances_getD _ _ _ _ _ _ a.isLt, importances_getD _ _ _ _ _ _ b.isLt, cols_length_eq hl ho hU hN]
  congr 1
  apply Finset.sum_congr rfl
  intro j hj
  have hj' := Finset.mem_range.mp hj
  obtain ⟨c, hc⟩ := hsym j hj'
  exact pointContrib_symm (hp _ (getD_mem' _ _ (by rw [ho]; exact hj'))) _ _ _ a.val b.val a.isLt b.isLt c hc

/-- **C07e (adjacent form).** Two units with equal labels that are adjacent in the sorted order of
every validation point get equal scores. -/
theorem C07_symmetric_adjacent (n m : ℕ) (labels orders : List (List ℕ)) (utils : List (List ℚ))
    (nulls : List ℚ)
    (hl : labels.length = m) (ho : orders.length = m) (hU : utils.length = m) (hN : nulls.length = m)
    (hp : ∀ o ∈ orders, isPerm n o = true) (a b : Fin n)
    (hlab : ∀ j, j < m → (labels.getD j []).getD a.val 0 = (labels.getD j []).getD b.val 0)
    (hadj : ∀ j, j < m → (orders.getD j []).idxOf a.val + 1 = (orders.getD j []).idxOf b.val
                        ∨ (orders.getD j []).idxOf b.val + 1 = (orders.getD j []).idxOf a.val) :
    (importances n labels orders utils nulls).getD a 0 = (importances n labels orders utils nulls).getD b 0 := by
  rw [importances_getD _ _ _ _ _ _ a.isLt, importances_getD _ _ _ _ _ _ b.isLt, cols_length_eq hl ho hU hN]
  congr 1
  apply Finset.sum_congr rfl
  intro j hj
  have hj' := Finset.mem_range.mp hj
  exact pointContrib_symm_adjacent (hp _ (getD_mem' _ _ (by rw [ho]; exact hj'))) _ _ _ a.val b.val
    a.isLt b.isLt (hlab j hj') (hadj j hj')

/-- equal labels alone are not enough: units 0 and 2 both have label 0, but unit 1 (label 1) is ranked
between them, and their scores differ (5/6 vs 1/3) -/
example : importances 3 [[0,1,0]] [[0,1,2]] [[1,0]] [0] = [5/6, -1/6, 1/3] := by
  simp [importances, pointAccum, scatterAdd, rankScores, aux, List.modify, List.replicate]

end DsProofs.C07
