import DsProofs.KernelProofs

/-!
# C08 (kernel) — the 1-NN kernel is linear in the utilities

What these theorems say about the Python code (`compute_all_importances(_cy)`, modelled by
`Ds.Kernel.importances` over exact rationals).  `utils[j][c]` is the utility of class `c` for
validation point `j`, `nulls[j]` the null score of point `j`.

* `C08_kernel_linear`: if every utility entry and every null score is the combination
  `a·U1 + b·U2` of two utility tables of the same shape (same sort results, same labels), the vector
  of scores is `a·scores(U1) + b·scores(U2)`, entry by entry.  No hypothesis on the orders.
  `C08_kernel_linear_getD` is the same statement read entrywise.
* `C08_kernel_shift`: adding one constant `c` to every utility entry and to every null score leaves
  every score unchanged (only utility differences enter the loop).  No hypothesis at all.
-/

open Finset Ds.Kernel

namespace DsProofs.C08

/-- **C08a.** Linearity: `lin a b x y = a*x + b*y`, applied entrywise to the utility tables, the null
scores, and (conclusion) the score vectors. -/
theorem C08_kernel_linear (n : ℕ) (a b : ℚ) (labels orders : List (List ℕ)) (U₁ U₂ : List (List ℚ))
    (N₁ N₂ : List ℚ) (hU : U₁.length = U₂.length)
    (hin : ∀ j, (U₁.getD j []).length = (U₂.getD j []).length) (hN : N₁.length = N₂.length) :
    importances n labels orders
        (List.zipWith (List.zipWith (fun x y => a * x + b * y)) U₁ U₂)
        (List.zipWith (fun x y => a * x + b * y) N₁ N₂)
      = List.zipWith (fun x y => a * x + b * y)
          (importances n labels orders U₁ N₁) (importances n labels orders U₂ N₂) :=
  importances_lin n a b labels orders U₁ U₂ N₁ N₂ hU hin hN

/-- C08a, entrywise. -/
theorem C08_kernel_linear_getD (n : ℕ) (a b : ℚ) (labels orders : List (List ℕ)) (U₁ U₂ : List (List ℚ))
    (N₁ N₂ : List ℚ) (hU : U₁.length = U₂.length)
    (hin : ∀ j, (U₁.getD j []).length = (U₂.getD j []).length) (hN : N₁.length = N₂.length)
    (u : ℕ) (hu : u < n) :
    (importances n labels orders
        (List.zipWith (List.zipWith (fun x y => a * x + b * y)) U₁ U₂)
        (List.zipWith (fun x y => a * x + b * y) N₁ N₂)).getD u 0
      = a * (importances n labels orders U₁ N₁).getD u 0 + b * (importances n labels orders U₂ N₂).getD u 0 :=
  importances_lin_getD n a b labels orders U₁ U₂ N₁ N₂ hU hin hN u hu

/-- **C08b.** Shift invariance. -/
theorem C08_kernel_shift (n : ℕ) (c : ℚ) (labels orders : List (List ℕ)) (utils : List (List ℚ))
    (nulls : List ℚ) :
    importances n labels orders (utils.map (List.map (· + c))) (nulls.map (· + c))
      = importances n labels orders utils nulls :=
  importances_shift n c labels orders utils nulls

/-- instance: 2·[1,0] + 3·[0,1] as utilities gives 2·scores₁ + 3·scores₂ -/
example : importances 3 [[0,1,0]] [[0,1,2]] [[(2:ℚ),3]] [0]
    = List.zipWith (fun x y => 2 * x + 3 * y)
        (importances 3 [[0,1,0]] [[0,1,2]] [[1,0]] [0]) (importances 3 [[0,1,0]] [[0,1,2]] [[0,1]] [0]) := by
  have := C08_kernel_linear 3 2 3 [[0,1,0]] [[0,1,2]] [[1,0]] [[0,1]] [0] [0] rfl
    (by intro j; rcases j with _ | j <;> simp) rfl
  simpa using this

end DsProofs.C08
