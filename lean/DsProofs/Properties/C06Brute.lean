import DsProofs.BruteProofs

/-!
# C06 (bruteforce half) — efficiency

About `ShapleyImportance._shapley_bruteforce` (model: `Ds.Brute.scores`).

* `C06_brute`: for any utility table `g` on coalitions none of whose evaluations raises an exception
  outside the caught classes, and at least one unit, the scores returned by the enumeration method
  add up to `val(all units) − val(no unit)`, where `val` is the returned score or the null score for a
  coalition whose evaluation raised `ValueError` / `RuntimeWarning` / `UserWarning`.
  (The Monte-Carlo half, `C06_mc`, is in `C04.lean`.)
-/

open BruteP

theorem C06_brute (n : ℕ) (hn : 0 < n) (g : Finset (Fin n) → Ds.Outcome) (null : ℚ)
    (h : ∀ a ∈ Ds.allAssign n, g (toSet n a) ≠ .other) :
    ∃ L : List ℚ, Ds.Brute.scores n (fun a => g (toSet n a)) null = some L ∧ L.length = n ∧
      L.sum = valOf null (g Finset.univ) - valOf null (g ∅) := by
  have h' : ∀ S, g S ≠ .other := by
    intro S
    obtain ⟨a, ha, rfl⟩ := exists_mem_allAssign n S
    exact h a ha
  refine ⟨_, scores_eq_phi n g null h', by simp, ?_⟩
  rw [← Sh.phi_efficiency hn (fun S => valOf null (g S))]
  exact sum_range_map_dite n _

/-- non-vacuity: a concrete 3-unit table with a raising coalition; the scores sum to 3 − 0 -/
example : ∃ L : List ℚ,
    Ds.Brute.scores 3 (fun a => (if toSet 3 a = {0, 2} then Ds.Outcome.valueError
      else .ok (toSet 3 a).card)) 0 = some L ∧ L.sum = 3 :=
  ⟨[2/3, 5/3, 2/3], by decide +kernel, by norm_num⟩
