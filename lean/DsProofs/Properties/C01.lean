import DsProofs.KernelProofs

/-!
# C01 — the 1-NN neighbor scores are exact Shapley values

What these theorems say about the Python code (`shapley_cy.pyx:compute_all_importances_cy`,
`shapley.py:compute_all_importances`, modelled by `Ds.Kernel.pointAccum` / `Ds.Kernel.importances`
over exact rationals):

* `nnGameU` (defined in `DsProofs/KernelProofs.lean`, definition restated here as `C01_game_def`) is the
  textbook 1-NN utility game of one validation point: the value of a set `S` of training units is the
  utility of the label of the nearest unit present in `S` — "nearest" meaning first in the order
  `order` that the sort returned — and the null score when `S` is empty.
  `C01_game_nearest` checks that the unit picked is a member of `S` of minimal rank.
* `C01_point`: for one validation point, starting from a zero accumulator, the backward loop
  `current += (u[idxs[i]] - u[idxs[i+1]])/(i+1); all_importances[idxs[i]] += current`
  leaves in slot `u` exactly the Shapley value `Sh.phi` of unit `u` in that game, for every sort
  result `order` that is a permutation of the units (ties: whatever order the sort returned).
  (`n > 0` is implied by the existence of a unit `u : Fin n`.)
* `C01_importances`: the final result (sum over validation points divided by their number) is the
  Shapley value of the mean of the per-point games.
* `C01_consistent`: if `order` weakly sorts the distances `d` (what any correct `argsort` guarantees),
  the unit picked by the game has minimal distance among the units of `S`; so the game is "utility of
  the label of a nearest present unit" for whatever tie-break the sort used.
-/

open Finset Ds.Kernel

namespace DsProofs.C01

/-- The definition of the game, verbatim: utility of the label of the present unit of smallest rank;
null when nothing is present.  (`nearest order S h = order.getD (minRank order S h) 0` and
`minRank order S h` is the minimum over `u ∈ S` of the position `order.idxOf u` of `u` in `order`.) -/
theorem C01_game_def (n : ℕ) (order labels : List ℕ) (util : List ℚ) (null : ℚ) (S : Finset (Fin n)) :
    nnGameU n order labels util null S
      = if h : S.Nonempty then
          util.getD (labels.getD
            (order.getD ((S.image (fun u : Fin n => order.idxOf u.val)).min' (h.image _)) 0) 0) null
        else null := rfl

/-- The unit picked by the game is a member of `S`, and no member of `S` comes earlier in `order`. -/
theorem C01_game_nearest (n : ℕ) (order labels : List ℕ) (util : List ℚ) (null : ℚ)
    (hp : isPerm n order = true) (S : Finset (Fin n)) (hS : S.Nonempty) :
    ∃ u ∈ S, nnGameU n order labels util null S = util.getD (labels.getD u.val 0) null
      ∧ ∀ v ∈ S, order.idxOf u.val ≤ order.idxOf v.val := by
  obtain ⟨u, huS, hu, hmin⟩ := nearest_spec hp S hS
  refine ⟨u, huS, ?_, hmin⟩
  unfold nnGameU
  rw [dif_pos hS, hu]

/-- **C01a.** One validation point: the kernel's slot `u` holds the Shapley value of unit `u` in the
1-NN utility game (tie-break = the order the sort returned). -/
theorem C01_point (n : ℕ) (labels order : List ℕ) (util : List ℚ) (null : ℚ)
    (hp : isPerm n order = true) (u : Fin n) :
    (pointAccum (List.replicate n 0) labels order util null).getD u 0
      = Sh.phi (nnGameU n order labels util null) u := by
  rw [pointAccum_getD _ _ _ _ _ _ (by simp), getD_replicate_zero, zero_add,
    pointContrib_eq_phi u.pos hp]

/-- **C01b.** The whole kernel: slot `u` of the result is the Shapley value of unit `u` in the MEAN,
over the `m` validation points, of the per-point 1-NN utility games. -/
theorem C01_importances (n m : ℕ) (labels orders : List (List ℕ)) (utils : List (List ℚ)) (nulls : List ℚ)
    (hl : labels.length = m) (ho : orders.length = m) (hU : utils.length = m) (hN : nulls.length = m)
    (hp : ∀ o ∈ orders, isPerm n o = true) (u : Fin n) :
    (importances n labels orders utils nulls).getD u 0
      = Sh.phi (fun S =>
          (∑ j ∈ range m,
              nnGameU n (orders.getD j []) (labels.getD j []) (utils.getD j []) (nulls.getD j 0) S) / (m : ℚ)) u := by
  have hg : (fun S : Finset (Fin n) =>
      (∑ j ∈ range m,
          nnGameU n (orders.getD j []) (labels.getD j []) (utils.getD j []) (nulls.getD j 0) S) / (m : ℚ))
      = fun S => (1 / (m : ℚ)) * ∑ j ∈ range m,
          nnGameU n (orders.getD j []) (labels.getD j []) (utils.getD j []) (nulls.getD j 0) S := by
    funext S; ring
  rw [hg, Sh.phi_smul, Sh.phi_sum, importances_getD _ _ _ _ _ _ u.isLt, cols_length_eq hl ho hU hN,
    div_eq_inv_mul, one_div]
  congr 1
  apply Finset.sum_congr rfl
  intro j hj
  exact pointContrib_eq_phi u.pos (hp _ (getD_mem' _ _ (by rw [ho]; exact Finset.mem_range.mp hj))) _ _ _ u

/-- **C01c.** If `order` weakly sorts the distances `d`, the unit whose label the game uses has
minimal distance among the units of `S`. -/
theorem C01_consistent (d : List ℚ) (order labels : List ℕ) (util : List ℚ) (null : ℚ)
    (hs : sortsWeakly d order = true) (S : Finset (Fin d.length)) (hS : S.Nonempty) :
    ∃ u ∈ S, nnGameU d.length order labels util null S = util.getD (labels.getD u.val 0) null
      ∧ ∀ v ∈ S, d.getD u.val 0 ≤ d.getD v.val 0 := by
  have hp := sortsWeakly_isPerm hs
  obtain ⟨u, huS, hu, hmin⟩ := C01_game_nearest d.length order labels util null hp S hS
  refine ⟨u, huS, hu, ?_⟩
  intro v hv
  have hvm : v.val ∈ order := (isPerm_mem hp).mpr v.isLt
  have := sortsWeakly_le hs _ _ (hmin v hv) (List.idxOf_lt_length_iff.mpr hvm)
  rwa [getD_idxOf ((isPerm_mem hp).mpr u.isLt), getD_idxOf hvm] at this

/-! ### Concrete instances -/

/-- three units with labels 0,1,0, already sorted by distance; the validation point rewards class 0 -/
example : pointAccum (List.replicate 3 (0:ℚ)) [0,1,0] [0,1,2] [1,0] 0 = [5/6, -1/6, 1/3] := by
  simp [pointAccum, scatterAdd, rankScores, aux, List.modify, List.replicate]
  norm_num

/-- the same through the theorem: the Shapley values of that 1-NN game are 5/6, −1/6, 1/3 -/
example : Sh.phi (nnGameU 3 [0,1,2] [0,1,0] [1,0] 0) (0 : Fin 3) = 5/6 := by
  rw [← C01_point 3 [0,1,0] [0,1,2] [1,0] 0 (by decide) 0]
  simp [pointAccum, scatterAdd, rankScores, aux, List.modify, List.replicate]
  norm_num

/-- two validation points, the second with a non-identity order and a non-zero null score -/
example : importances 3 [[0,1,0],[0,1,1]] [[0,1,2],[1,2,0]] [[1,0],[3,1/2]] [0,1/4] = [1, 0, 0] := by
  simp [importances, pointAccum, scatterAdd, rankScores, aux, List.modify, List.replicate]

/-- the hypotheses of `C01_point` / `C01_importances` / `C01_consistent` are satisfiable -/
example : 0 < 3 ∧ isPerm 3 [0,1,2] = true ∧ isPerm 3 [1,2,0] = true
    ∧ (∀ o ∈ [[0,1,2],[1,2,0]], isPerm 3 o = true) := by decide

example : sortsWeakly [1/2, 3/4, 2] [0,1,2] = true ∧ sortsWeakly [1, 1/3, 1/3] [2,1,0] = true := by
  simp [sortsWeakly, isPerm, List.range_succ]
  norm_num

end DsProofs.C01
