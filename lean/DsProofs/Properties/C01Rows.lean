import DsProofs.NeighborProofs

/-!
# C01 (row level) — units that own several rows, ties, `argsort`/`argmin`, and the glue of `_shapley_neighbor`

`Properties/C01.lean` shows that the sort-and-telescope kernel computes the Shapley value of the 1-NN
game over *units* for whatever order `argsort` returned.  This file connects that to training *rows*
grouped into units by a map/fork provenance, i.e. to `shapley.py:get_unit_labels_and_distances`,
`compute_shapley_1nn_mapfork` and `_shapley_neighbor` (model: `Ds.Kernel.argminFirst`, `unitReduce`,
`argsortStable`, `Ds.Neighbor.rowsOf`, `mapfork`, `score`).  `dist[r][j]` is the distance of training row
`r` to validation point `j`; `own[u]` is the (ascending) list of rows that are present when only unit `u`
is switched on (`rowsOf p = .ok own`).

* R1 `argsortStable_sorts`: the order the model itself uses (`mergeSort` of `0 … n-1` by distance, ties by
  index) is a permutation of the units that weakly sorts the distances — a legitimate `np.argsort` result.
* R2 `argminFirst_spec`: `np.argmin` as modelled returns the FIRST position of the minimum (and nothing
  exactly for the empty list).
* R3 `unitReduce_spec`: `get_unit_labels_and_distances`.  For a unit owning at least one row and every
  validation point `j`, the unit's label/distance are those of one of its rows, `dist` of that row is
  minimal among the unit's rows and strictly smaller than that of every earlier row of the unit.  A unit
  owning no row gets the null label and a distance strictly larger than EVERY entry of `dist` ("infinity").
* R4 `C01_rows_point`: for ANY order that weakly sorts the unit distances of point `j`, the unit-level
  1-NN game that the kernel evaluates (`nnGameU`, see C01) is a nearest-present-row game: a coalition `S`
  none of whose units owns a row is worth the null score; otherwise it is worth the utility of the label
  of a row `r` owned by a unit of `S` whose distance is minimal among all rows owned by units of `S`.
  `C01_rows_point_distinct`: if the rows' distances to point `j` are pairwise distinct, this is the value
  of THE nearest present row.  `C01_rows_null_player`: a unit that owns no row never changes the value
  (so its Shapley value is 0, `C01_rows_null_player_phi`).
* R5 `C01_rows_mapfork`: `compute_shapley_1nn_mapfork` on a provenance with `rowsOf p = .ok own` returns
  (without raising) a vector whose entry `u` is the Shapley value of unit `u` in the MEAN over the `nb`
  validation points of the games of R4, the order being the model's stable argsort when no orders are
  supplied and the supplied orders when each weakly sorts its column of unit distances
  (`C01_rows_mapfork_sorted`: in both cases R4 applies); if some supplied order does not, the model
  answers `Err.other` (`C01_rows_mapfork_bad_orders`).  `C01_rows_mapfork_simple` is the same for the
  `simple` (default provenance) path in which unit `u` is row `u`; there the game is directly "utility of
  the label of a nearest present row" (`C01_simple_point`).
* `C01_rows_present` (what "`own`" means for a map/fork provenance): if the container is well padded, every
  row carries one literal `unit == c` with `c ≠ 0` (one disjunct, one conjunct — `Provenance(units=n)`,
  `Provenance(data=ids)` and their forks), then `rowsOf p` succeeds, and the rows that
  `provenance.query` reports present when exactly the units of a coalition `S` are switched on are
  exactly the rows owned by some unit of `S`.  So "row owned by a unit of `S`" in R4–R6 is "present row".
* R6 `C01_score`: for `K = 1`, one conjunct and one disjunct per row, a non-empty validation set whose
  labels all occur among the training labels, `_shapley_neighbor` is exactly ONE call of
  `compute_shapley_1nn_mapfork` on the label codes (positions in `np.unique(y_train)`), the whole
  distance matrix and the utility tables, with `nb = n_test` (the batching never splits, C07); its result
  is returned unchanged (`C01_score_ok`).  `C01_score_shapley` (map/fork path) and
  `C01_score_shapley_simple` (default provenance) combine this with R5; `C01_score_rows` adds R4, and
  `C01_score_accuracy` specialises to the accuracy utility: the value of a coalition for point `j` is
  `1` if the label of a nearest present training row equals `y_test[j]` and `0` otherwise (the
  element-wise null score when no row is present).
-/

open Finset Ds Ds.Kernel Ds.Neighbor

namespace DsProofs.C01

/-! ### R1 -/

/-- **R1.** The model's own `argsort` output weakly sorts the distances (and is a permutation). -/
theorem argsortStable_sorts (d : List ℚ) : sortsWeakly d (argsortStable d) = true :=
  argsortStable_sortsWeakly d

theorem argsortStable_isPerm' (d : List ℚ) : isPerm d.length (argsortStable d) = true :=
  argsortStable_isPerm d

example : argsortStable [3, 1, 2, 1] = [1, 3, 2, 0] := by
  simp [argsortStable, List.mergeSort, List.MergeSort.Internal.splitInTwo, List.merge, List.range_succ]
  norm_num

example : sortsWeakly [3, 1, 2, 1] [1, 3, 2, 0] = true := by
  simp [sortsWeakly, isPerm, List.range_succ]
  norm_num

/-! ### R2 -/

/-- **R2.** `np.argmin`: the first index at which the minimum is attained; `none` exactly for `[]`. -/
theorem argminFirst_spec (l : List ℚ) :
    (∀ k, argminFirst l = some k →
      k < l.length ∧ (∀ i, i < l.length → l.getD k 0 ≤ l.getD i 0) ∧ (∀ i, i < k → l.getD k 0 < l.getD i 0))
    ∧ (argminFirst l = none ↔ l = []) :=
  ⟨argminFirst_some l, argminFirst_none l⟩

example : argminFirst [3, 1, 2, 1] = some 1 := by
  simp [argminFirst, argminFirst.go]

example : argminFirst [] = none := rfl

/-! ### R3 -/

/-- **R3.** `get_unit_labels_and_distances`, entry `(u, j)`. -/
theorem unitReduce_spec (own : List (List ℕ)) (labels : List ℕ) (dist : List (List ℚ))
    (nTest nullLabel u j : ℕ) (hu : u < own.length) (hj : j < nTest) :
    (own.getD u [] ≠ [] →
      ∃ k, k < (own.getD u []).length ∧
        ((unitReduce own labels dist nTest nullLabel).1.getD u []).getD j 0
          = labels.getD ((own.getD u []).getD k 0) 0 ∧
        ((unitReduce own labels dist nTest nullLabel).2.getD u []).getD j 0
          = (dist.getD ((own.getD u []).getD k 0) []).getD j 0 ∧
        (∀ i, i < (own.getD u []).length →
          (dist.getD ((own.getD u []).getD k 0) []).getD j 0 ≤ (dist.getD ((own.getD u []).getD i 0) []).getD j 0) ∧
        (∀ i, i < k →
          (dist.getD ((own.getD u []).getD k 0) []).getD j 0 < (dist.getD ((own.getD u []).getD i 0) []).getD j 0))
    ∧ (own.getD u [] = [] →
        ((unitReduce own labels dist nTest nullLabel).1.getD u []).getD j 0 = nullLabel ∧
        ∀ r j', (dist.getD r []).getD j' 0 < ((unitReduce own labels dist nTest nullLabel).2.getD u []).getD j 0) := by
  obtain ⟨h1, h2⟩ := unitReduce_getD own labels dist nTest nullLabel u j hu hj
  rw [h1, h2]
  constructor
  · intro hne
    obtain ⟨k, hk, hc, hmin, hfirst⟩ := cell_spec labels dist nullLabel (own.getD u []) j hne
    exact ⟨k, hk, by rw [hc], by rw [hc]; rfl, hmin, hfirst⟩
  · intro he
    rw [he, cell_nil]
    exact ⟨rfl, fun r j' => D_lt_big dist r j'⟩

/-- two units owning rows `{0, 2}` and `{1}`, a third unit owning nothing; one validation point -/
example : unitReduce [[0, 2], [1], []] [0, 1, 1] [[3], [2], [1]] 1 2 = ([[1], [1], [2]], [[1], [2], [4]]) := by
  simp [unitReduce, argminFirst, argminFirst.go]
  norm_num

/-! ### R4 -/

/-- **R4.** One validation point `j`, any order that weakly sorts the unit distances: the game the kernel
evaluates on the reduced data is a nearest-present-row game.  (`util`/`null` are the utility column and
the null score of point `j`; `nullLabel ≥ util.length` is the index of the null row.) -/
theorem C01_rows_point (own : List (List ℕ)) (labels : List ℕ) (dist : List (List ℚ))
    (nTest nullLabel j : ℕ) (hj : j < nTest) (util : List ℚ) (null : ℚ) (hnl : util.length ≤ nullLabel)
    (order : List ℕ)
    (hs : sortsWeakly (column (unitReduce own labels dist nTest nullLabel).2 j 0) order = true)
    (S : Finset (Fin own.length)) :
    ((∀ u ∈ S, own.getD u.val [] = []) →
      nnGameU own.length order (column (unitReduce own labels dist nTest nullLabel).1 j 0) util null S = null)
    ∧ ((∃ u ∈ S, own.getD u.val [] ≠ []) →
      ∃ u ∈ S, ∃ r ∈ own.getD u.val [],
        (∀ v ∈ S, ∀ r' ∈ own.getD v.val [], (dist.getD r []).getD j 0 ≤ (dist.getD r' []).getD j 0) ∧
        nnGameU own.length order (column (unitReduce own labels dist nTest nullLabel).1 j 0) util null S
          = util.getD (labels.getD r 0) null) := by
  rw [column_unitReduce_snd _ _ _ _ _ _ hj] at hs
  rw [column_unitReduce_fst _ _ _ _ _ _ hj]
  exact ⟨rows_game_none own labels dist nullLabel j util null hnl order hs S,
    rows_game_some own labels dist nullLabel j util null order hs S⟩

/-- **R4, distinct distances.** If the rows owned by units of `S` have pairwise distinct distances to point
`j`, the value is the utility of the label of THE nearest present row: of every row `r` owned by a unit of
`S` that is at least as close as all rows owned by units of `S`. -/
theorem C01_rows_point_distinct (own : List (List ℕ)) (labels : List ℕ) (dist : List (List ℚ))
    (nTest nullLabel j : ℕ) (hj : j < nTest) (util : List ℚ) (null : ℚ) (order : List ℕ)
    (hs : sortsWeakly (column (unitReduce own labels dist nTest nullLabel).2 j 0) order = true)
    (S : Finset (Fin own.length))
    (hdist : ∀ u ∈ S, ∀ v ∈ S, ∀ r ∈ own.getD u.val [], ∀ r' ∈ own.getD v.val [],
      (dist.getD r []).getD j 0 = (dist.getD r' []).getD j 0 → r = r')
    (u : Fin own.length) (hu : u ∈ S) (r : ℕ) (hr : r ∈ own.getD u.val [])
    (hmin : ∀ v ∈ S, ∀ r' ∈ own.getD v.val [], (dist.getD r []).getD j 0 ≤ (dist.getD r' []).getD j 0) :
    nnGameU own.length order (column (unitReduce own labels dist nTest nullLabel).1 j 0) util null S
      = util.getD (labels.getD r 0) null := by
  rw [column_unitReduce_snd _ _ _ _ _ _ hj] at hs
  rw [column_unitReduce_fst _ _ _ _ _ _ hj]
  obtain ⟨u₀, hu₀, r₀, hr₀, hmin₀, hval⟩ :=
    rows_game_some own labels dist nullLabel j util null order hs S ⟨u, hu, List.ne_nil_of_mem hr⟩
  have : r₀ = r := hdist u₀ hu₀ u hu r₀ hr₀ r hr (le_antisymm (hmin₀ u hu r hr) (hmin u₀ hu₀ r₀ hr₀))
  rw [hval, this]

/-- **R4, null players.** A unit that owns no row never changes the value of a coalition. -/
theorem C01_rows_null_player (own : List (List ℕ)) (labels : List ℕ) (dist : List (List ℚ))
    (nTest nullLabel j : ℕ) (hj : j < nTest) (util : List ℚ) (null : ℚ) (hnl : util.length ≤ nullLabel)
    (order : List ℕ)
    (hs : sortsWeakly (column (unitReduce own labels dist nTest nullLabel).2 j 0) order = true)
    (u : Fin own.length) (hu : own.getD u.val [] = []) (S : Finset (Fin own.length)) :
    nnGameU own.length order (column (unitReduce own labels dist nTest nullLabel).1 j 0) util null (insert u S)
      = nnGameU own.length order (column (unitReduce own labels dist nTest nullLabel).1 j 0) util null S := by
  rw [column_unitReduce_snd _ _ _ _ _ _ hj] at hs
  rw [column_unitReduce_fst _ _ _ _ _ _ hj]
  exact rows_game_null_player own labels dist nullLabel j util null hnl order hs u hu S

/-- … hence its Shapley value in that game is `0`. -/
theorem C01_rows_null_player_phi (own : List (List ℕ)) (labels : List ℕ) (dist : List (List ℚ))
    (nTest nullLabel j : ℕ) (hj : j < nTest) (util : List ℚ) (null : ℚ) (hnl : util.length ≤ nullLabel)
    (order : List ℕ)
    (hs : sortsWeakly (column (unitReduce own labels dist nTest nullLabel).2 j 0) order = true)
    (u : Fin own.length) (hu : own.getD u.val [] = []) :
    Sh.phi (nnGameU own.length order (column (unitReduce own labels dist nTest nullLabel).1 j 0) util null) u = 0 :=
  Sh.phi_null _ u (C01_rows_null_player own labels dist nTest nullLabel j hj util null hnl order hs u hu)

/-- the instance of R3's example: units `{0,2}`, `{1}`, `{}`; labels `0,1,1`; distances `3,2,1`; the
validation point rewards class 1.  The coalition `{unit 1}` sees row 1 (label 1): value 1;
`{unit 2}` sees no row: value = null score `1/2`. -/
example :
    nnGameU 3 [0, 1, 2] (column ([[1], [1], [2]] : List (List ℕ)) 0 0) [0, 1] (1/2) {1} = 1
    ∧ nnGameU 3 [0, 1, 2] (column ([[1], [1], [2]] : List (List ℕ)) 0 0) [0, 1] (1/2) {2} = 1/2 := by
  constructor
  · rw [C01_game_def, dif_pos (by decide)]
    simp [column]
  · rw [C01_game_def, dif_pos (by decide)]
    simp [column]

example : sortsWeakly (column ([[1], [2], [4]] : List (List ℚ)) 0 0) [0, 1, 2] = true := by
  simp [sortsWeakly, isPerm, column, List.range_succ]
  norm_num

/-! ### R5 -/

/-- the orders `mapfork` uses and the test it applies to supplied orders, verbatim -/
theorem C01_orders_def (ud : List (List ℚ)) (nb : ℕ) (os : List (List ℕ)) :
    ordersUsed ud nb none = (List.range nb).map (fun j => argsortStable (column ud j 0))
    ∧ ordersUsed ud nb (some os) = os
    ∧ ordersOK ud nb none = true
    ∧ ordersOK ud nb (some os)
        = (List.range nb).all (fun j => sortsWeakly (column ud j 0) (os.getD j [])) :=
  ⟨rfl, rfl, rfl, rfl⟩

/-- every order handed to the kernel weakly sorts its column of unit distances (so R4 applies) -/
theorem C01_rows_mapfork_sorted (ud : List (List ℚ)) (nb : ℕ) (orders : Option (List (List ℕ)))
    (h : ordersOK ud nb orders = true) (j : ℕ) (hj : j < nb) :
    sortsWeakly (column ud j 0) ((ordersUsed ud nb orders).getD j []) = true :=
  ordersUsed_sorts ud nb orders h j hj

/-- supplied orders that do not weakly sort the unit distances are rejected -/
theorem C01_rows_mapfork_bad_orders (p : Prov.P) (labels : List ℕ) (dist util : List (List ℚ))
    (nulls : List ℚ) (nb : ℕ) (orders : Option (List (List ℕ))) (own : List (List ℕ))
    (hown : rowsOf p = .ok own)
    (hbad : ordersOK (unitReduce own labels dist nb util.length).2 nb orders = false) :
    mapfork p false labels dist util nulls nb orders = .error Err.other := by
  rw [mapfork_nonsimple p labels dist util nulls nb orders own hown, hbad]
  rfl

/-- **R5.** `compute_shapley_1nn_mapfork` = Shapley value of the mean of the per-point games of R4. -/
theorem C01_rows_mapfork (p : Prov.P) (labels : List ℕ) (dist util : List (List ℚ))
    (nulls : List ℚ) (nb : ℕ) (orders : Option (List (List ℕ))) (own : List (List ℕ))
    (hown : rowsOf p = .ok own) (hN : nb ≤ nulls.length)
    (hok : ordersOK (unitReduce own labels dist nb util.length).2 nb orders = true) :
    ∃ L, mapfork p false labels dist util nulls nb orders = .ok L ∧ L.length = own.length ∧
      own.length = p.nUnits ∧
      ∀ u : Fin own.length, L.getD u.val 0
        = Sh.phi (fun S => (∑ j ∈ range nb,
            nnGameU own.length ((ordersUsed (unitReduce own labels dist nb util.length).2 nb orders).getD j [])
              (column (unitReduce own labels dist nb util.length).1 j 0)
              (column util j 0) (nulls.getD j 0) S) / (nb : ℚ)) u := by
  refine ⟨_, by rw [mapfork_nonsimple p labels dist util nulls nb orders own hown, if_pos hok],
    importances_length _ _ _ _ _, rowsOf_length p own hown, ?_⟩
  intro u
  apply importances_mapfork_phi own.length nb _ _ util nulls hN _ u
  intro j hj
  have := sortsWeakly_isPerm (ordersUsed_sorts _ nb orders hok j hj)
  rwa [column_unitReduce_snd _ _ _ _ _ _ hj, List.length_map] at this

/-- **R5, simple path** (`Provenance(units=n)`: unit `u` is row `u`). -/
theorem C01_rows_mapfork_simple (p : Prov.P) (labels : List ℕ) (dist util : List (List ℚ))
    (nulls : List ℚ) (nb : ℕ) (orders : Option (List (List ℕ)))
    (hdist : dist.length = labels.length) (hN : nb ≤ nulls.length) :
    (ordersOK dist nb orders = false → mapfork p true labels dist util nulls nb orders = .error Err.other)
    ∧ (ordersOK dist nb orders = true →
      ∃ L, mapfork p true labels dist util nulls nb orders = .ok L ∧ L.length = labels.length ∧
        ∀ u : Fin labels.length, L.getD u.val 0
          = Sh.phi (fun S => (∑ j ∈ range nb,
              nnGameU labels.length ((ordersUsed dist nb orders).getD j []) labels
                (column util j 0) (nulls.getD j 0) S) / (nb : ℚ)) u) := by
  constructor
  · intro hbad
    rw [mapfork_simple, hbad]; rfl
  · intro hok
    refine ⟨_, by rw [mapfork_simple, if_pos hok], importances_length _ _ _ _ _, ?_⟩
    intro u
    have key := importances_mapfork_phi labels.length nb
      (fun j => column (labels.map (fun l => List.replicate nb l)) j 0) (ordersUsed dist nb orders)
      util nulls hN (by
        intro j hj
        have := sortsWeakly_isPerm (ordersUsed_sorts _ nb orders hok j hj)
        rwa [column, List.length_map, hdist] at this) u
    rw [key]
    congr 1
    funext S
    congr 1
    apply Finset.sum_congr rfl
    intro j hj
    simp only [column_replicate labels nb j (Finset.mem_range.mp hj)]

/-- simple path, one point: the value of a non-empty coalition is the utility of the label of a row of
`S` of minimal distance -/
theorem C01_simple_point (labels : List ℕ) (dist : List (List ℚ)) (j : ℕ) (util : List ℚ) (null : ℚ)
    (hdist : dist.length = labels.length) (order : List ℕ)
    (hs : sortsWeakly (column dist j 0) order = true) (S : Finset (Fin labels.length)) (hS : S.Nonempty) :
    ∃ r ∈ S, (∀ r' ∈ S, (dist.getD r.val []).getD j 0 ≤ (dist.getD r'.val []).getD j 0) ∧
      nnGameU labels.length order labels util null S = util.getD (labels.getD r.val 0) null := by
  obtain ⟨r, hr, hval, hmin⟩ := consistent' (column dist j 0) labels.length (by simp [column, hdist]) order
    labels util null hs S hS
  refine ⟨r, hr, ?_, hval⟩
  intro r' hr'
  have := hmin r' hr'
  rwa [column, getD_map_lt' _ _ _ [] 0 (by rw [hdist]; exact r.isLt),
    getD_map_lt' _ _ _ [] 0 (by rw [hdist]; exact r'.isLt)] at this

/-- a map/fork provenance with three rows: rows 0 and 2 stem from unit 0, row 1 from unit 1 -/
def exProv : Prov.P := Prov.ofExprs [Prov.Expr.eq 0 1, Prov.Expr.eq 1 1, Prov.Expr.eq 0 1] 2

example : Prov.WellPadded exProv ∧ exProv.nConj = 1 ∧ exProv.nDisj = 1 ∧ exProv.nUnits = 2 := by decide
example : rowsOf exProv = .ok [[0, 2], [1]] := by decide

/-- labels `1,0,1`, distances `3,2,1` to the single validation point, which rewards class 1; null `1/2`:
unit 0 (nearest row 2, label 1, distance 1) and unit 1 (row 1, label 0, distance 2) get `3/4` and `-1/4` -/
example : mapfork exProv false [1, 0, 1] [[3], [2], [1]] [[0], [1]] [1/2] 1 none = .ok [3/4, -1/4] := by
  rw [mapfork_nonsimple exProv _ _ _ _ _ _ [[0, 2], [1]] (by decide)]
  have h1 : unitReduce [[0, 2], [1]] [1, 0, 1] [[3], [2], [1]] 1 2 = ([[1], [0]], [[1], [2]]) := by
    simp [unitReduce, argminFirst, argminFirst.go]
  have h2 : argsortStable [(1 : ℚ), 2] = [0, 1] := by
    simp [argsortStable, List.mergeSort, List.MergeSort.Internal.splitInTwo, List.range_succ]
  simp [h1, ordersOK, ordersUsed, column, h2, importances, pointAccum, scatterAdd, rankScores, aux,
    List.modify, List.replicate]
  norm_num

/-! ### map/fork provenances: "owned by a unit of `S`" = "present under `S`" -/

/-- For a well padded container with one literal per row, none testing candidate `0`: `rowsOf` succeeds
(`own[u]` = rows present when only unit `u` is on), and under the assignment that switches on exactly the
units of `S` (`indVec`), `query` reports present exactly the rows owned by some unit of `S`. -/
theorem C01_rows_present (p : Prov.P) (hp : Prov.WellPadded p) (hC : p.nConj = 1) (hD : p.nDisj = 1)
    (hcand : ∀ r ∈ p.data, ∀ c ∈ r, ∀ l ∈ c, l ≠ Prov.padLit → l.2 ≠ 0) (S : Finset (Fin p.nUnits)) :
    ∃ own idx, rowsOf p = .ok own ∧ own.length = p.nUnits ∧
      Prov.queryIdx p (indVec p.nUnits S) = .ok idx ∧
      ∀ i, i ∈ idx ↔ ∃ u ∈ S, i ∈ own.getD u.val [] := by
  have hown := rowsOf_wellPadded p hp
  obtain ⟨idx, h1, h2⟩ := rows_present p hp hC hD hcand _ hown S
  exact ⟨_, idx, hown, rowsOf_length p _ hown, h1, h2⟩

/-- the assignment vector of a coalition, verbatim: `1` for the units of `S`, `0` for the others -/
theorem C01_indVec_def (n : ℕ) (S : Finset (Fin n)) :
    indVec n S = (List.range n).map (fun w => if w ∈ S.image Fin.val then (1 : Int) else 0) := rfl

example : indVec 3 {0, 2} = [1, 0, 1] := by decide
example : Prov.queryIdx exProv (indVec 2 {0}) = .ok [0, 2] := by decide
example : rowsOf (Prov.default 3) = .ok [[0], [1], [2]] := by decide
example : ∀ r ∈ exProv.data, ∀ c ∈ r, ∀ l ∈ c, l ≠ Prov.padLit → l.2 ≠ 0 := by decide

/-! ### R6 -/

/-- **R6.** `_shapley_neighbor` with `K = 1`, one conjunct, one disjunct, `n_test > 0`, all validation
labels among the training labels: exactly one call of `compute_shapley_1nn_mapfork` on the encoded labels,
the whole distance matrix (cut to `n_test` columns) and the utility tables, `nb = n_test`; each entry of
its result `cur` is then stored as `0 + cur * n_test / n_test`. -/
theorem C01_score (B : ℕ) (p : Prov.P) (simple : Bool) (yTrain yTest : List Int) (dist : List (List ℚ))
    (u : UtilSpec) (orders : Option (List (List ℕ))) (util : List (List ℚ)) (nulls : List ℚ)
    (hD : p.nDisj = 1) (hC : p.nConj = 1) (hT : 0 < yTest.length) (hte : ∀ y ∈ yTest, y ∈ yTrain)
    (hU : utilMatrices u (Util.unique yTrain).length (yTest.map (Util.unique yTrain).idxOf) = .ok (util, nulls)) :
    score B p simple yTrain yTest dist 1 u orders
      = (mapfork p simple (yTrain.map (Util.unique yTrain).idxOf) (dist.map (fun row => row.take yTest.length))
            util nulls yTest.length orders).map
          (fun cur => List.zipWith (fun a c => a + c * ((yTest.length : ℕ) : ℚ) / ((yTest.length : ℕ) : ℚ))
            (List.replicate p.nUnits 0) cur) := by
  have := score_k1 B p simple yTrain yTest dist u orders _ _ util nulls (by omega) hC hT
    (encode_train yTrain) (encode_test yTrain yTest hte) hU
  simpa only [List.drop_zero] using this

/-- … and if that call returns a vector with one entry per unit, it is returned unchanged. -/
theorem C01_score_ok (B : ℕ) (p : Prov.P) (simple : Bool) (yTrain yTest : List Int) (dist : List (List ℚ))
    (u : UtilSpec) (orders : Option (List (List ℕ))) (util : List (List ℚ)) (nulls : List ℚ)
    (hD : p.nDisj = 1) (hC : p.nConj = 1) (hT : 0 < yTest.length) (hte : ∀ y ∈ yTest, y ∈ yTrain)
    (hU : utilMatrices u (Util.unique yTrain).length (yTest.map (Util.unique yTrain).idxOf) = .ok (util, nulls))
    (L : List ℚ) (hL : L.length = p.nUnits)
    (hm : mapfork p simple (yTrain.map (Util.unique yTrain).idxOf) (dist.map (fun row => row.take yTest.length))
            util nulls yTest.length orders = .ok L) :
    score B p simple yTrain yTest dist 1 u orders = .ok L := by
  rw [C01_score B p simple yTrain yTest dist u orders util nulls hD hC hT hte hU, hm]
  simp only [Except.map]
  rw [zipWith_zero_add L p.nUnits yTest.length hT hL]

/-- **R6 + R5.** The K=1 neighbor scores on a map/fork provenance are the Shapley values of the mean, over
the validation points, of the unit-level games of R4 (built from the encoded labels `yTr`, the utility
tables of `u` and the sort orders actually used). -/
theorem C01_score_shapley (B : ℕ) (p : Prov.P) (yTrain yTest : List Int) (dist : List (List ℚ))
    (u : UtilSpec) (orders : Option (List (List ℕ))) (util : List (List ℚ)) (nulls : List ℚ) (own : List (List ℕ))
    (hD : p.nDisj = 1) (hC : p.nConj = 1) (hT : 0 < yTest.length) (hte : ∀ y ∈ yTest, y ∈ yTrain)
    (hU : utilMatrices u (Util.unique yTrain).length (yTest.map (Util.unique yTrain).idxOf) = .ok (util, nulls))
    (hown : rowsOf p = .ok own) (hN : yTest.length ≤ nulls.length)
    (hok : ordersOK (unitReduce own (yTrain.map (Util.unique yTrain).idxOf)
        (dist.map (fun row => row.take yTest.length)) yTest.length util.length).2 yTest.length orders = true) :
    ∃ L, score B p false yTrain yTest dist 1 u orders = .ok L ∧ L.length = own.length ∧
      ∀ unit : Fin own.length, L.getD unit.val 0
        = Sh.phi (fun S => (∑ j ∈ range yTest.length,
            nnGameU own.length
              ((ordersUsed (unitReduce own (yTrain.map (Util.unique yTrain).idxOf)
                  (dist.map (fun row => row.take yTest.length)) yTest.length util.length).2
                yTest.length orders).getD j [])
              (column (unitReduce own (yTrain.map (Util.unique yTrain).idxOf)
                  (dist.map (fun row => row.take yTest.length)) yTest.length util.length).1 j 0)
              (column util j 0) (nulls.getD j 0) S) / (yTest.length : ℚ)) unit := by
  have key := C01_rows_mapfork p (yTrain.map (Util.unique yTrain).idxOf)
    (dist.map (fun row => row.take yTest.length)) util nulls yTest.length orders own hown hN
  obtain ⟨L, hm, hL, hn, hphi⟩ := key hok
  exact ⟨L, C01_score_ok B p false yTrain yTest dist u orders util nulls hD hC hT hte hU L (by rw [hL, hn]) hm,
    hL, hphi⟩

/-- **R6 + R5, simple path** (`Provenance(units=n)`, unit `u` = row `u`; `n` = number of training rows). -/
theorem C01_score_shapley_simple (B : ℕ) (p : Prov.P) (yTrain yTest : List Int) (dist : List (List ℚ))
    (u : UtilSpec) (orders : Option (List (List ℕ))) (util : List (List ℚ)) (nulls : List ℚ)
    (hD : p.nDisj = 1) (hC : p.nConj = 1) (hT : 0 < yTest.length) (hte : ∀ y ∈ yTest, y ∈ yTrain)
    (hU : utilMatrices u (Util.unique yTrain).length (yTest.map (Util.unique yTrain).idxOf) = .ok (util, nulls))
    (hunits : p.nUnits = yTrain.length) (hdist : dist.length = yTrain.length) (hN : yTest.length ≤ nulls.length)
    (hok : ordersOK (dist.map (fun row => row.take yTest.length)) yTest.length orders = true) :
    ∃ L, score B p true yTrain yTest dist 1 u orders = .ok L ∧ L.length = yTrain.length ∧
      ∀ unit : Fin (yTrain.map (Util.unique yTrain).idxOf).length, L.getD unit.val 0
        = Sh.phi (fun S => (∑ j ∈ range yTest.length,
            nnGameU (yTrain.map (Util.unique yTrain).idxOf).length
              ((ordersUsed (dist.map (fun row => row.take yTest.length)) yTest.length orders).getD j [])
              (yTrain.map (Util.unique yTrain).idxOf)
              (column util j 0) (nulls.getD j 0) S) / (yTest.length : ℚ)) unit := by
  have key := (C01_rows_mapfork_simple p (yTrain.map (Util.unique yTrain).idxOf)
    (dist.map (fun row => row.take yTest.length)) util nulls yTest.length orders (by simp [hdist]) hN).2
  obtain ⟨L, hm, hL, hphi⟩ := key hok
  rw [List.length_map] at hL
  exact ⟨L, C01_score_ok B p true yTrain yTest dist u orders util nulls hD hC hT hte hU L (by rw [hL, hunits]) hm,
    hL, hphi⟩

/-- **R6 + R5 + R4.** The K=1 neighbor scores on a map/fork provenance are the Shapley values of the mean
over the validation points `j` of games `g j` with: `g j S` = the null score of point `j` if no unit of `S`
owns a row, and otherwise the utility-table entry `util[c][j]` for the label code `c` of a training row
`r`, owned by a unit of `S`, of minimal distance to point `j` among all rows owned by units of `S`. -/
theorem C01_score_rows (B : ℕ) (p : Prov.P) (yTrain yTest : List Int) (dist : List (List ℚ))
    (u : UtilSpec) (orders : Option (List (List ℕ))) (util : List (List ℚ)) (nulls : List ℚ) (own : List (List ℕ))
    (hD : p.nDisj = 1) (hC : p.nConj = 1) (hT : 0 < yTest.length) (hte : ∀ y ∈ yTest, y ∈ yTrain)
    (hU : utilMatrices u (Util.unique yTrain).length (yTest.map (Util.unique yTrain).idxOf) = .ok (util, nulls))
    (hown : rowsOf p = .ok own) (hN : yTest.length ≤ nulls.length)
    (hok : ordersOK (unitReduce own (yTrain.map (Util.unique yTrain).idxOf)
        (dist.map (fun row => row.take yTest.length)) yTest.length util.length).2 yTest.length orders = true) :
    ∃ (L : List ℚ) (g : ℕ → Sh.Game own.length),
      score B p false yTrain yTest dist 1 u orders = .ok L ∧ L.length = own.length ∧
      (∀ unit : Fin own.length,
        L.getD unit.val 0 = Sh.phi (fun S => (∑ j ∈ range yTest.length, g j S) / (yTest.length : ℚ)) unit) ∧
      ∀ j, j < yTest.length → ∀ S : Finset (Fin own.length),
        ((∀ v ∈ S, own.getD v.val [] = []) → g j S = nulls.getD j 0)
        ∧ ((∃ v ∈ S, own.getD v.val [] ≠ []) →
          ∃ v ∈ S, ∃ r ∈ own.getD v.val [],
            (∀ w ∈ S, ∀ r' ∈ own.getD w.val [], (dist.getD r []).getD j 0 ≤ (dist.getD r' []).getD j 0) ∧
            g j S = (column util j 0).getD ((yTrain.map (Util.unique yTrain).idxOf).getD r 0) (nulls.getD j 0)) := by
  have key := C01_score_shapley B p yTrain yTest dist u orders util nulls own hD hC hT hte hU hown hN
  obtain ⟨L, hs, hL, hphi⟩ := key hok
  refine ⟨L, fun j => nnGameU own.length
      ((ordersUsed (unitReduce own (yTrain.map (Util.unique yTrain).idxOf)
          (dist.map (fun row => row.take yTest.length)) yTest.length util.length).2
        yTest.length orders).getD j [])
      (column (unitReduce own (yTrain.map (Util.unique yTrain).idxOf)
          (dist.map (fun row => row.take yTest.length)) yTest.length util.length).1 j 0)
      (column util j 0) (nulls.getD j 0), hs, hL, ?_, ?_⟩
  · intro unit
    beta_reduce
    exact hphi unit
  intro j hj S
  beta_reduce
  have hsort := ordersUsed_sorts _ yTest.length orders hok j hj
  have hcol : (column util j 0).length ≤ util.length := by simp [column]
  have key := C01_rows_point own (yTrain.map (Util.unique yTrain).idxOf)
    (dist.map (fun row => row.take yTest.length)) yTest.length util.length j hj
    (column util j 0) (nulls.getD j 0) hcol
  obtain ⟨hnone, hsome⟩ := key _ hsort S
  refine ⟨hnone, ?_⟩
  intro hex
  obtain ⟨v, hv, r, hr, hmin, hval⟩ := hsome hex
  refine ⟨v, hv, r, hr, ?_, hval⟩
  intro w hw r' hr'
  have := hmin w hw r' hr'
  have e1 := D_take dist yTest.length r j hj
  have e2 := D_take dist yTest.length r' j hj
  unfold D at e1 e2
  rwa [e1, e2] at this

/-- **R6, accuracy.** With `u = accuracy` the value `g j S` of a coalition in which some unit owns a row is
`1` or `0` according to whether the label of a training row `r`, owned by a unit of `S` and of minimal
distance to point `j` among all rows owned by units of `S`, equals `yTest[j]`; when no unit of `S` owns a
row it is the element-wise null score of point `j`. -/
theorem C01_score_accuracy (B : ℕ) (p : Prov.P) (yTrain yTest : List Int) (dist : List (List ℚ))
    (orders : Option (List (List ℕ))) (own : List (List ℕ))
    (hD : p.nDisj = 1) (hC : p.nConj = 1) (hT : 0 < yTest.length) (hte : ∀ y ∈ yTest, y ∈ yTrain)
    (hown : rowsOf p = .ok own) (hrows : ∀ u, ∀ r ∈ own.getD u [], r < yTrain.length)
    (hok : ordersOK (unitReduce own (yTrain.map (Util.unique yTrain).idxOf)
        (dist.map (fun row => row.take yTest.length)) yTest.length (Util.unique yTrain).length).2
        yTest.length orders = true) :
    ∃ (L : List ℚ) (g : ℕ → Sh.Game own.length),
      score B p false yTrain yTest dist 1 .accuracy orders = .ok L ∧ L.length = own.length ∧
      (∀ unit : Fin own.length,
        L.getD unit.val 0 = Sh.phi (fun S => (∑ j ∈ range yTest.length, g j S) / (yTest.length : ℚ)) unit) ∧
      ∀ j, j < yTest.length → ∀ S : Finset (Fin own.length),
        ((∀ v ∈ S, own.getD v.val [] = []) →
          g j S = (Util.accNullElem ((List.range (Util.unique yTrain).length).map Int.ofNat)
                    ((yTest.map (Util.unique yTrain).idxOf).map Int.ofNat)).getD j 0)
        ∧ ((∃ v ∈ S, own.getD v.val [] ≠ []) →
          ∃ v ∈ S, ∃ r ∈ own.getD v.val [],
            (∀ w ∈ S, ∀ r' ∈ own.getD w.val [], (dist.getD r []).getD j 0 ≤ (dist.getD r' []).getD j 0) ∧
            g j S = Util.ind (yTrain.getD r 0 == yTest.getD j 0)) := by
  have hU := utilMatrices_accuracy (Util.unique yTrain).length (yTest.map (Util.unique yTrain).idxOf)
  generalize hut : Util.accElem ((List.range (Util.unique yTrain).length).map Int.ofNat)
      ((yTest.map (Util.unique yTrain).idxOf).map Int.ofNat) = util at hU
  generalize hnu : Util.accNullElem ((List.range (Util.unique yTrain).length).map Int.ofNat)
      ((yTest.map (Util.unique yTrain).idxOf).map Int.ofNat) = nulls at hU
  have hlen : util.length = (Util.unique yTrain).length := by
    rw [← hut, Util.accElem_length]; simp
  have hN : yTest.length ≤ nulls.length := by
    rw [← hnu, accNullElem_length]; simp
  rw [← hlen] at hok
  have key := C01_score_rows B p yTrain yTest dist .accuracy orders util nulls own hD hC hT hte hU hown hN
  obtain ⟨L, g, hs, hL, hphi, hg⟩ := key hok
  refine ⟨L, g, hs, hL, hphi, ?_⟩
  intro j hj S
  obtain ⟨hnone, hsome⟩ := hg j hj S
  refine ⟨hnone, ?_⟩
  intro hex
  obtain ⟨v, hv, r, hr, hmin, hval⟩ := hsome hex
  refine ⟨v, hv, r, hr, hmin, ?_⟩
  rw [hval, ← hut]
  exact acc_entry yTrain yTest r j (hrows v.val r hr) hj hte _

/-- the example provenance (rows 0, 2 from unit 0; row 1 from unit 1), labels `9, 7, 9`, validation label
`9`, distances `3, 2, 1`: `_shapley_neighbor` with the accuracy utility returns `[1, 0]` (the nearest row
of unit 0 is row 2 with the right label at distance 1; unit 1 has the wrong label and is farther away) -/
example : score 1024 exProv false [9, 7, 9] [9] [[3], [2], [1]] 1 .accuracy none = .ok [1, 0] := by
  have hu : Util.unique [9, 7, 9] = [7, 9] := by
    simp [Util.unique, List.mergeSort, List.MergeSort.Internal.splitInTwo, List.eraseDups_cons]
  apply C01_score_ok 1024 exProv false [9, 7, 9] [9] [[3], [2], [1]] .accuracy none [[0], [1]] [0]
    (by decide) (by decide) (by decide) (by decide)
  · rw [hu]
    simp [utilMatrices, Util.accElem, Util.accNullElem, Util.ind, Util.mean, pure, Except.pure, List.range_succ]
    norm_num
  · rfl
  · rw [hu]
    rw [mapfork_nonsimple exProv _ _ _ _ _ _ [[0, 2], [1]] (by decide)]
    have h1 : unitReduce [[0, 2], [1]] [1, 0, 1] [[3], [2], [1]] 1 2 = ([[1], [0]], [[1], [2]]) := by
      simp [unitReduce, argminFirst, argminFirst.go]
    have h2 : argsortStable [(1 : ℚ), 2] = [0, 1] := by
      simp [argsortStable, List.mergeSort, List.MergeSort.Internal.splitInTwo, List.range_succ]
    simp [h1, ordersOK, ordersUsed, column, h2, importances, pointAccum, scatterAdd, rankScores, aux,
      List.modify, List.replicate]

end DsProofs.C01
