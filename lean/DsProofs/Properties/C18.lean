import DsProofs.UtilProofs

/-!
# C18 — results do not depend on how labels are represented (logic skeleton)

What these theorems say about the Python code (`_shapley_neighbor`: `np.unique` +
`LabelEncoder.transform`, and `SklearnModelAccuracy.elementwise_score / elementwise_null_score`;
modelled by `Ds.Util.unique`, `encode`, `accElem`, `accNullElem`, `accNull`, `Ds.Neighbor.score`).
`ρ : Int → Int` renames the labels (both training and validation labels are renamed).

Order-preserving renamings (`StrictMono ρ`, e.g. `0,1,2 ↦ 10,20,30`):
* `C18_unique_rename`: `np.unique` commutes with `ρ`: `unique (ys.map ρ) = (unique ys).map ρ`.
* `C18_encode_rename`: the code of a renamed label in the renamed class list is the code of the
  original label (needs only injectivity of `ρ`, given that the class list is `classes.map ρ`),
  including the `ValueError` for an unseen label; `C18_encode_all`: the whole encoded label vectors
  `yTr`, `yTe` computed by `_shapley_neighbor` are identical.
* `C18_score_rename`: hence the entire `_shapley_neighbor` model returns the identical result
  (scores or exception), for every utility spec, `K`, provenance and distance matrix.

Arbitrary injective renamings (possibly order-changing, e.g. swapping `0 ↔ 1`):
* `C18_acc_rename`: the element-wise accuracy table built from renamed classes and renamed validation
  labels, with the class list in the renamed order `cs.map ρ`, is literally the same table.
  Hypothesis: `ρ` injective.  Same for `accNullElem` (`C18_acc_null_rename`) and `accNull`
  (`C18_acc_null_score_rename`) — again with the class list `cs.map ρ`, i.e. classes visited in the
  same order.
* `C18_acc_rename_row`: if the class list is re-sorted after renaming (any list `cs'` containing the
  renamed label; in particular `unique` of the renamed training labels, `C18_acc_rename_unique`), the
  codes change by the induced permutation of classes and the rows of the table are permuted the same
  way: the row selected by the code of a training label — which is all the K=1 kernel reads — is
  unchanged.  Hypothesis: `ρ` injective.
* The element-wise NULL score, however, needs the order-preserving hypothesis when two classes tie for
  the minimal accuracy: it is the indicator of the FIRST such class in sorted order.
  `C18_acc_null_order_dependent` is a concrete instance: labels `[0,1]` on two validation points;
  after swapping the names the sorted class list is visited in the other order and the null vector
  moves from point 0 to point 1.  For order-preserving `ρ` the null vector is invariant
  (`C18_acc_null_rename_unique`).
-/

open Ds Ds.Util Ds.Neighbor

namespace DsProofs.C18

/-- **C18a.** `np.unique` commutes with an order-preserving renaming. -/
theorem C18_unique_rename (ρ : Int → Int) (hρ : StrictMono ρ) (ys : List Int) :
    unique (ys.map ρ) = (unique ys).map ρ :=
  unique_map ρ hρ ys

/-- **C18a.** Encoding a renamed label against the renamed class list gives the same code (or the same
`ValueError`).  Needs injectivity only. -/
theorem C18_encode_rename (ρ : Int → Int) (hρ : Function.Injective ρ) (classes : List Int) (y : Int) :
    encode (classes.map ρ) (ρ y) = encode classes y :=
  encode_map ρ hρ classes y

/-- the encoded label vectors that `_shapley_neighbor` computes are identical after an
order-preserving renaming -/
theorem C18_encode_all (ρ : Int → Int) (hρ : StrictMono ρ) (yTrain ys : List Int) :
    (ys.map ρ).mapM (encode (unique (yTrain.map ρ))) = ys.mapM (encode (unique yTrain)) := by
  rw [unique_map ρ hρ, mapM_encode_map ρ hρ.injective]

/-- **C18b.** The whole `_shapley_neighbor` model is invariant under order-preserving renaming. -/
theorem C18_score_rename (ρ : Int → Int) (hρ : StrictMono ρ) (B : Nat) (p : Prov.P) (simple : Bool)
    (yTrain yTest : List Int) (dist : List (List Rat)) (K : Nat) (u : UtilSpec)
    (orders : Option (List (List Nat))) :
    score B p simple (yTrain.map ρ) (yTest.map ρ) dist K u orders
      = score B p simple yTrain yTest dist K u orders := by
  unfold score
  simp only [unique_map ρ hρ, mapM_encode_map ρ hρ.injective, List.length_map]

/-- **C18c.** Accuracy table: any injective renaming, class list in the renamed order. -/
theorem C18_acc_rename (ρ : Int → Int) (hρ : Function.Injective ρ) (cs ys : List Int) :
    accElem (cs.map ρ) (ys.map ρ) = accElem cs ys :=
  accElem_map ρ hρ cs ys

theorem C18_acc_null_rename (ρ : Int → Int) (hρ : Function.Injective ρ) (cs ys : List Int) :
    accNullElem (cs.map ρ) (ys.map ρ) = accNullElem cs ys :=
  accNullElem_map ρ hρ cs ys

theorem C18_acc_null_score_rename (ρ : Int → Int) (hρ : Function.Injective ρ) (cs ys : List Int) :
    accNull (cs.map ρ) (ys.map ρ) = accNull cs ys :=
  accNull_map ρ hρ cs ys

/-- **C18c (up to the induced permutation of classes).** Whatever the order of the new class list `cs'`,
the row selected by the code of a (renamed) label is the row the original label selected. -/
theorem C18_acc_rename_row (ρ : Int → Int) (hρ : Function.Injective ρ) (cs cs' yT : List Int) (y : Int)
    (hy : y ∈ cs) (hy' : ρ y ∈ cs') :
    (accElem cs' (yT.map ρ)).getD (cs'.idxOf (ρ y)) [] = (accElem cs yT).getD (cs.idxOf y) [] := by
  rw [accElem_row cs' _ _ hy', accElem_row cs _ _ hy, List.map_map]
  apply List.map_congr_left
  intro t _
  exact ind_beq_map ρ hρ y t

/-- the same with the class lists the code actually uses: `np.unique` of the (renamed) training labels -/
theorem C18_acc_rename_unique (ρ : Int → Int) (hρ : Function.Injective ρ) (yTrain yT : List Int) (y : Int)
    (hy : y ∈ yTrain) :
    (accElem (unique (yTrain.map ρ)) (yT.map ρ)).getD ((unique (yTrain.map ρ)).idxOf (ρ y)) []
      = (accElem (unique yTrain) yT).getD ((unique yTrain).idxOf y) [] :=
  C18_acc_rename_row ρ hρ _ _ yT y ((mem_unique _ _).mpr hy)
    ((mem_unique _ _).mpr (List.mem_map.mpr ⟨y, hy, rfl⟩))

/-- for an order-preserving renaming the null vector (with the real, re-sorted class list) is invariant -/
theorem C18_acc_null_rename_unique (ρ : Int → Int) (hρ : StrictMono ρ) (yTrain yT : List Int) :
    accNullElem (unique (yTrain.map ρ)) (yT.map ρ) = accNullElem (unique yTrain) yT := by
  rw [unique_map ρ hρ, accNullElem_map ρ hρ.injective]

/-- the order-preserving hypothesis cannot be dropped for the null vector: swapping the names of two
tied classes moves the null indicator to the other validation point -/
theorem C18_acc_null_order_dependent :
    let ρ : Int → Int := fun x => 1 - x
    accNullElem (unique [0, 1]) [0, 1] = [1, 0]
      ∧ accNullElem (unique ([0, 1].map ρ)) ([0, 1].map ρ) = [0, 1] := by
  simp [unique, List.mergeSort, List.eraseDups_cons, accNullElem, mean, ind]

/-! ### Examples -/

example : unique [3, 1, 3, 2, 1] = [1, 2, 3] := by
  simp [unique, List.mergeSort, List.eraseDups_cons]

example : unique ([3, 1, 3, 2, 1].map (fun x => 10 * x)) = (unique [3, 1, 3, 2, 1]).map (fun x => 10 * x) :=
  C18_unique_rename _ (fun a b h => by show 10 * a < 10 * b; omega) _

example : encode [10, 20, 30] 20 = .ok 1 := by decide
example : encode [1, 2, 3] 2 = .ok 1 := by decide

end DsProofs.C18
