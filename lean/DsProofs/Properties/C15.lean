import DsProofs.BruteProofs
import DsProofs.MCProofs

/-!
# C15 — two layers of exception handling (logic skeleton)

A coalition evaluation passes through two handlers before its score is used:
layer 1 is `SklearnModelUtility.__call__` (`try … except (ValueError, RuntimeWarning): return null_score`,
model: `Ds.Outcome.layer1`), layer 2 is the `try … except (ValueError, RuntimeWarning, UserWarning): pass`
around the utility call in both scoring loops (model: `Ds.Outcome.caught`, `none` = the exception
propagates out of the scoring method).

* `C15_layer1`: layer 1 turns `ValueError` and `RuntimeWarning` into the score `null`, and leaves every
  other outcome (a score, `UserWarning`, any other exception) unchanged.
* `C15_handled`: a score, `ValueError`, `RuntimeWarning` and `UserWarning` never raise out of layer 2;
  a score `s` comes out as `s`, the three failure kinds come out as the null score.
* `C15_escape`: any other exception class propagates through both layers, and it is the only thing
  that does.
* `C15_scores_defined` / `C15_run_defined`: if no coalition evaluation raises an exception outside the
  handled classes, the enumeration method returns a vector of `n` scores, and the Monte-Carlo method
  with at least one permutation returns a (non-NaN) vector of `n` scores, whatever the clock readings
  and truncation parameters.
-/

open Ds BruteP MCP

theorem C15_layer1 (null : ℚ) :
    Outcome.valueError.layer1 null = .ok null ∧
    Outcome.runtimeWarning.layer1 null = .ok null ∧
    ∀ o : Outcome, o ≠ .valueError → o ≠ .runtimeWarning → o.layer1 null = o := by
  refine ⟨rfl, rfl, ?_⟩
  intro o h1 h2
  cases o <;> first | rfl | exact absurd rfl h1 | exact absurd rfl h2

theorem C15_handled (null : ℚ) :
    (∀ s : ℚ, ((Outcome.ok s).layer1 null).caught null = some s) ∧
    (Outcome.valueError.layer1 null).caught null = some null ∧
    (Outcome.runtimeWarning.layer1 null).caught null = some null ∧
    (Outcome.userWarning.layer1 null).caught null = some null ∧
    ∀ o : Outcome, o ≠ .other → ∃ s, (o.layer1 null).caught null = some s := by
  refine ⟨fun _ => rfl, rfl, rfl, rfl, ?_⟩
  intro o ho
  cases o
  · exact ⟨_, rfl⟩
  · exact ⟨_, rfl⟩
  · exact ⟨_, rfl⟩
  · exact ⟨_, rfl⟩
  · exact absurd rfl ho

theorem C15_escape (null : ℚ) :
    Outcome.other.layer1 null = .other ∧
    (Outcome.other.layer1 null).caught null = none ∧
    ∀ o : Outcome, (o.layer1 null).caught null = none ↔ o = .other := by
  refine ⟨rfl, rfl, ?_⟩
  intro o
  cases o <;> simp [Outcome.layer1, Outcome.caught]

/-- enumeration method: defined whenever no raw evaluation raises an unhandled exception -/
theorem C15_scores_defined (n : ℕ) (raw : List ℕ → Outcome) (null : ℚ)
    (h : ∀ a ∈ Ds.allAssign n, raw a ≠ .other) :
    ∃ L : List ℚ, Brute.scores n (fun a => (raw a).layer1 null) null = some L ∧ L.length = n := by
  have h' : ∀ a ∈ Ds.allAssign n, (raw a).layer1 null ≠ .other := by
    intro a ha hc
    have := ((C15_escape null).2.2 (raw a)).mp (by rw [hc]; rfl)
    exact h a ha this
  exact ⟨_, scores_some n _ null h', by simp⟩

/-- Monte-Carlo method: defined (and not NaN) whenever at least one permutation is drawn and no raw
evaluation of a 0/1 query raises an unhandled exception -/
theorem C15_run_defined (n : ℕ) (raw : List Int → Outcome) (null mean : ℚ) (pr : MC.Params)
    (perms : List (List ℕ)) (clock : List ℚ) (hp : perms ≠ [])
    (h : ∀ q, IsQuery n q → raw q ≠ .other) :
    ∃ L : List ℚ, MC.run n (fun q => (raw q).layer1 null) null mean pr perms clock = some (some L) ∧
      L.length = n := by
  have h' : ∀ q, IsQuery n q → (raw q).layer1 null ≠ .other := by
    intro q hq hc
    have := ((C15_escape null).2.2 (raw q)).mp (by rw [hc]; rfl)
    exact h q hq this
  rw [run_eq h', average_of_ne_nil n (keep_ne_nil _ (by simpa using hp))]
  exact ⟨_, rfl, by simp [avgP]⟩

/-- non-vacuity of `C15_scores_defined`: a table with all three handled failure kinds -/
example : ∃ L : List ℚ,
    Brute.scores 2 (fun a => (if a = [0, 1] then Outcome.valueError else if a = [1, 0] then .runtimeWarning
      else if a = [1, 1] then .userWarning else .ok 1).layer1 0) 0 = some L := by
  obtain ⟨L, hL, _⟩ := C15_scores_defined 2 (fun a => if a = [0, 1] then Outcome.valueError
    else if a = [1, 0] then .runtimeWarning else if a = [1, 1] then .userWarning else .ok 1) 0 (by decide)
  exact ⟨L, hL⟩

/-- and the unhandled class does make the method raise -/
example : Brute.scores 2 (fun a => (if a = [0, 1] then Outcome.other else .ok 1).layer1 0) 0 = none := by
  decide +kernel
