import DsProofs.ProvProofs

/-!
# C12 — fork, indexing and join act row-wise; default and group-id containers

About `Provenance.fork` (model `fork`: `np.repeat` along the row axis), `__getitem__` with a slice /
index array / mask (model `select`), `Provenance(units=n)` (model `default`), `Provenance(data=ids)`
(model `ofGroups`, after fix F8) and the *specified* `join` (model `join`; the library's own `join` is
broken, finding F10).  `query` is `Provenance.query`; a "mask" is its boolean result.

* `C12_fork`: whenever `query p vals` succeeds with mask `m`, the query on `fork p sizes` succeeds and
  its mask is `m` with entry `i` repeated `sizes[i]` times (in order); a vector of the wrong length is
  rejected with `ValueError` as before.  `C12_fork_map` is the same statement as one equation
  `query (fork p sizes) vals = (query p vals).map …` for a well padded `p`.
* `C12_select`, `C12_select_map`: the same for row selection — the mask of `p[idx]` is the mask of `p`
  read at the positions `idx` (positions past the end are skipped, as the model's `select` does).
* `C12_default`: for ANY integer vector of length `n` the mask of `Provenance(units=n)` (two candidates)
  is `vals[i] == 1` for row `i`; `C12_default_cands`: with `k` candidates there is one row per unit and
  candidate `c = 1 … k-1`, present iff `vals[unit] == c`.
* `C12_groups`: for arbitrary integer group ids the row of a tuple with id `g` is present iff
  `g ≠ -1` and the assignment gives candidate 1 to the unit at position `idxOf g` in the sorted distinct
  id list (`uniqueIds`) — the ids' numeric values play no other role (`C12_groups_cands` for `k`
  candidates).  `C12_groups_units`: the container has one unit per distinct id `≠ -1`, every such id has
  a position `<` that number, and two ids share a position only if they are equal.
* `C12_join`: for well padded `p`, `q` (any mixture of formula sizes, including rows that carry
  all-padding disjuncts), `join p q` is well padded and its mask under the concatenated assignment
  `a ++ b` is `x && y` for `x` over the mask of `p` under `a` and `y` over the mask of `q` under `b`, in
  row-major pair order.  `C12_join_sem`: the same in terms of the rows' truth values, together with the
  unit count and row count of the join.
* `C12_wellPadded`: `fork`, `select`, `join`, `ofGroups` (ids `≠ -1`), `default` produce / preserve
  well padded containers (so that C05 applies to their results).
-/

namespace DsProofs.C12
open Ds Ds.Prov

theorem C12_fork (p : P) (sizes : List Nat) (vals : List Int) :
    (∀ m, query p vals = .ok m →
      query (fork p sizes) vals = .ok ((m.zip sizes).flatMap (fun bs => List.replicate bs.2 bs.1))) ∧
    (vals.length ≠ p.nUnits → query (fork p sizes) vals = .error Err.valueError) :=
  ⟨fun m h => query_fork p sizes vals m h, fun h => query_wrong_length (fork p sizes) vals h⟩

theorem C12_fork_map (p : P) (sizes : List Nat) (vals : List Int) (hp : WellPadded p)
    (hpos : ∀ v ∈ vals, 0 ≤ v) :
    query (fork p sizes) vals =
      (query p vals).map (fun m => (m.zip sizes).flatMap (fun bs => List.replicate bs.2 bs.1)) := by
  by_cases hl : vals.length = p.nUnits
  · rw [query_fork p sizes vals _ (query_ok p vals hp hl hpos), query_ok p vals hp hl hpos]; rfl
  · rw [query_wrong_length p vals hl, query_wrong_length (fork p sizes) vals hl]; rfl

theorem C12_select (p : P) (idx : List Nat) (vals : List Int) :
    (∀ m, query p vals = .ok m → query (select p idx) vals = .ok (idx.filterMap (fun i => m[i]?))) ∧
    (vals.length ≠ p.nUnits → query (select p idx) vals = .error Err.valueError) :=
  ⟨fun m h => query_select p idx vals m h, fun h => query_wrong_length (select p idx) vals h⟩

theorem C12_select_map (p : P) (idx : List Nat) (vals : List Int) (hp : WellPadded p)
    (hpos : ∀ v ∈ vals, 0 ≤ v) :
    query (select p idx) vals = (query p vals).map (fun m => idx.filterMap (fun i => m[i]?)) := by
  by_cases hl : vals.length = p.nUnits
  · rw [query_select p idx vals _ (query_ok p vals hp hl hpos), query_ok p vals hp hl hpos]; rfl
  · rw [query_wrong_length p vals hl, query_wrong_length (select p idx) vals hl]; rfl

theorem C12_default (n : Nat) (vals : List Int) (hlen : vals.length = n) :
    query (default n) vals = .ok (vals.map (· == 1)) :=
  query_default_two n vals hlen

theorem C12_default_cands (n k : Nat) (vals : List Int) (hlen : vals.length = n) :
    query (default n k) vals =
      .ok ((List.range n).flatMap (fun i => (List.range (k - 1)).map (fun (c : Nat) =>
        vals.getD i 0 == ((c : Int) + 1)))) :=
  query_default n k vals hlen

theorem C12_groups_cands (ids : List Int) (k : Nat) (vals : List Int)
    (hlen : vals.length = (uniqueIds ids).length) :
    query (ofGroups ids k) vals =
      .ok (ids.flatMap (fun g => (List.range (k - 1)).map (fun (c : Nat) =>
        g != -1 && vals.getD ((uniqueIds ids).idxOf g) 0 == ((c : Int) + 1)))) :=
  query_ofGroups ids k vals hlen

theorem C12_groups (ids : List Int) (vals : List Int) (hlen : vals.length = (uniqueIds ids).length) :
    query (ofGroups ids) vals =
      .ok (ids.map (fun g => g != -1 && vals.getD ((uniqueIds ids).idxOf g) 0 == 1)) := by
  rw [query_ofGroups ids 2 vals hlen]
  simp [flatMap_single]

theorem C12_groups_units (ids : List Int) (k : Nat) :
    (ofGroups ids k).nUnits = (uniqueIds ids).length ∧
    (∀ g, g ∈ uniqueIds ids ↔ g ∈ ids ∧ g ≠ -1) ∧
    (∀ g ∈ ids, g ≠ -1 → (uniqueIds ids).idxOf g < (uniqueIds ids).length) ∧
    (∀ g ∈ ids, ∀ g' ∈ ids, g ≠ -1 → g' ≠ -1 →
      (uniqueIds ids).idxOf g = (uniqueIds ids).idxOf g' → g = g') :=
  ⟨rfl, mem_uniqueIds ids,
    fun g hg h => List.idxOf_lt_length_of_mem ((mem_uniqueIds ids g).mpr ⟨hg, h⟩),
    fun g hg g' hg' h h' he =>
      idxOf_inj_of_mem ((mem_uniqueIds ids g).mpr ⟨hg, h⟩) ((mem_uniqueIds ids g').mpr ⟨hg', h'⟩) he⟩

theorem C12_join (p q : P) (a b : List Int) (ma mb : List Bool)
    (hp : WellPadded p) (hq : WellPadded q)
    (hapos : ∀ v ∈ a, 0 ≤ v) (hbpos : ∀ v ∈ b, 0 ≤ v)
    (hma : query p a = .ok ma) (hmb : query q b = .ok mb) :
    WellPadded (join p q) ∧
    query (join p q) (a ++ b) = .ok (ma.flatMap (fun x => mb.map (fun y => x && y))) := by
  refine ⟨wellPadded_join hp hq, ?_⟩
  have ha : a.length = p.nUnits := by
    by_cases h : a.length = p.nUnits
    · exact h
    · rw [query_wrong_length p a h] at hma; cases hma
  have hb : b.length = q.nUnits := by
    by_cases h : b.length = q.nUnits
    · exact h
    · rw [query_wrong_length q b h] at hmb; cases hmb
  rw [query_ok p a hp ha hapos] at hma
  rw [query_ok q b hq hb hbpos] at hmb
  cases hma; cases hmb
  rw [query_join hp hq a b ha hb hapos hbpos, List.flatMap_map]
  simp only [List.map_map]
  rfl

/-- the same in terms of the rows' truth values, with the shape of the result -/
theorem C12_join_sem (p q : P) (a b : List Int) (hp : WellPadded p) (hq : WellPadded q)
    (ha : a.length = p.nUnits) (hb : b.length = q.nUnits)
    (hapos : ∀ v ∈ a, 0 ≤ v) (hbpos : ∀ v ∈ b, 0 ≤ v) :
    query (join p q) (a ++ b) =
      .ok (p.data.flatMap (fun r => q.data.map (fun s =>
        rowSem (a.map Int.toNat) r && rowSem (b.map Int.toNat) s))) ∧
    (join p q).nUnits = p.nUnits + q.nUnits ∧ (join p q).data.length = p.data.length * q.data.length := by
  refine ⟨query_join hp hq a b ha hb hapos hbpos, rfl, ?_⟩
  rw [join_data]
  generalize p.data = D
  induction D with
  | nil => simp
  | cons r rs ih =>
    simp only [List.flatMap_cons, List.length_append, List.length_map, List.length_cons, ih]
    rw [Nat.add_mul, Nat.one_mul, Nat.add_comm]

/-- `p = [x0==1, (x0==1)|(x0==0)]` (row 0 carries an all-padding disjunct), `q = [y0==1]`, assignment
`x0 = 0, y0 = 1`: the pair (padding disjunct, `y0==1`) stays padding, row 0 of the join is absent.
(With a join that merely concatenated every disjunct pair this row was reported present.) -/
example :
    let p := ofExprs [Expr.eq 0 1, (Expr.eq 0 1).or (Expr.eq 0 0)] 1
    let q := ofExprs [Expr.eq 0 1] 1
    query p [0] = .ok [false, true] ∧ query q [1] = .ok [true] ∧
    query (join p q) [0, 1] = .ok [false, true] := by
  decide

theorem C12_wellPadded (p q : P) (hp : WellPadded p) (hq : WellPadded q) (sizes idx : List Nat)
    (ids : List Int) (hids : ∀ g ∈ ids, g ≠ -1) (n k : Nat) :
    WellPadded (fork p sizes) ∧ WellPadded (select p idx) ∧ WellPadded (join p q) ∧
    WellPadded (ofGroups ids k) ∧ WellPadded (default n k) :=
  ⟨wellPadded_fork hp sizes, wellPadded_select hp idx, wellPadded_join hp hq,
    wellPadded_ofGroups ids k hids, wellPadded_default n k⟩

/-! ### examples -/

/-- group ids `5, 7, 5, -3` are translated to positions `1, 2, 1, 0` -/
theorem exUnique : uniqueIds [5, 7, 5, -3] = [-3, 5, 7] := by
  simp [uniqueIds, List.mergeSort, List.eraseDups, List.eraseDupsBy, List.eraseDupsBy.loop]

example : query (ofGroups [5, 7, 5, -3]) [0, 1, 0] = .ok [true, false, true, false] := by
  rw [C12_groups _ _ (by rw [exUnique]; rfl), exUnique]; decide
example : query (fork (default 2) [2, 0]) [1, 1] = .ok [true, true] := by decide
example : query (select (default 3) [2, 0]) [1, 0, 0] = .ok [false, true] := by decide
example : query (join (default 2) (default 1)) [1, 0, 1] = .ok [true, false] := by decide

end DsProofs.C12
