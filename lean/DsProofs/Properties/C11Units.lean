import DsProofs.UnitsProofs

/-!
# C11 (registry part) — `Units`: what `Equality.data` stores, `Equality.from_data` reads back

Property C11 says: storing any list of expressions in a provenance container and reading row `i`
back yields an expression with the same truth table.  What the container stores for a literal
`units[key] == value` is `data = (position of key in units._units, index of value in
units._candidates)`; what it reads back goes through `Equality.from_data(data, units)`.  The array part
of the round trip is in `Properties/C11.lean`; this file is about the registry
`datascope/utility/provenance.py:Units` (model: `Ds.Units`; the dictionaries `units_index` /
`candidates_index` are rendered as `List.idxOf` on the lists `_units` / `_candidates`).

* `Inv u` (`DsProofs.Units.Inv`) = no key and no candidate is listed twice = "the index dictionaries
  are consistent with the lists".  A *history* is a list of `Op`s: `mention k` (`units[k]`, a failed
  lookup changes nothing), `eq k v` (`units[k] == v`, whatever it returns or raises), `union o`
  (`units.union(o)`); `step` performs one of them.
* U1 `C11_units_inv`: `Units(units=us, candidates=cs)` satisfies `Inv` when the given lists have no
  duplicates (in particular `Units()`); `units[k]`, `units[k] == v` (also when it raises), `union`
  (whatever the other registry is) keep `Inv`; `prefix` keeps it when the prefix map is injective.
  `C11_units_history`: hence `Inv` holds after every history.
* U2 `C11_units_roundtrip`: if `units[k] == v` succeeds with `data = d`, then
  `from_data(d)` on the registry afterwards is `(k, v)`, and `d` is the ONLY pair decoding to `(k, v)`.
  `C11_units_roundtrip_later`: both facts stay true after any further history.
  `C11_units_positions_stable`: after any history the old lists are prefixes of the new ones and the
  position (`idxOf`) of every key / candidate that already existed is unchanged; the frozen flags are
  never reset.
* U3 `C11_units_first_mention`: from `Units(candidates=cs)` / `Units()` (lazily growing units),
  mentioning `ks` in order makes `_units` the list of first occurrences (`ks.eraseDups`, which has no
  duplicates and the same members as `ks`), and the position of `k` is the number of distinct keys
  mentioned before its first mention.
* U4 `C11_units_frozen`: with `_units_frozen`, `units[k]` raises `KeyError` iff `k` is not listed,
  returns the registry untouched otherwise, and `units[k] == v` never changes the unit list; with
  `_candidates_frozen`, `units[k] == v` never changes the candidate list, and for a new `v` the model
  does exactly: `ValueError` with `u` untouched if `k` is listed; `KeyError` with `u` untouched if `k`
  is new and the units are frozen; `ValueError` but with `k` APPENDED if `k` is new and the units
  are not frozen.  Neither operation ever changes a flag.
* U5 `C11_units_fromData_total`: `from_data(d)` succeeds iff both entries of `d` are in range (and
  then returns the listed key and value), and raises `IndexError` otherwise.
* U6 `C11_units_union`: for registries satisfying `Inv`, `u.union(o)` satisfies `Inv`, keeps `u`'s
  lists as prefixes (so every key / candidate of `u` stays at its position), appends exactly the
  keys / candidates of `o` that `u` does not have, in `o`'s order (a new key lands at
  `len(u) + its rank among the new ones`), contains exactly the keys of both, and or-s the frozen flags.
-/

namespace DsProofs.C11Units
open Ds Ds.Units DsProofs.Units

/-! ## U1 — the invariant -/

theorem C11_units_inv_mk (us cs : Option (List Int))
    (hu : ∀ l, us = some l → l.Nodup) (hc : ∀ l, cs = some l → l.Nodup) : Inv (mk us cs) := by
  constructor
  · cases us with
    | none => exact List.nodup_nil
    | some l => exact hu l rfl
  · cases cs with
    | none => exact List.nodup_nil
    | some l => exact hc l rfl

theorem C11_units_inv :
    (∀ us cs : Option (List Int), (∀ l, us = some l → l.Nodup) → (∀ l, cs = some l → l.Nodup) →
        Inv (mk us cs)) ∧
    Inv (mk none none) ∧
    (∀ (u u1 : U) (k : Int), Inv u → getItem u k = .ok u1 → Inv u1) ∧
    (∀ (u : U) (k v : Int), Inv u → Inv (eqPred u k v).1) ∧
    (∀ (u u' : U) (k v : Int) (d : Nat × Nat), Inv u → eqPred u k v = (u', .ok d) →
        Inv u' ∧ d.1 < u'.keys.length ∧ d.2 < u'.cands.length) ∧
    (∀ u o : U, Inv u → Inv (union u o)) ∧
    (∀ (u : U) (f : Int → Int), (∀ a b, f a = f b → a = b) → Inv u → Inv (prefixWith u f)) := by
  refine ⟨C11_units_inv_mk, C11_units_inv_mk none none (fun _ h => by cases h) (fun _ h => by cases h),
    fun u u1 k hI h => inv_getItem hI h, fun u k v hI => inv_eqPred k v hI, ?_,
    fun u o hI => inv_union o hI, fun u f hf hI => inv_prefixWith hf hI⟩
  intro u u' k v d hI h
  have hI' : Inv u' := by
    have := inv_eqPred k v hI
    rwa [h] at this
  obtain ⟨rfl, rfl, _, _⟩ := eqPred_ok h
  exact ⟨hI', List.idxOf_lt_length_of_mem (self_mem_addNew _ _),
    List.idxOf_lt_length_of_mem (self_mem_addNew _ _)⟩

example : Inv (mk (some [3, 1, 2]) none) ∧ ¬ Inv (mk (some [3, 1, 3]) none) := by decide
example : Inv (eqPred (mk (some [3, 1, 2]) none) 1 9).1 ∧
    Inv (eqPred (mk (some [3, 1, 2]) (some [0, 1])) 1 9).1 := by decide
example : Inv (prefixWith (mk (some [3, 1, 2]) none) (· + 100)) := by decide

theorem C11_units_history (u : U) (ops : List Op) (hI : Inv u) : Inv (ops.foldl step u) :=
  inv_run ops hI

example : Inv ([Op.eq 5 7, .mention 5, .union (mk (some [3, 5, 4]) (some [7, 0])), .eq 9 0, .eq 3 8].foldl
    step (mk none none)) := by decide

/-! ## U2 — the round trip `data` → `from_data` -/

theorem C11_units_roundtrip {u u' : U} {k v : Int} {d : Nat × Nat} (hI : Inv u)
    (h : eqPred u k v = (u', .ok d)) :
    fromData u' d = .ok (k, v) ∧ ∀ d', fromData u' d' = .ok (k, v) ↔ d' = d := by
  have hI' : Inv u' := by
    have := inv_eqPred k v hI
    rwa [h] at this
  obtain ⟨rfl, rfl, _, _⟩ := eqPred_ok h
  have h1 : fromData { u with keys := addNew u.keys k, cands := addNew u.cands v }
      ((addNew u.keys k).idxOf k, (addNew u.cands v).idxOf v) = .ok (k, v) :=
    fromData_idxOf (u := { u with keys := addNew u.keys k, cands := addNew u.cands v })
      (self_mem_addNew _ _) (self_mem_addNew _ _)
  refine ⟨h1, fun d' => ?_⟩
  rw [fromData_eq_ok_iff_of_inv hI']
  constructor
  · exact fun h => h.2
  · intro h; exact ⟨⟨self_mem_addNew _ _, self_mem_addNew _ _⟩, h⟩

example : eqPred (mk (some [3, 1, 2]) none) 1 9 = (⟨[3, 1, 2], [9], true, false⟩, .ok (1, 0)) ∧
    fromData ⟨[3, 1, 2], [9], true, false⟩ (1, 0) = .ok (1, 9) := by decide

theorem C11_units_positions_stable (u : U) (ops : List Op) :
    u.keys <+: (ops.foldl step u).keys ∧ u.cands <+: (ops.foldl step u).cands ∧
    (∀ k ∈ u.keys, (ops.foldl step u).keys.idxOf k = u.keys.idxOf k) ∧
    (∀ v ∈ u.cands, (ops.foldl step u).cands.idxOf v = u.cands.idxOf v) ∧
    (∀ d kv, fromData u d = .ok kv → fromData (ops.foldl step u) d = .ok kv) ∧
    (u.frozenU = true → (ops.foldl step u).frozenU = true) ∧
    (u.frozenC = true → (ops.foldl step u).frozenC = true) := by
  have hE := ext_run u ops
  exact ⟨hE.1, hE.2, fun k hk => idxOf_of_prefix hE.1 hk, fun v hv => idxOf_of_prefix hE.2 hv,
    fun d kv h => fromData_of_ext hE h, frozen_run u ops⟩

example : ([Op.eq 5 7, .union (mk (some [3, 5, 4]) none), .eq 9 0].foldl step (mk (some [1, 2]) none)).keys
    = [1, 2, 3, 5, 4] := by decide

theorem C11_units_roundtrip_later {u u' : U} {k v : Int} {d : Nat × Nat} (hI : Inv u)
    (h : eqPred u k v = (u', .ok d)) (ops : List Op) :
    fromData (ops.foldl step u') d = .ok (k, v) ∧
    ∀ d', fromData (ops.foldl step u') d' = .ok (k, v) ↔ d' = d := by
  have hI' : Inv u' := by
    have := inv_eqPred k v hI
    rwa [h] at this
  have h1 : fromData (ops.foldl step u') d = .ok (k, v) :=
    fromData_of_ext (ext_run u' ops) (C11_units_roundtrip hI h).1
  refine ⟨h1, fun d' => ?_⟩
  have hI'' := inv_run ops hI'
  have h2 := (fromData_eq_ok_iff_of_inv hI'').1 h1
  rw [fromData_eq_ok_iff_of_inv hI'']
  constructor
  · intro h'; rw [h'.2, h2.2]
  · intro h'; rw [h']; exact h2

example : fromData ([Op.eq 5 7, .union (mk (some [3, 1, 4]) (some [8, 9])), .eq 9 0].foldl step
    (eqPred (mk none none) 1 9).1) (0, 0) = .ok (1, 9) := by decide

/-! ## U3 — positions are assigned on first mention -/

theorem C11_units_first_mention (cs : Option (List Int)) (ks : List Int) :
    (ks.foldl (fun u k => (getItem u k).toOption.getD u) (mk none cs)).keys = ks.eraseDups ∧
    ks.eraseDups.Nodup ∧ (∀ a, a ∈ ks.eraseDups ↔ a ∈ ks) ∧
    (∀ pre k post, ks = pre ++ k :: post → k ∉ pre →
      (ks.foldl (fun u k => (getItem u k).toOption.getD u) (mk none cs)).keys.idxOf k
        = pre.eraseDups.length) ∧
    (ks.foldl (fun u k => (getItem u k).toOption.getD u) (mk none cs)).cands = (mk none cs).cands := by
  rw [mention_fold_of_not_frozen (mk none cs) ks rfl]
  refine ⟨addAll_nil_left ks, nodup_eraseDups ks, fun a => List.mem_eraseDups, ?_, rfl⟩
  rintro pre k post rfl hk
  show (addAll [] (pre ++ k :: post)).idxOf k = _
  rw [idxOf_addAll_first (by simp) hk, addAll_nil_left]

example : ([7, 3, 7, 5, 3, 9].foldl (fun u k => (getItem u k).toOption.getD u) (mk none none)).keys
    = [7, 3, 5, 9] := by decide

/-! ## U4 — frozen lists -/

theorem C11_units_frozen (u : U) (k v : Int) :
    (u.frozenU = true →
      (getItem u k = .error Err.keyError ↔ k ∉ u.keys) ∧
      (k ∈ u.keys → getItem u k = .ok u) ∧
      (∀ u1, getItem u k = .ok u1 → u1 = u) ∧
      (eqPred u k v).1.keys = u.keys ∧
      (k ∉ u.keys → eqPred u k v = (u, .error Err.keyError))) ∧
    (u.frozenC = true →
      (eqPred u k v).1.cands = u.cands ∧
      (v ∉ u.cands →
        eqPred u k v =
          if k ∈ u.keys then (u, .error Err.valueError)
          else if u.frozenU = true then (u, .error Err.keyError)
          else ({ u with keys := u.keys ++ [k] }, .error Err.valueError))) ∧
    ((eqPred u k v).1.frozenU = u.frozenU ∧ (eqPred u k v).1.frozenC = u.frozenC ∧
      ∀ u1, getItem u k = .ok u1 → u1.frozenU = u.frozenU ∧ u1.frozenC = u.frozenC ∧ u1.cands = u.cands) := by
  have hnew : u.frozenC = true → v ∉ u.cands →
      eqPred u k v =
        if k ∈ u.keys then (u, .error Err.valueError)
        else if u.frozenU = true then (u, .error Err.keyError)
        else ({ u with keys := u.keys ++ [k] }, .error Err.valueError) := by
    intro hf hv
    by_cases hk : k ∈ u.keys
    · rw [if_pos hk, eqPred_of_getItem_ok v (getItem_of_mem hk), if_neg hv, if_pos hf]
    · rw [if_neg hk]
      by_cases hfu : u.frozenU = true
      · rw [if_pos hfu, eqPred_of_getItem_error v (getItem_frozen_new hk hfu)]
      · rw [if_neg hfu, eqPred_of_getItem_ok v (getItem_new hk (by simpa using hfu))]
        have hv' : ¬ v ∈ ({ u with keys := u.keys ++ [k] } : U).cands := hv
        have hf' : ({ u with keys := u.keys ++ [k] } : U).frozenC = true := hf
        rw [if_neg hv', if_pos hf']
  refine ⟨fun hf => ?_, fun hf => ?_, ?_⟩
  · have hkey : k ∉ u.keys → eqPred u k v = (u, .error Err.keyError) := fun hk =>
      eqPred_of_getItem_error v (getItem_frozen_new hk hf)
    refine ⟨⟨fun h => (getItem_error h).2.1, fun hk => getItem_frozen_new hk hf⟩,
      fun hk => getItem_of_mem hk, ?_, ?_, hkey⟩
    · intro u1 h
      obtain ⟨rfl, hk⟩ := getItem_ok h
      rcases hk with hk | hk
      · rw [addNew_of_mem hk]
      · rw [hf] at hk; cases hk
    · by_cases hk : k ∈ u.keys
      · obtain ⟨ks, cs, he, hks, _⟩ := eqPred_fst u k v
        rw [he]
        rcases hks with rfl | rfl
        · rfl
        · exact addNew_of_mem hk
      · rw [hkey hk]
  · refine ⟨?_, hnew hf⟩
    by_cases hv : v ∈ u.cands
    · obtain ⟨ks, cs, he, _, hcs⟩ := eqPred_fst u k v
      rw [he]
      rcases hcs with rfl | rfl
      · rfl
      · exact addNew_of_mem hv
    · rw [hnew hf hv]
      split
      · rfl
      · split <;> rfl
  · obtain ⟨ks, cs, he, _, _⟩ := eqPred_fst u k v
    refine ⟨by rw [he], by rw [he], ?_⟩
    intro u1 h
    obtain ⟨rfl, _⟩ := getItem_ok h
    exact ⟨rfl, rfl, rfl⟩

example : getItem (mk (some [3, 1]) none) 2 = .error Err.keyError ∧
    getItem (mk (some [3, 1]) none) 1 = .ok (mk (some [3, 1]) none) := by decide
example : eqPred (mk none (some [0, 1])) 4 2 = (⟨[4], [0, 1], false, true⟩, .error Err.valueError) ∧
    eqPred (mk (some [3]) (some [0, 1])) 4 2 = (mk (some [3]) (some [0, 1]), .error Err.keyError) ∧
    eqPred (mk (some [3]) (some [0, 1])) 3 2 = (mk (some [3]) (some [0, 1]), .error Err.valueError) := by
  decide

/-! ## U5 — `from_data` is total up to `IndexError` -/

theorem C11_units_fromData_total (u : U) (d : Nat × Nat) :
    ((∃ kv, fromData u d = .ok kv) ↔ d.1 < u.keys.length ∧ d.2 < u.cands.length) ∧
    (∀ (h1 : d.1 < u.keys.length) (h2 : d.2 < u.cands.length),
      fromData u d = .ok (u.keys[d.1], u.cands[d.2])) ∧
    (¬ (d.1 < u.keys.length ∧ d.2 < u.cands.length) → fromData u d = .error Err.indexError) := by
  have hok : ∀ (h1 : d.1 < u.keys.length) (h2 : d.2 < u.cands.length),
      fromData u d = .ok (u.keys[d.1], u.cands[d.2]) := by
    intro h1 h2
    rw [fromData_eq_ok_iff]
    exact ⟨List.getElem?_eq_getElem h1, List.getElem?_eq_getElem h2⟩
  have herr : ¬ (d.1 < u.keys.length ∧ d.2 < u.cands.length) → fromData u d = .error Err.indexError := by
    intro h
    unfold fromData
    by_cases h1 : d.1 < u.keys.length
    · have h2 : u.cands.length ≤ d.2 := Nat.le_of_not_lt (fun h2 => h ⟨h1, h2⟩)
      rw [List.getElem?_eq_none h2]
      cases u.keys[d.1]? <;> rfl
    · rw [List.getElem?_eq_none (Nat.le_of_not_lt h1)]
      rfl
  refine ⟨⟨?_, fun h => ⟨_, hok h.1 h.2⟩⟩, hok, herr⟩
  rintro ⟨kv, h⟩
  apply Classical.byContradiction
  intro hn
  rw [herr hn] at h
  cases h

example : fromData ⟨[3, 1, 2], [9], true, false⟩ (2, 0) = .ok (2, 9) ∧
    fromData ⟨[3, 1, 2], [9], true, false⟩ (3, 0) = .error Err.indexError ∧
    fromData ⟨[3, 1, 2], [9], true, false⟩ (0, 1) = .error Err.indexError := by decide

/-! ## U6 — `union` -/

theorem C11_units_union {u o : U} (hu : Inv u) (ho : Inv o) :
    Inv (union u o) ∧
    (union u o).keys = u.keys ++ o.keys.filter (fun k => !u.keys.contains k) ∧
    (union u o).cands = u.cands ++ o.cands.filter (fun c => !u.cands.contains c) ∧
    (∀ k ∈ u.keys, (union u o).keys.idxOf k = u.keys.idxOf k) ∧
    (∀ c ∈ u.cands, (union u o).cands.idxOf c = u.cands.idxOf c) ∧
    (∀ k, k ∉ u.keys → k ∈ o.keys → (union u o).keys.idxOf k =
      u.keys.length + (o.keys.filter (fun k => !u.keys.contains k)).idxOf k) ∧
    (∀ k, k ∈ (union u o).keys ↔ k ∈ u.keys ∨ k ∈ o.keys) ∧
    (∀ c, c ∈ (union u o).cands ↔ c ∈ u.cands ∨ c ∈ o.cands) ∧
    (union u o).frozenU = (u.frozenU || o.frozenU) ∧ (union u o).frozenC = (u.frozenC || o.frozenC) := by
  have hk : (union u o).keys = u.keys ++ o.keys.filter (fun k => !u.keys.contains k) :=
    addAll_eq_filter u.keys ho.1
  have hc : (union u o).cands = u.cands ++ o.cands.filter (fun c => !u.cands.contains c) :=
    addAll_eq_filter u.cands ho.2
  refine ⟨inv_union o hu, hk, hc, fun k h => idxOf_of_prefix (ext_union u o).1 h,
    fun c h => idxOf_of_prefix (ext_union u o).2 h, ?_, fun k => mem_addAll, fun c => mem_addAll, rfl, rfl⟩
  intro k hku _
  rw [hk, List.idxOf_append, if_neg hku, Nat.add_comm]

example : union (mk (some [3, 1, 2]) (some [0])) (mk none (some [1, 0, 2]))
    = ⟨[3, 1, 2], [0, 1, 2], true, true⟩ ∧
    (union (mk (some [3, 1, 2]) none) ⟨[5, 1, 4, 3], [], false, false⟩).keys = [3, 1, 2, 5, 4] := by decide

end DsProofs.C11Units
