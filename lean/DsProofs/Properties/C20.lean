import Ds.Neighbor

/-!
# C20 — the fit/score protocol (logic skeleton)

What these theorems say about the Python code (`ShapleyImportance.fit` / `.score`, modelled by the
state machine `Ds.Session`: `fit` overwrites the fitted fields, `score` reads them; `scoreFn` is the
pure scoring function of the chosen method, `Data` is what `fit` stores and `Arg` what `score` gets):

* `C20_score_pure`: a call of `score` leaves the object state unchanged (whether it succeeds or raises).
* `C20_fit_overwrites`: after `fit d` the state is "fitted with `d`", whatever it was before.
* `C20_state_after`: after any history `ops` started from state `s` the state holds the data of the
  LAST `fit` in `ops` (`lastFit`), or what `s` held if `ops` contains no `fit`.
* `C20_last_fit_wins`: after any history `ops` started from the fresh (unfitted) object, a final
  `score a` returns `scoreFn d a` where `d` is the data of the LAST `fit` in `ops`, and raises
  `ValueError` ("The fit function was not called first.") if `ops` contains no `fit`.
  `C20_last_fit_wins_from` is the same from an arbitrary start state.
* `C20_repeat`: two consecutive `score a` calls (after any history) return the same value, and the
  state after them is the state before them.
* `C20_independent`: in `ops₁ ++ [fit d] ++ scores`, where `scores` are score calls with arguments
  `as`, the outputs of those score calls are exactly `as.map (scoreFn d)` — they depend neither on
  the history `ops₁` before the last fit nor on each other — and the final state is "fitted with `d`".
-/

open Ds Ds.Session

namespace DsProofs.C20

variable {Data Arg Out : Type}

/-- the data of the last `fit` in a history, if any -/
def lastFit : List (Op Data Arg) → Option Data
  | [] => none
  | .fit d :: ops => (match lastFit ops with | some d' => some d' | none => some d)
  | .score _ :: ops => lastFit ops

/-- what a `score a` call returns in a state whose fitted data is `o` -/
def scoreOut (f : Data → Arg → Out) (o : Option Data) (a : Arg) : Option (Except Err Out) :=
  match o with
  | none => some (.error Err.valueError)
  | some d => some (.ok (f d a))

/-- **C20a.** `score` does not modify the state. -/
theorem C20_score_pure (f : Data → Arg → Out) (s : State Data) (a : Arg) :
    (step f s (.score a)).1 = s := by
  unfold step
  cases s.fitted <;> rfl

/-- `fit` overwrites whatever was fitted before and returns nothing -/
theorem C20_fit_overwrites (f : Data → Arg → Out) (s : State Data) (d : Data) :
    step f s (.fit d) = ({ fitted := some d }, none) := rfl

/-- the value returned by `score` -/
theorem step_score_out (f : Data → Arg → Out) (s : State Data) (a : Arg) :
    (step f s (.score a)).2 = scoreOut f s.fitted a := by
  unfold step scoreOut
  cases s.fitted <;> rfl

theorem run_append (f : Data → Arg → Out) (s : State Data) (ops₁ ops₂ : List (Op Data Arg)) :
    run f s (ops₁ ++ ops₂)
      = ((run f (run f s ops₁).1 ops₂).1, (run f s ops₁).2 ++ (run f (run f s ops₁).1 ops₂).2) := by
  induction ops₁ generalizing s with
  | nil => rfl
  | cons op ops ih => simp only [List.cons_append, run, ih]

/-- **C20b (state form).** After a history the fitted data is that of the last `fit` of the history,
or the initial one if the history contains no `fit`. -/
theorem C20_state_after (f : Data → Arg → Out) (s : State Data) (ops : List (Op Data Arg)) :
    (run f s ops).1.fitted = ((lastFit ops).orElse fun _ => s.fitted) := by
  induction ops generalizing s with
  | nil => rfl
  | cons op ops ih =>
    cases op with
    | fit d =>
      simp only [run, step, ih, lastFit]
      cases lastFit ops <;> rfl
    | score a =>
      simp only [run, ih, C20_score_pure, lastFit]

/-- **C20b (general start state).** -/
theorem C20_last_fit_wins_from (f : Data → Arg → Out) (s : State Data) (ops : List (Op Data Arg)) (a : Arg) :
    (step f (run f s ops).1 (.score a)).2 = scoreOut f ((lastFit ops).orElse fun _ => s.fitted) a := by
  rw [step_score_out, C20_state_after]

/-- **C20b.** On a fresh object, after any history `ops`, `score a` returns `scoreFn d a` for the data
`d` of the LAST `fit` in `ops`; it raises `ValueError` if there was no `fit`. -/
theorem C20_last_fit_wins (f : Data → Arg → Out) (ops : List (Op Data Arg)) (a : Arg) :
    (step f (run f {} ops).1 (.score a)).2
      = match lastFit ops with
        | some d => some (.ok (f d a))
        | none => some (.error Err.valueError) := by
  rw [C20_last_fit_wins_from]
  cases lastFit ops <;> rfl

/-- the same read off the output list of `run`: the last output of `ops ++ [score a]` -/
theorem C20_last_fit_wins_run (f : Data → Arg → Out) (ops : List (Op Data Arg)) (a : Arg) :
    (run f {} (ops ++ [.score a])).2
      = (run f {} ops).2 ++ [match lastFit ops with
                              | some d => some (.ok (f d a))
                              | none => some (.error Err.valueError)] := by
  rw [run_append, ← C20_last_fit_wins]
  rfl

/-- `lastFit` really is the last `fit`: if the history is `ops₁ ++ fit d :: ops₂` with no `fit` in
`ops₂`, then `lastFit = some d`; if there is no `fit` at all it is `none`. -/
theorem lastFit_none_iff (ops : List (Op Data Arg)) :
    lastFit ops = none ↔ ∀ d, Op.fit d ∉ ops := by
  induction ops with
  | nil => simp [lastFit]
  | cons op ops ih =>
    cases op with
    | fit d =>
      simp only [lastFit, List.mem_cons, not_or]
      constructor
      · intro h; cases hl : lastFit ops <;> simp [hl] at h
      · intro h; exact absurd rfl (h d).1
    | score a =>
      simp only [lastFit, ih, List.mem_cons, not_or]
      constructor
      · intro h d
        refine ⟨?_, h d⟩
        intro h'
        cases h'
      · intro h d; exact (h d).2

theorem lastFit_append_fit (ops₁ ops₂ : List (Op Data Arg)) (d : Data) (h : ∀ d', Op.fit d' ∉ ops₂) :
    lastFit (ops₁ ++ .fit d :: ops₂) = some d := by
  have h2 := (lastFit_none_iff ops₂).mpr h
  induction ops₁ with
  | nil => simp [lastFit, h2]
  | cons op ops ih =>
    cases op with
    | fit d' => simp [lastFit, ih]
    | score a => simpa [lastFit] using ih

/-- **C20c.** Repeating a `score` call with the same argument gives the same value, and the state is
untouched. -/
theorem C20_repeat (f : Data → Arg → Out) (s : State Data) (ops : List (Op Data Arg)) (a : Arg) :
    let s₁ := (run f s ops).1
    let r₁ := step f s₁ (.score a)
    let r₂ := step f r₁.1 (.score a)
    r₁.2 = r₂.2 ∧ r₂.1 = s₁ := by
  intro s₁ r₁ r₂
  have h1 : r₁.1 = s₁ := C20_score_pure f s₁ a
  refine ⟨?_, ?_⟩
  · show r₁.2 = (step f r₁.1 (.score a)).2
    rw [h1]
  · show (step f r₁.1 (.score a)).1 = s₁
    rw [C20_score_pure, h1]

/-- `run` over score calls only: state unchanged, outputs are the individual scores -/
theorem run_scores (f : Data → Arg → Out) (s : State Data) (as : List Arg) :
    run f s (as.map Op.score) = (s, as.map (scoreOut f s.fitted)) := by
  induction as with
  | nil => rfl
  | cons a as ih =>
    simp only [List.map_cons, run, C20_score_pure, ih, step_score_out]

/-- **C20d.** The outputs of the score calls after a `fit d` are `scoreFn d` of their arguments:
independent of everything before that `fit`, and of each other. -/
theorem C20_independent (f : Data → Arg → Out) (s : State Data) (ops₁ : List (Op Data Arg)) (d : Data)
    (as : List Arg) :
    run f s (ops₁ ++ [.fit d] ++ as.map Op.score)
      = ({ fitted := some d },
          (run f s ops₁).2 ++ [none] ++ as.map (fun a => some (.ok (f d a)))) := by
  rw [run_append, run_append]
  simp only [run, step, run_scores]
  rfl

/-- in particular two histories that end with the same `fit d` give the same scores afterwards -/
theorem C20_independent_drop (f : Data → Arg → Out) (s s' : State Data) (ops₁ ops₁' : List (Op Data Arg))
    (d : Data) (as : List Arg) :
    (run f s (ops₁ ++ [.fit d] ++ as.map Op.score)).2.drop (ops₁.length + 1)
      = (run f s' (ops₁' ++ [.fit d] ++ as.map Op.score)).2.drop (ops₁'.length + 1) := by
  have hlen : ∀ (s : State Data) (ops : List (Op Data Arg)), (run f s ops).2.length = ops.length := by
    intro s ops
    induction ops generalizing s with
    | nil => rfl
    | cons op ops ih => simp [run, ih]
  have key : ∀ (A : List (Option (Except Err Out))) (n : Nat) x M, A.length = n →
      (A ++ [x] ++ M).drop (n + 1) = M := by
    intro A n x M h
    subst h
    induction A with
    | nil => rfl
    | cons y A ih => simp
  rw [C20_independent, C20_independent, key _ _ _ _ (hlen _ _), key _ _ _ _ (hlen _ _)]

/-! ### Examples -/

/-- score before any fit raises; a later fit replaces an earlier one -/
example : (run (fun (d : Nat) (a : Nat) => d + a) {} [.score 1, .fit 10, .score 1, .fit 20, .score 1, .score 1]).2
    = [some (.error Err.valueError), none, some (.ok 11), none, some (.ok 21), some (.ok 21)] := rfl

example : lastFit ([.score 1, .fit 10, .score 1, .fit 20, .score 1] : List (Op Nat Nat)) = some 20 := rfl

end DsProofs.C20
