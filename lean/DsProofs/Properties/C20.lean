import DsProofs.UtilProofs

/-!
# C20 — the fit/score protocol (logic skeleton)

What these theorems say about the Python code (`ShapleyImportance.fit` / `.score`, modelled by the
state machine `Ds.Session`: `fit` overwrites the fitted fields, `score` reads them; `scoreFn` (`f`) is
the pure scoring function of the chosen method, `Data` is what `fit` stores and `Arg` what `score`
gets).  `lastFit ops` (defined in `DsProofs/UtilProofs.lean`, characterised here by `C20_lastFit_def`,
`C20_lastFit_none`, `C20_lastFit_some`) is the data of the last `fit` in the history `ops`.

* `C20_score_pure`: a call of `score` leaves the object state unchanged (whether it succeeds or raises).
* `C20_fit_overwrites`: after `fit d` the state is "fitted with `d`", whatever it was before, and the
  call returns nothing.
* `C20_state_after`: after any history `ops` started from state `s` the state holds the data of the
  LAST `fit` in `ops`, or what `s` held if `ops` contains no `fit`.
* `C20_last_fit_wins`: after any history `ops` started from the fresh (unfitted) object, a final
  `score a` returns `scoreFn d a` where `d` is the data of the LAST `fit` in `ops`, and raises
  `ValueError` ("The fit function was not called first.") if `ops` contains no `fit`.
  `C20_last_fit_wins_from` is the same from an arbitrary start state; `C20_last_fit_wins_run` reads the
  value off the output list of `run`; `C20_last_fit_wins_split` spells "last fit" out as a
  decomposition `ops = ops₁ ++ fit d :: ops₂` with no `fit` in `ops₂`.
* `C20_repeat`: two consecutive `score a` calls (after any history) return the same value, and the
  state after them is the state before them.
* `C20_independent`: in `ops₁ ++ [fit d] ++ scores`, where `scores` are score calls with arguments
  `as`, the outputs of those score calls are exactly `as.map (scoreFn d)` — they depend neither on
  the history `ops₁` before the last fit nor on each other — and the final state is "fitted with `d`".
  `C20_independent_drop`: two different histories ending in the same `fit d` produce the same outputs
  for the same subsequent score calls.
-/

open Ds Ds.Session

namespace DsProofs.C20

variable {Data Arg Out : Type}

/-- definition of `lastFit`, verbatim -/
theorem C20_lastFit_def (d : Data) (a : Arg) (ops : List (Op Data Arg)) :
    lastFit ([] : List (Op Data Arg)) = none
      ∧ lastFit (.fit d :: ops) = (match lastFit ops with | some d' => some d' | none => some d)
      ∧ lastFit (.score a :: ops) = lastFit ops := ⟨rfl, rfl, rfl⟩

/-- `lastFit` is `none` exactly when the history contains no `fit` -/
theorem C20_lastFit_none (ops : List (Op Data Arg)) : lastFit ops = none ↔ ∀ d, Op.fit d ∉ ops :=
  lastFit_none_iff ops

/-- `lastFit` is the data of the last `fit`: nothing but scores after it -/
theorem C20_lastFit_some (ops₁ ops₂ : List (Op Data Arg)) (d : Data) (h : ∀ d', Op.fit d' ∉ ops₂) :
    lastFit (ops₁ ++ .fit d :: ops₂) = some d :=
  lastFit_append_fit ops₁ ops₂ d h

/-- **C20a.** `score` does not modify the state. -/
theorem C20_score_pure (f : Data → Arg → Out) (s : State Data) (a : Arg) :
    (step f s (.score a)).1 = s :=
  step_score_fst f s a

/-- `fit` overwrites whatever was fitted before and returns nothing -/
theorem C20_fit_overwrites (f : Data → Arg → Out) (s : State Data) (d : Data) :
    step f s (.fit d) = ({ fitted := some d }, none) := rfl

/-- **C20b (state form).** After a history the fitted data is that of the last `fit` of the history,
or the initial one if the history contains no `fit`. -/
theorem C20_state_after (f : Data → Arg → Out) (s : State Data) (ops : List (Op Data Arg)) :
    (run f s ops).1.fitted = (match lastFit ops with | some d => some d | none => s.fitted) := by
  rw [run_state]
  cases lastFit ops <;> rfl

/-- **C20b (general start state).** -/
theorem C20_last_fit_wins_from (f : Data → Arg → Out) (s : State Data) (ops : List (Op Data Arg)) (a : Arg) :
    (step f (run f s ops).1 (.score a)).2
      = match (match lastFit ops with | some d => some d | none => s.fitted) with
        | some d => some (.ok (f d a))
        | none => some (.error Err.valueError) := by
  rw [step_score_out, C20_state_after]
  cases lastFit ops with
  | some d => rfl
  | none => cases s.fitted <;> rfl

/-- **C20b.** On a fresh object, after any history `ops`, `score a` returns `scoreFn d a` for the data
`d` of the LAST `fit` in `ops`; it raises `ValueError` if there was no `fit`. -/
theorem C20_last_fit_wins (f : Data → Arg → Out) (ops : List (Op Data Arg)) (a : Arg) :
    (step f (run f {} ops).1 (.score a)).2
      = match lastFit ops with
        | some d => some (.ok (f d a))
        | none => some (.error Err.valueError) := by
  rw [C20_last_fit_wins_from]
  cases lastFit ops <;> rfl

/-- the same read off the output list of `run`: the last output of `ops ++ [score a]` -/
theorem C20_last_fit_wins_run (f : Data → Arg → Out) (ops : List (Op Data Arg)) (a : Arg) :
    (run f {} (ops ++ [.score a])).2
      = (run f {} ops).2 ++ [match lastFit ops with
                              | some d => some (.ok (f d a))
                              | none => some (.error Err.valueError)] := by
  rw [run_append, ← C20_last_fit_wins]
  rfl

/-- "last fit" spelled out: the history is `ops₁ ++ fit d :: ops₂` with no `fit` in `ops₂`; or there
is no `fit` at all -/
theorem C20_last_fit_wins_split (f : Data → Arg → Out) (a : Arg) :
    (∀ (ops₁ ops₂ : List (Op Data Arg)) (d : Data), (∀ d', Op.fit d' ∉ ops₂) →
        (step f (run f {} (ops₁ ++ .fit d :: ops₂)).1 (.score a)).2 = some (.ok (f d a)))
      ∧ (∀ ops : List (Op Data Arg), (∀ d, Op.fit d ∉ ops) →
        (step f (run f {} ops).1 (.score a)).2 = some (.error Err.valueError)) := by
  refine ⟨?_, ?_⟩
  · intro ops₁ ops₂ d h
    rw [C20_last_fit_wins, lastFit_append_fit ops₁ ops₂ d h]
  · intro ops h
    rw [C20_last_fit_wins, (lastFit_none_iff ops).mpr h]

/-- **C20c.** Repeating a `score` call with the same argument gives the same value, and the state is
untouched. -/
theorem C20_repeat (f : Data → Arg → Out) (s : State Data) (ops : List (Op Data Arg)) (a : Arg) :
    let s₁ := (run f s ops).1
    let r₁ := step f s₁ (.score a)
    let r₂ := step f r₁.1 (.score a)
    r₁.2 = r₂.2 ∧ r₂.1 = s₁ := by
  intro s₁ r₁ r₂
  have h1 : r₁.1 = s₁ := C20_score_pure f s₁ a
  refine ⟨?_, ?_⟩
  · show r₁.2 = (step f r₁.1 (.score a)).2
    rw [h1]
  · show (step f r₁.1 (.score a)).1 = s₁
    rw [C20_score_pure, h1]

/-- **C20d.** The outputs of the score calls after a `fit d` are `scoreFn d` of their arguments:
independent of everything before that `fit`, and of each other. -/
theorem C20_independent (f : Data → Arg → Out) (s : State Data) (ops₁ : List (Op Data Arg)) (d : Data)
    (as : List Arg) :
    run f s (ops₁ ++ [.fit d] ++ as.map Op.score)
      = ({ fitted := some d },
          (run f s ops₁).2 ++ [none] ++ as.map (fun a => some (.ok (f d a)))) := by
  rw [run_append, run_append]
  simp only [run, step, run_scores]
  rfl

/-- in particular two histories that end with the same `fit d` give the same scores afterwards -/
theorem C20_independent_drop (f : Data → Arg → Out) (s s' : State Data) (ops₁ ops₁' : List (Op Data Arg))
    (d : Data) (as : List Arg) :
    (run f s (ops₁ ++ [.fit d] ++ as.map Op.score)).2.drop (ops₁.length + 1)
      = (run f s' (ops₁' ++ [.fit d] ++ as.map Op.score)).2.drop (ops₁'.length + 1) := by
  rw [C20_independent, C20_independent, drop_append_singleton _ _ _ _ (run_length _ _ _),
    drop_append_singleton _ _ _ _ (run_length _ _ _)]

/-! ### Examples -/

/-- score before any fit raises; a later fit replaces an earlier one -/
example : (run (fun (d : Nat) (a : Nat) => d + a) {} [.score 1, .fit 10, .score 1, .fit 20, .score 1, .score 1]).2
    = [some (.error Err.valueError), none, some (.ok 11), none, some (.ok 21), some (.ok 21)] := rfl

example : lastFit ([.score 1, .fit 10, .score 1, .fit 20, .score 1] : List (Op Nat Nat)) = some 20 := rfl

end DsProofs.C20
