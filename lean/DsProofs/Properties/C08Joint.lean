import DsProofs.UtilProofs
import DsProofs.Properties.C08Kernel

/-!
# C08 (JointUtility) — a joint utility is the weighted sum of its components, all the way to the scores

What these theorems say about the Python code (`utility.py: JointUtility`, modelled by
`Ds.Util.jointScalar` / `jointElem` / `jointCall`; the kernel is `Ds.Kernel.importances`):

* `C08_joint_scalar_sum`: the scalar combination used by `JointUtility.__call__`, `.null_score`,
  `.mean_score` is `Σ_k weights[k]·x[k]` (zip-truncated to the shorter list).
  `C08_joint_scalar_linear`: it is linear in the component values (`a·xs + b·ys ↦ a·(…) + b·(…)`),
  `C08_joint_scalar_scale`, `C08_joint_scalar_add`: the two special cases; `C08_joint_scalar_weights`:
  also homogeneous in the weights.
  `C08_joint_no_normalisation`: the weights are NOT normalised: a single component with weight 2 gives
  twice its value (the normalisation is commented out in the code).
* `C08_joint_elem`: `JointUtility.elementwise_score`, for component tables of a common shape `C × nb`
  and as many weights as components: entry `[c][j]` is `Σ_k weights[k]·component_k[c][j]`.
  `C08_joint_elem_getD` is the same as a `jointScalar`, needing only that `(c, j)` lies inside the
  FIRST component's shape (which is where the model, like `np.sum(np.stack(..))`, takes the shape from).
* `C08_joint_call`: `JointUtility.__call__`: if no component score is NaN the result is the weighted
  sum of the component scores; if some component score is NaN it is the supplied null score.
* `C08_joint_kernel`: composition with the 1-NN kernel, for ANY number of components: running the
  kernel on the joint element-wise table (columns built as `mapfork` does,
  `Ds.Util.colsOf nb util = (List.range nb).map (fun j => column util j 0)`) with the joint
  element-wise null scores `Σ_k w_k·null_k[j]` gives, for every unit, `Σ_k w_k ·` (the kernel's score
  under component `k` alone).  Hypotheses: at least one component, as many weights and null vectors as
  components, every component table has `C` rows of length `nb`, every null vector has length `nb`.
  No hypothesis on the sort orders or labels.  `C08_joint_kernel_getD`: entry form with an explicit `Σ_k`.
  `C08_joint_kernel_two`: the two-component case in `w₁·x + w₂·y` notation (an instance of
  `DsProofs.C08.C08_kernel_linear`).
-/

open Finset Ds.Util Ds.Kernel

namespace DsProofs.C08

/-- **C08c.** `jointScalar ws xs = Σ_k ws[k]·xs[k]`. -/
theorem C08_joint_scalar_sum (ws xs : List ℚ) :
    jointScalar ws xs = ∑ k ∈ range (min ws.length xs.length), ws.getD k 0 * xs.getD k 0 :=
  jointScalar_eq_sum ws xs

/-- **C08c.** Linearity in the component values. -/
theorem C08_joint_scalar_linear (a b : ℚ) (ws xs ys : List ℚ) (h : xs.length = ys.length) :
    jointScalar ws (List.zipWith (fun x y => a * x + b * y) xs ys)
      = a * jointScalar ws xs + b * jointScalar ws ys :=
  jointScalar_lin a b ws xs ys h

theorem C08_joint_scalar_scale (c : ℚ) (ws xs : List ℚ) :
    jointScalar ws (xs.map (c * ·)) = c * jointScalar ws xs := jointScalar_smul c ws xs

theorem C08_joint_scalar_add (ws xs ys : List ℚ) (h : xs.length = ys.length) :
    jointScalar ws (List.zipWith (· + ·) xs ys) = jointScalar ws xs + jointScalar ws ys :=
  jointScalar_add ws xs ys h

theorem C08_joint_scalar_weights (c : ℚ) (ws xs : List ℚ) :
    jointScalar (ws.map (c * ·)) xs = c * jointScalar ws xs := jointScalar_smul_left c ws xs

/-- the weights are not normalised -/
theorem C08_joint_no_normalisation (x : ℚ) : jointScalar [2] [x] = 2 * x := by
  simp [jointScalar]

/-- **C08d (jointScalar form).** -/
theorem C08_joint_elem_getD (ws : List ℚ) (m0 : List (List ℚ)) (ms : List (List (List ℚ))) (c j : ℕ)
    (hc : c < m0.length) (hj : j < (m0.getD c []).length) :
    ((jointElem ws (m0 :: ms)).getD c []).getD j 0
      = jointScalar ws ((m0 :: ms).map (fun m => (m.getD c []).getD j 0)) :=
  jointElem_getD ws m0 ms c j hc hj

/-- **C08d.** Entry `[c][j]` of the joint element-wise table is `Σ_k ws[k]·ms[k][c][j]`. -/
theorem C08_joint_elem (C nb : ℕ) (ws : List ℚ) (ms : List (List (List ℚ))) (hw : ws.length = ms.length)
    (hshape : ∀ m ∈ ms, m.length = C ∧ ∀ row ∈ m, row.length = nb) (c j : ℕ) (hc : c < C) (hj : j < nb) :
    ((jointElem ws ms).getD c []).getD j 0
      = ∑ k ∈ range ms.length, ws.getD k 0 * ((ms.getD k []).getD c []).getD j 0 := by
  cases ms with
  | nil => simp [jointElem]
  | cons m0 ms =>
    obtain ⟨hC, hrow⟩ := hshape m0 List.mem_cons_self
    have hc' : c < m0.length := by omega
    have hj' : j < (m0.getD c []).length := by
      rw [hrow _ (getD_mem' m0 [] hc')]; exact hj
    rw [jointElem_getD ws m0 ms c j hc' hj', jointScalar_eq_sum, List.length_map, hw, min_self]
    apply Finset.sum_congr rfl
    intro k _
    congr 1
    exact getD_map_default (fun m : List (List ℚ) => (m.getD c []).getD j 0) (m0 :: ms) [] k

/-- **C08e.** `__call__`: weighted sum unless some component is NaN, then the null score. -/
theorem C08_joint_call (ws : List ℚ) (rs : List (Option ℚ)) (null : ℚ) :
    (none ∉ rs → jointCall ws rs null = jointScalar ws (rs.map (·.getD 0)))
      ∧ (none ∈ rs → jointCall ws rs null = null) := by
  refine ⟨?_, jointCall_none ws rs null⟩
  intro h
  unfold jointCall
  have : rs.any Option.isNone = false := by
    rw [List.any_eq_false]
    intro x hx
    cases x with
    | none => exact absurd hx h
    | some _ => simp
  rw [this]; rfl

theorem C08_joint_call_some (ws xs : List ℚ) (null : ℚ) :
    jointCall ws (xs.map some) null = jointScalar ws xs := jointCall_some ws xs null

/-- definitions used in C08f, verbatim: the columns `mapfork` hands to the kernel, and `Σ_k ws[k]·vs[k]` -/
theorem C08_colsOf_def (nb : ℕ) (m : List (List ℚ)) :
    colsOf nb m = (List.range nb).map (fun j => Ds.Neighbor.column m j 0) := rfl

theorem C08_combVec_def (n : ℕ) (ws : List ℚ) (vs : List (List ℚ)) :
    combVec n ws vs = (List.range n).map (fun u => jointScalar ws (vs.map (·.getD u 0))) := rfl

/-- **C08f.** The kernel applied to the joint table = weighted sum of the kernel applied to the
components, for any number of components.
`combVec n ws vs = [Σ_k ws[k]·vs[k][u] | u < n]`; the joint null scores are `combVec nb ws Ns`. -/
theorem C08_joint_kernel (n C nb : ℕ) (labels orders : List (List ℕ)) (ws : List ℚ)
    (ms : List (List (List ℚ))) (Ns : List (List ℚ)) (hne : ms ≠ [])
    (hw : ws.length = ms.length) (hN : Ns.length = ms.length)
    (hshape : ∀ m ∈ ms, m.length = C ∧ ∀ row ∈ m, row.length = nb) (hNs : ∀ N ∈ Ns, N.length = nb) :
    importances n labels orders (colsOf nb (jointElem ws ms)) (combVec nb ws Ns)
      = combVec n ws (List.zipWith (fun m N => importances n labels orders (colsOf nb m) N) ms Ns) := by
  cases ms with
  | nil => exact absurd rfl hne
  | cons m0 ms =>
    obtain ⟨hC, hrow⟩ := hshape m0 List.mem_cons_self
    rw [jointElem_eq_combTable C nb ws m0 ms hC hrow]
    exact importances_comb n C nb labels orders ws (m0 :: ms) Ns hw hN (fun m hm => (hshape m hm).1) hNs

/-- the vectors `combVec` read entrywise: `Σ_k ws[k]·vs[k][u]` -/
theorem C08_combVec_getD (n : ℕ) (ws : List ℚ) (vs : List (List ℚ)) (u : ℕ) (hu : u < n) :
    (combVec n ws vs).getD u 0 = ∑ k ∈ range (min ws.length vs.length), ws.getD k 0 * (vs.getD k []).getD u 0 := by
  rw [combVec_getD n ws vs u hu, jointScalar_eq_sum, List.length_map]
  apply Finset.sum_congr rfl
  intro k _
  congr 1
  exact getD_map_default (fun v : List ℚ => v.getD u 0) vs [] k

/-- **C08f (entry form).** Score of unit `u` under the joint utility = `Σ_k w_k ·` score under component `k`. -/
theorem C08_joint_kernel_getD (n C nb : ℕ) (labels orders : List (List ℕ)) (ws : List ℚ)
    (ms : List (List (List ℚ))) (Ns : List (List ℚ)) (hne : ms ≠ [])
    (hw : ws.length = ms.length) (hN : Ns.length = ms.length)
    (hshape : ∀ m ∈ ms, m.length = C ∧ ∀ row ∈ m, row.length = nb) (hNs : ∀ N ∈ Ns, N.length = nb)
    (u : ℕ) (hu : u < n) :
    (importances n labels orders (colsOf nb (jointElem ws ms)) (combVec nb ws Ns)).getD u 0
      = ∑ k ∈ range ms.length,
          ws.getD k 0 * (importances n labels orders (colsOf nb (ms.getD k [])) (Ns.getD k [])).getD u 0 := by
  rw [C08_joint_kernel n C nb labels orders ws ms Ns hne hw hN hshape hNs, C08_combVec_getD _ _ _ _ hu,
    List.length_zipWith, hw, hN, min_self, min_self]
  apply Finset.sum_congr rfl
  intro k hk
  have hk' := Finset.mem_range.mp hk
  congr 2
  simp [List.getD_eq_getElem?_getD, hk', hN ▸ hk']

/-- **C08f (two components).** -/
theorem C08_joint_kernel_two (n C nb : ℕ) (labels orders : List (List ℕ)) (w₁ w₂ : ℚ)
    (m₁ m₂ : List (List ℚ)) (N₁ N₂ : List ℚ)
    (h₁ : m₁.length = C ∧ ∀ row ∈ m₁, row.length = nb) (h₂ : m₂.length = C ∧ ∀ row ∈ m₂, row.length = nb)
    (hN₁ : N₁.length = nb) (hN₂ : N₂.length = nb) :
    importances n labels orders (colsOf nb (jointElem [w₁, w₂] [m₁, m₂]))
        (List.zipWith (fun x y => w₁ * x + w₂ * y) N₁ N₂)
      = List.zipWith (fun x y => w₁ * x + w₂ * y)
          (importances n labels orders (colsOf nb m₁) N₁) (importances n labels orders (colsOf nb m₂) N₂) := by
  have h := C08_joint_kernel n C nb labels orders [w₁, w₂] [m₁, m₂] [N₁, N₂] (by simp) rfl rfl
    (by intro m hm
        simp only [List.mem_cons, List.not_mem_nil, or_false] at hm
        rcases hm with rfl | rfl <;> assumption)
    (by intro N hN
        simp only [List.mem_cons, List.not_mem_nil, or_false] at hN
        rcases hN with rfl | rfl <;> assumption)
  rw [combVec_pair nb w₁ w₂ N₁ N₂ hN₁ hN₂] at h
  rw [h]
  exact combVec_pair n w₁ w₂ _ _ (importances_length _ _ _ _ _) (importances_length _ _ _ _ _)

/-! ### Examples -/

example : jointScalar [2, 3] [5, 7] = 31 := by simp [jointScalar]; norm_num

example : jointElem [2, 3] [[[1, 0], [0, 1]], [[1, 1], [0, 0]]] = [[5, 3], [0, 2]] := by
  simp [jointElem, jointScalar, List.range_succ]; norm_num

example : jointCall [2, 3] [some 5, some 7] 100 = 31 := by simp [jointCall, jointScalar]; norm_num
example : jointCall [2, 3] [some 5, none] 100 = 100 := by simp [jointCall]

/-- the hypotheses of `C08_joint_kernel_two` are satisfiable: one validation point, two classes, three units -/
example :
    importances 3 [[0,1,0]] [[0,1,2]] (colsOf 1 (jointElem [2, 3] [[[1],[0]], [[0],[1]]]))
        (List.zipWith (fun x y => 2 * x + 3 * y) [0] [0])
      = List.zipWith (fun x y => 2 * x + 3 * y)
          (importances 3 [[0,1,0]] [[0,1,2]] (colsOf 1 [[1],[0]]) [0])
          (importances 3 [[0,1,0]] [[0,1,2]] (colsOf 1 [[0],[1]]) [0]) :=
  C08_joint_kernel_two 3 2 1 [[0,1,0]] [[0,1,2]] 2 3 [[1],[0]] [[0],[1]] [0] [0] (by simp) (by simp) rfl rfl

end DsProofs.C08
