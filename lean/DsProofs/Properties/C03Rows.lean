import DsProofs.ComposeProofs
import DsProofs.Properties.C03

/-!
# C03 (rows clause) — in the bruteforce method `v(S)` is the utility on PRECISELY the rows whose
formula is true under `S`

About `ShapleyImportance._shapley_bruteforce` run on a provenance container (model:
`Ds.Brute.scoresProv p util null`, i.e. the loop `Ds.Brute.scores` in which the coalition given by
the 0/1 vector `iter` is evaluated as `Ds.evalRows`: `indices = provenance.query(iter)`, then the
utility on `X_train[indices]`; `util rows` is the outcome of the utility on the row list `rows`).

`ComposeP.rowsTrue p S` is the specification of the selected rows: the strictly ascending list of
exactly the row positions `r` whose stored formula is true (`Ds.Prov.rowSem`, the specification of
C05) under the assignment "units in `S` take candidate 1, all others candidate 0" (`BruteP.ofSet S`).

* `C03_rowsTrue_spec`: that sentence, as a statement about `rowsTrue`.
* `C03_rows`: for a well padded container `p` and a utility none of whose evaluations on a selectable
  row list raises an exception outside `ValueError / RuntimeWarning / UserWarning`, the method returns
  a vector of `p.nUnits` scores, and the score of unit `i` is the textbook Shapley value (`Sh.phiM`,
  equivalently the coefficient form `Sh.phi`) of the game
  `S ↦ val(util (rowsTrue p S))` — the score the utility returned on exactly the rows true under `S`,
  or the null score when that evaluation raised one of the three handled classes.  Nothing else enters:
  neither rows whose formula is false under `S`, nor the order or the padding of the container.
* `C03_rows_exprs`: for a container built by `Provenance(expressions)` from proper in-range expressions
  the selected rows are the positions `r` with `es[r].eval(indicator of S)` true, and the scores are the
  Shapley value of `S ↦ val(util [r | es[r] true under S])`.
* `C03_rows_uncaught`: if the utility raises any other exception on the rows of some coalition, the
  whole method raises (`none`).
* examples: a 2-unit container `[x0==1, x1==0, x0==1 & x1==1]` (row 1 carries a value-0 literal and is
  present under the empty coalition) and a table utility.
-/

open Ds Ds.Prov BruteP ComposeP

/-- what `rowsTrue p S` is: strictly ascending, and `r` is listed iff `r` is a row position whose
formula is true under the indicator assignment of `S` -/
theorem C03_rowsTrue_spec (p : P) (S : Finset (Fin p.nUnits)) :
    (rowsTrue p S).Pairwise (· < ·) ∧
    (∀ r, r ∈ rowsTrue p S ↔ ∃ h : r < p.data.length, rowSem (ofSet S) p.data[r] = true) ∧
    (ofSet S).length = p.nUnits ∧
    (∀ i : Fin p.nUnits, (ofSet S).getD i.val 0 = if i ∈ S then 1 else 0) :=
  ⟨rowsTrueA_sorted p _, mem_rowsTrueA p _, by simp [ofSet], fun i => by
    simp [ofSet, List.getD_eq_getElem?_getD]⟩

theorem C03_rows (p : P) (util : List ℕ → Outcome) (null : ℚ) (hp : WellPadded p)
    (hutil : ∀ S : Finset (Fin p.nUnits), util (rowsTrue p S) ≠ .other) :
    ∃ L : List ℚ, Brute.scoresProv p util null = some L ∧ L.length = p.nUnits ∧
      ∀ i : Fin p.nUnits,
        L.getD i.val 0 = Sh.phiM (fun S => valOf null (util (rowsTrue p S))) i ∧
        L.getD i.val 0 = Sh.phi (fun S => valOf null (util (rowsTrue p S))) i := by
  rw [scoresProv_eq p util null hp]
  exact C03_main p.nUnits (fun S => util (rowsTrue p S)) null (fun a _ => hutil _)

theorem C03_rows_exprs (es : List Expr) (n k : ℕ) (util : List ℕ → Outcome) (null : ℚ)
    (hprop : ∀ e ∈ es, e.Proper) (hrange : ∀ e ∈ es, e.InRange n)
    (hutil : ∀ S : Finset (Fin n), util (rowsExpr es (ofSet S)) ≠ .other) :
    (∀ S : Finset (Fin n), rowsTrue (ofExprs es n k) S =
      (List.range es.length).filter (fun r => es[r]?.any (fun e => e.eval (ofSet S)))) ∧
    ∃ L : List ℚ, Brute.scoresProv (ofExprs es n k) util null = some L ∧ L.length = n ∧
      ∀ i : Fin n, L.getD i.val 0 =
        Sh.phiM (fun S => valOf null (util
          ((List.range es.length).filter (fun r => es[r]?.any (fun e => e.eval (ofSet S)))))) i := by
  have hrows : ∀ S : Finset (Fin n), rowsTrue (ofExprs es n k) S = rowsExpr es (ofSet S) :=
    fun S => rowsTrueA_ofExprs es n k _ hprop
  refine ⟨hrows, ?_⟩
  obtain ⟨L, h1, h2, h3⟩ := C03_rows (ofExprs es n k) util null (wellPadded_ofExprs es n k hrange)
    (fun S => by have h := hutil S; rw [← hrows S] at h; exact h)
  refine ⟨L, h1, h2, fun i => ?_⟩
  rw [(h3 i).1]
  congr 1
  funext S
  exact congrArg (fun r => valOf null (util r)) (hrows S)

theorem C03_rows_uncaught (p : P) (util : List ℕ → Outcome) (null : ℚ) (hp : WellPadded p)
    (h : ∃ S : Finset (Fin p.nUnits), util (rowsTrue p S) = .other) :
    Brute.scoresProv p util null = none := by
  obtain ⟨S, hS⟩ := h
  obtain ⟨a, ha, rfl⟩ := exists_mem_allAssign p.nUnits S
  rw [scoresProv_eq p util null hp]
  exact C03_uncaught _ _ null ⟨a, ha, hS⟩

/-! ### examples -/

/-- two units, three rows: `x0 == 1`, `x1 == 0` (a value-0 literal: true when unit 1 is ABSENT),
`x0 == 1 & x1 == 1` -/
def C03Rows_ex : P := ofExprs [Expr.eq 0 1, Expr.eq 1 0, (Expr.eq 0 1).and (Expr.eq 1 1)] 2

/-- a table utility on row lists; the empty training set raises `ValueError`; anything that is not a
selectable row list raises an unhandled exception -/
def C03Rows_util (rows : List ℕ) : Outcome :=
  if rows = [1] then .ok 1 else if rows = [0, 1] then .ok 4 else if rows = [] then .valueError
  else if rows = [0, 2] then .ok 6 else .other

/-- the rows selected by the four coalitions: `∅ ↦ [1]` (non-empty, because of the value-0 literal),
`{0} ↦ [0,1]`, `{1} ↦ []`, `{0,1} ↦ [0,2]` -/
example : rowsTrue C03Rows_ex (∅ : Finset (Fin 2)) = [1] ∧
    rowsTrue C03Rows_ex ({0} : Finset (Fin 2)) = [0, 1] ∧
    rowsTrue C03Rows_ex ({1} : Finset (Fin 2)) = [] ∧
    rowsTrue C03Rows_ex ({0, 1} : Finset (Fin 2)) = [0, 2] := by
  decide +kernel

/-- the hypotheses of `C03_rows` hold for the example -/
example : WellPadded C03Rows_ex ∧
    ∀ S : Finset (Fin C03Rows_ex.nUnits), C03Rows_util (rowsTrue C03Rows_ex S) ≠ .other := by
  decide +kernel

/-- the model's run: the game is `v ∅ = 1, v {0} = 4, v {1} = null = 0, v {0,1} = 6`, so
`φ₀ = ((4−1) + (6−0))/2 = 9/2` and `φ₁ = ((0−1) + (6−4))/2 = 1/2` -/
example : Brute.scoresProv C03Rows_ex C03Rows_util 0 = some [9/2, 1/2] := by
  decide +kernel

/-- the same numbers through `C03_rows`: they are the Shapley value of the rows game -/
example : ∀ i : Fin 2, ([9/2, 1/2] : List ℚ).getD i.val 0 =
    Sh.phiM (fun S => valOf 0 (C03Rows_util (rowsTrue C03Rows_ex S))) i := by
  obtain ⟨L, hL, _, hphi⟩ := C03_rows C03Rows_ex C03Rows_util 0 (by decide +kernel) (by decide +kernel)
  have e : Brute.scoresProv C03Rows_ex C03Rows_util 0 = some [9/2, 1/2] := by decide +kernel
  rw [e] at hL
  cases hL
  exact fun i => (hphi i).1

/-- `C03_rows_exprs` on the example: selected rows by expression evaluation -/
example : rowsTrue C03Rows_ex ({0} : Finset (Fin 2)) =
    (List.range 3).filter (fun r =>
      [Expr.eq 0 1, Expr.eq 1 0, (Expr.eq 0 1).and (Expr.eq 1 1)][r]?.any
        (fun e => e.eval (ofSet ({0} : Finset (Fin 2))))) :=
  (C03_rows_exprs _ 2 2 C03Rows_util 0 (by decide) (by decide) (by decide +kernel)).1 {0}

/-- `C03_rows_uncaught` is not vacuous: a utility that raises an unhandled exception on the rows
`[0,1]` of coalition `{0}` makes the method raise -/
example : Brute.scoresProv C03Rows_ex (fun rows => if rows = [0, 1] then .other else .ok 1) 0 = none :=
  C03_rows_uncaught _ _ 0 (by decide +kernel) ⟨({0} : Finset (Fin 2)), by decide +kernel⟩
