import DsProofs.AddPathProofs

/-!
# C02 — K-NN (K ≥ 1) and join-provenance neighbor scores are exact Shapley values

What these theorems say about the Python code (`shapley.py:compute_shapley_add`, the ADD scoring path
behind the neighbor method for `K > 1` or a non-trivial provenance, modelled by `Ds.Oracle.pointUnit` /
`Ds.Oracle.scores` over exact rationals; `oracle.py:ShapleyOracle.query` is modelled by `Ds.Oracle.query`):

* `knnGame` (defined in `DsProofs/AddPathProofs.lean`; restated here as `C02_game_def` / `C02_value_def`)
  is the by-definition K-NN utility game of ONE validation point over the units of a conjunctive
  provenance: a training row is *present* under a coalition `S` when all the units it depends on are in
  `S`; the value of `S` is the utility of the majority label (lowest class on ties = NumPy `argmax`)
  among the `K` nearest present rows, and the null score when fewer than `K` rows are present.
  "Nearest" refers to `order`, ANY list that is a permutation of the rows and strictly sorted by the
  distance column (so distances are pairwise distinct and the order is unique; the theorems cover
  whatever sort routine produced it).
* `C02_point` (core).  ORACLE HYPOTHESIS `AddPath.OracleSpec` (= what property C09 proves about
  `ShapleyOracle.query`): every query `(target i, boundary_with = row t1, boundary_without = row t2 or
  None)` returns, for each tally `(t, w, wo)` of the domain `ATally[n-1, K, c]`, the by-definition count
  `Ds.Oracle.countSpec`.  Then the triple loop of `compute_shapley_add` for one validation point and one
  unit `i` (over boundary pairs and tallies, with its six skip conditions, the two `argmax` calls and the
  weight `1 / C(n-1, t)`) terminates without exception and its result, divided by `n`, is EXACTLY the
  Shapley value (textbook marginal form `Sh.phiM`; `Sh.phiM_eq_phi` gives the coefficient form) of
  unit `i` in the K-NN game.  Needed besides: `K ≥ 1`, every row label `< c`, `order` as above.
  (`n ≥ 1` is implied by `i : Fin n`.  The theorem does not need the provenance to be conjunctive
  — `Ds.Oracle.Conjunctive` of `DsProofs/OracleProofs.lean`; `AddPath.conjunctiveOk` is a Boolean form
  used in the instances below: that predicate is what makes the oracle hypothesis attainable — C09 —
  and what makes `presentRows`, which reads the first disjunct only, the true presence of a row.)
* `C02_main`: for `nTest ≥ 0` validation points, if for each of them `build` (`ShapleyOracle.__init__`)
  succeeds and the oracle hypothesis holds, `scores` returns a list of length `n` whose entry `i` is the
  Shapley value of unit `i` in the MEAN over the validation points of the per-point K-NN games
  (linearity of the Shapley value; the code's final division by `n · nTest`).
* `C02_knn1`: for `K = 1` and one unit per row (row `r` depends on unit `r` only) the K-NN game IS the
  1-NN game `Ds.Kernel.nnGameU` of property C01 ("utility of the label of the nearest present unit, null
  if none"), so the dispatch between the kernel path and the ADD path computes the same game.
* `C02_null_below_K`: a coalition with fewer than `K` present rows has the null value;
  `C02_present_mono`: the present rows of a sub-coalition are among the present rows of the coalition.
-/

open Finset Ds Ds.Oracle AddPath

namespace DsProofs.C02

/-- The game, verbatim: `knnValue` on the 0/1 indicator list of the coalition. -/
theorem C02_game_def (p : Prov.P) (labels order : List ℕ) (util : List ℚ) (null : ℚ) (K c : ℕ)
    (S : Finset (Fin p.nUnits)) :
    knnGame p labels order util null K c S
      = knnValue p labels order util null K c (List.ofFn (fun i : Fin p.nUnits => if i ∈ S then 1 else 0)) := rfl

/-- The coalition value, verbatim: among the rows of `order` that are present, take the first `K`;
null if there are fewer, otherwise the utility of the first maximum of their label tally. -/
theorem C02_value_def (p : Prov.P) (labels order : List ℕ) (util : List ℚ) (null : ℚ) (K c : ℕ) (a : List ℕ) :
    knnValue p labels order util null K c a
      = if ((order.filter (presentRows p a).contains).take K).length < K then null
        else util.getD (argmaxFirst ((List.range c).map (fun k =>
          (((order.filter (presentRows p a).contains).take K).filter (fun r => labels.getD r 0 == k)).length))) 0 :=
  rfl

/-- **C02a (core).** One validation point, one unit: under the oracle hypothesis the loop of
`compute_shapley_add` returns `n ·` (Shapley value of unit `i` in the K-NN game). -/
theorem C02_point (p : Prov.P) (labels : List ℕ) (dist : List ℚ) (order : List ℕ) (K c : ℕ)
    (b : Built (Dom.tally (p.nUnits - 1) K c)) (utilJ : List ℚ) (nullJ : ℚ) (i : Fin p.nUnits)
    (hK : 1 ≤ K)
    (hperm : order.Perm (List.range p.data.length))
    (hsort : order.Pairwise (fun r s => dist.getD r 0 < dist.getD s 0))
    (hlab : ∀ r < p.data.length, labels.getD r 0 < c)
    (hq : OracleSpec p labels dist K c b i.val) :
    ∃ x : ℚ, pointUnit p.nUnits K c p.data.length b utilJ nullJ i.val = .ok x ∧
      x / (p.nUnits : ℚ) = Sh.phiM (knnGame p labels order utilJ nullJ K c) i := by
  refine ⟨_, point_core p labels dist order K c b utilJ nullJ i hK hperm hsort hlab hq, ?_⟩
  have hn : (p.nUnits : ℚ) ≠ 0 := by
    have : 0 < p.nUnits := i.pos
    exact_mod_cast this.ne'
  rw [mul_div_cancel_left₀ _ hn]

/-- the distinct-distance assumption is implied by the two assumptions on `order` -/
theorem C02_distinct (R : ℕ) (dist : List ℚ) (order : List ℕ)
    (hperm : order.Perm (List.range R))
    (hsort : order.Pairwise (fun r s => dist.getD r 0 < dist.getD s 0)) :
    ∀ r < R, ∀ s < R, dist.getD r 0 = dist.getD s 0 → r = s := by
  intro r hr s hs he
  by_contra hne
  have hr' : r ∈ order := hperm.mem_iff.mpr (List.mem_range.mpr hr)
  have hs' : s ∈ order := hperm.mem_iff.mpr (List.mem_range.mpr hs)
  have hsym : order.Pairwise (fun r s => dist.getD r 0 ≠ dist.getD s 0) :=
    hsort.imp (fun h => ne_of_lt h)
  have : Std.Symm (fun r s : ℕ => dist.getD r 0 ≠ dist.getD s 0) := ⟨fun _ _ h => h.symm⟩
  exact hsym.forall hr' hs' hne he

/-- **C02b.** All validation points: `scores` returns the Shapley values of the mean K-NN game.
`orders j` is the sorted row order of validation point `j`, `dist.map (·.getD j 0)` its distance column,
`util.map (·.getD j 0)` / `nulls.getD j 0` its utility row and null score. -/
theorem C02_main (p : Prov.P) (labels : List ℕ) (dist util : List (List ℚ)) (nulls : List ℚ) (K c : ℕ)
    (orders : ℕ → List ℕ) (hK : 1 ≤ K)
    (hperm : ∀ j < nulls.length, (orders j).Perm (List.range p.data.length))
    (hsort : ∀ j < nulls.length,
      (orders j).Pairwise (fun r s => (dist.map (·.getD j 0)).getD r 0 < (dist.map (·.getD j 0)).getD s 0))
    (hlab : ∀ r < p.data.length, labels.getD r 0 < c)
    (hb : ∀ j < nulls.length, ∃ b : Built (Dom.tally (p.nUnits - 1) K c),
      build (Dom.tally (p.nUnits - 1) K c) c p labels (dist.map (·.getD j 0)) = .ok b ∧
        ∀ i < p.nUnits, OracleSpec p labels (dist.map (·.getD j 0)) K c b i) :
    ∃ L : List ℚ, scores p labels dist util nulls K c = .ok L ∧ L.length = p.nUnits ∧
      ∀ i : Fin p.nUnits, L.getD i.val 0
        = Sh.phiM (fun S => (∑ j ∈ Finset.range nulls.length,
            knnGame p labels (orders j) (util.map (·.getD j 0)) (nulls.getD j 0) K c S)
              / (nulls.length : ℚ)) i := by
  refine ⟨_, scores_value p labels dist util nulls K c orders hK hperm hsort hlab hb, by simp, ?_⟩
  intro i
  rw [getD_range_map' _ i.isLt]
  have h := mean_entry p.nUnits nulls.length
    (fun j => knnGame p labels (orders j) (util.map (·.getD j 0)) (nulls.getD j 0) K c) i
  exact h

/-- **C02c.** `K = 1`, one unit per row: the K-NN game is the 1-NN game of the kernel path (C01). -/
theorem C02_knn1 (p : Prov.P) (labels order : List ℕ) (util : List ℚ) (null : ℚ) (c : ℕ)
    (hn : p.data.length = p.nUnits) (hrow : ∀ r < p.nUnits, rowUnits (p.data.getD r []) = [r])
    (hperm : order.Perm (List.range p.nUnits)) (hlab : ∀ r < p.nUnits, labels.getD r 0 < c)
    (hutil : c ≤ util.length) :
    knnGame p labels order util null 1 c = Ds.Kernel.nnGameU p.nUnits order labels util null :=
  knnGame_one_eq p labels order util null c hn hrow hperm hlab hutil

/-- **C02d.** Fewer than `K` present rows: the coalition has the null value. -/
theorem C02_null_below_K (p : Prov.P) (labels order : List ℕ) (util : List ℚ) (null : ℚ) (K c : ℕ)
    (hperm : order.Perm (List.range p.data.length)) (S : Finset (Fin p.nUnits))
    (h : (presentRows p (BruteP.ofSet S)).length < K) :
    knnGame p labels order util null K c S = null :=
  knnGame_null p labels order util null K c hperm S h

/-- **C02d'.** Conjunctive presence is monotone: the rows present under `S ⊆ T` are present under `T`
(in particular the unit's marginal contribution is `null − null = 0` while fewer than `K` rows are
present with the unit). -/
theorem C02_present_mono (p : Prov.P) {S T : Finset (Fin p.nUnits)} (h : S ⊆ T) :
    (presentRows p (BruteP.ofSet S)).Sublist (presentRows p (BruteP.ofSet T)) :=
  presentRows_ofSet_mono p h

/-! ### Concrete instances

`exP3`: three rows, row `r` depends on unit `r` only; labels `0,1,0`; distances `1,2,3` (so the sorted
order is `[0,1,2]`); two classes; the validation point has label 0 and the utility is accuracy
(`util = [1, 0]`), null score 0.  `exJoin`: the same rows, but row 0 needs units 0 and 1, row 1 needs
unit 1 and row 2 needs units 2 and 0. -/

/-- all hypotheses of `C02_main` hold for `exP3` with `K = 1` (the oracle hypothesis is checked by
running `build` / `query` of the model against `countSpec`), so the theorem applies: -/
example : ∃ L : List ℚ, scores exP3 [0,1,0] [[1],[2],[3]] [[1],[0]] [0] 1 2 = .ok L ∧ L.length = 3 ∧
    ∀ i : Fin 3, L.getD i.val 0
      = Sh.phiM (fun S => (∑ j ∈ Finset.range 1,
          knnGame exP3 [0,1,0] [0,1,2] ([[1],[0]].map (·.getD j 0)) (([0] : List ℚ).getD j 0) 1 2 S) / ((1 : ℕ) : ℚ)) i := by
  have hj : ∀ j < ([0] : List ℚ).length, j = 0 := by intro j hj; simpa using hj
  refine C02_main exP3 [0,1,0] [[1],[2],[3]] [[1],[0]] [0] 1 2 (fun _ => [0,1,2]) (by decide) ?_ ?_ (by decide) ?_
  · intro j _; decide
  · intro j h; rw [hj j h]; decide +kernel
  · intro j h; rw [hj j h]; exact buildCheck_sound _ _ _ _ _ (by decide +kernel)

/-- … and the numbers: the code returns `[5/6, −1/6, 1/3]`, the Shapley values of the 1-NN game -/
example : scores exP3 [0,1,0] [[1],[2],[3]] [[1],[0]] [0] 1 2 = .ok [5/6, -1/6, 1/3] := by decide +kernel

example : Sh.phiM (knnGame exP3 [0,1,0] [0,1,2] [1,0] 0 1 2) (0 : Fin 3) = 5/6
    ∧ Sh.phiM (knnGame exP3 [0,1,0] [0,1,2] [1,0] 0 1 2) (1 : Fin 3) = -1/6
    ∧ Sh.phiM (knnGame exP3 [0,1,0] [0,1,2] [1,0] 0 1 2) (2 : Fin 3) = 1/3 := by decide +kernel

/-- `C02_point` on the same instance: for the `Built` that `build` returns, unit 0 gets `3 · 5/6` -/
example (b : Built (Dom.tally 2 1 2)) (hb : build (Dom.tally 2 1 2) 2 exP3 [0,1,0] [1,2,3] = .ok b) :
    ∃ x : ℚ, pointUnit 3 1 2 3 b [1,0] 0 0 = .ok x ∧
      x / 3 = Sh.phiM (knnGame exP3 [0,1,0] [0,1,2] [1,0] 0 1 2) (0 : Fin 3) := by
  obtain ⟨b', hb', hq⟩ := buildCheck_sound exP3 [0,1,0] [1,2,3] 1 2 (by decide +kernel)
  have hbb : b' = b := by
    have h := hb'.symm.trans hb
    exact Except.ok.inj h
  subst hbb
  exact C02_point exP3 [0,1,0] [1,2,3] [0,1,2] 1 2 b' [1,0] 0 (0 : Fin 3) (by decide) (by decide)
    (by decide +kernel) (by decide) (hq 0 (by decide))

/-- `K = 2`, same data: the code returns `[1/3, 1/3, 1/3]`, the Shapley values of the 2-NN game -/
example : scores exP3 [0,1,0] [[1],[2],[3]] [[1],[0]] [0] 2 2 = .ok [1/3, 1/3, 1/3] := by decide +kernel

example : Sh.phiM (knnGame exP3 [0,1,0] [0,1,2] [1,0] 0 2 2) (0 : Fin 3) = 1/3
    ∧ Sh.phiM (knnGame exP3 [0,1,0] [0,1,2] [1,0] 0 2 2) (1 : Fin 3) = 1/3
    ∧ Sh.phiM (knnGame exP3 [0,1,0] [0,1,2] [1,0] 0 2 2) (2 : Fin 3) = 1/3 := by decide +kernel

/-- the hypotheses of `C02_knn1` hold for `exP3`, and both provenances are conjunctive -/
example : exP3.data.length = exP3.nUnits ∧ (∀ r < exP3.nUnits, rowUnits (exP3.data.getD r []) = [r])
    ∧ [0,1,2].Perm (List.range exP3.nUnits) ∧ (∀ r < exP3.nUnits, [0,1,0].getD r 0 < 2)
    ∧ 2 ≤ ([1,0] : List ℚ).length ∧ conjunctiveOk exP3 = true ∧ conjunctiveOk exJoin = true := by decide

/-- join provenance, `K = 1`: Shapley values of the K-NN game (the model's `scores` evaluates to the
same list `[2/3, 1/6, 1/6]` under `#eval`; its `compile` step uses well-founded recursion and cannot be
unfolded by `decide`) -/
example : Sh.phiM (knnGame exJoin [0,1,0] [0,1,2] [1,0] 0 1 2) (0 : Fin 3) = 2/3
    ∧ Sh.phiM (knnGame exJoin [0,1,0] [0,1,2] [1,0] 0 1 2) (1 : Fin 3) = 1/6
    ∧ Sh.phiM (knnGame exJoin [0,1,0] [0,1,2] [1,0] 0 1 2) (2 : Fin 3) = 1/6 := by decide +kernel

/-- `C02_null_below_K` / `C02_present_mono` on the join: unit 0 alone makes no row present, so for
`K = 1` its coalition has the null value (here `7`); with units 0 and 1 rows 0 and 1 are present -/
example : presentRows exJoin (BruteP.ofSet ({0} : Finset (Fin 3))) = []
    ∧ presentRows exJoin (BruteP.ofSet ({0, 1} : Finset (Fin 3))) = [0, 1]
    ∧ knnGame exJoin [0,1,0] [0,1,2] [1,0] 7 1 2 ({0} : Finset (Fin 3)) = 7 := by decide +kernel

end DsProofs.C02
