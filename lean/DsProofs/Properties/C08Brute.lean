import DsProofs.BruteProofs

/-!
# C08 (bruteforce half) — linearity and shift invariance of the enumeration scores

About `ShapleyImportance._shapley_bruteforce` (model: `Ds.Brute.scores`).

* `C08_brute_linear`: when every evaluation returns a score, the scores computed for the utility
  `a·u1 + b·u2` are `a·scores(u1) + b·scores(u2)`, entry by entry (for utilities given as arbitrary tables
  on 0/1 assignments, in particular for every cooperative game).
* `C08_brute_shift`: adding one constant to the value of every coalition does not change any score.
* `C08_brute_shift_null`: the same when some coalitions raise a handled exception, provided the null
  score is shifted by the same constant (the raising coalitions are worth the null score).
-/

open Ds BruteP

theorem C08_brute_linear (n : ℕ) (u1 u2 : List ℕ → ℚ) (a b null : ℚ) :
    ∃ L1 L2 L : List ℚ,
      Brute.scores n (fun x => .ok (u1 x)) null = some L1 ∧
      Brute.scores n (fun x => .ok (u2 x)) null = some L2 ∧
      Brute.scores n (fun x => .ok (a * u1 x + b * u2 x)) null = some L ∧
      L1.length = n ∧ L2.length = n ∧ L.length = n ∧
      ∀ i, i < n → L.getD i 0 = a * L1.getD i 0 + b * L2.getD i 0 := by
  refine ⟨_, _, _, scores_some n _ null (fun _ _ => by simp), scores_some n _ null (fun _ _ => by simp),
    scores_some n _ null (fun _ _ => by simp), by simp, by simp, by simp, ?_⟩
  intro i hi
  rw [getD_range_map _ hi, getD_range_map _ hi, getD_range_map _ hi]
  simp only [valOf]
  generalize Ds.allAssign n = l
  induction l with
  | nil => simp
  | cons x l ih => simp only [List.map_cons, List.sum_cons, ih]; ring

theorem C08_brute_shift (n : ℕ) (g : Finset (Fin n) → ℚ) (c null : ℚ) :
    Brute.scores n (fun x => .ok (g (toSet n x) + c)) null =
      Brute.scores n (fun x => .ok (g (toSet n x))) null := by
  rw [scores_eq_phi n (fun S => .ok (g S + c)) null (fun _ => by simp),
    scores_eq_phi n (fun S => .ok (g S)) null (fun _ => by simp)]
  congr 1
  apply List.map_congr_left
  intro i hi
  have hi' : i < n := List.mem_range.mp hi
  rw [dif_pos hi', dif_pos hi']
  simp only [valOf]
  rw [Sh.phi_add, Sh.phi_const, add_zero]

/-- shifting an outcome's score -/
def C08_shift (c : ℚ) : Outcome → Outcome
  | .ok s => .ok (s + c)
  | o => o

theorem C08_brute_shift_null (n : ℕ) (g : Finset (Fin n) → Outcome) (c null : ℚ)
    (h : ∀ S, g S ≠ .other) :
    Brute.scores n (fun x => C08_shift c (g (toSet n x))) (null + c) =
      Brute.scores n (fun x => g (toSet n x)) null := by
  have h' : ∀ S, C08_shift c (g S) ≠ .other := by
    intro S; have := h S; revert this; cases g S <;> simp [C08_shift]
  rw [scores_eq_phi n (fun S => C08_shift c (g S)) (null + c) h', scores_eq_phi n g null h]
  congr 1
  apply List.map_congr_left
  intro i hi
  have hi' : i < n := List.mem_range.mp hi
  rw [dif_pos hi', dif_pos hi']
  have e : (fun S => valOf (null + c) (C08_shift c (g S))) = fun S => valOf null (g S) + c := by
    funext S; cases g S <;> simp [C08_shift, valOf]
  rw [e, Sh.phi_add, Sh.phi_const, add_zero]

/-- concrete check of linearity on 2 units: scores of `2·u1 + 3·u2` -/
example :
    Brute.scores 2 (fun x => .ok (2 * (x.sum : ℚ) + 3 * (if x = [1, 1] then 1 else 0))) 0 = some [7/2, 7/2] ∧
    Brute.scores 2 (fun x => .ok (x.sum : ℚ)) 0 = some [1, 1] ∧
    Brute.scores 2 (fun x => .ok (if x = [1, 1] then 1 else 0)) 0 = some [1/2, 1/2] := by
  decide +kernel
