import DsProofs.RoundProofs

/-!
# C13 (rounding part) — the compiled kernel equals the reference kernel *to within rounding*, at every size

Property C13 says: the compiled kernel (`shapley_cy.pyx:compute_all_importances_cy`) returns the same
importance vector as the reference kernel (`shapley.py:compute_all_importances`) to within
double-precision rounding.  Both perform the same operations in the same order in IEEE double
arithmetic, and both are modelled by the ONE polymorphic program `Ds.Kernel.importances`.  The exact
theorems (C01) instantiate it at `ℚ`.  Here it is instantiated at

* `Rd fl` (`DsProofs/RoundProofs.lean`): a rational number whose `+`, `-`, `/` compute the exact result
  and then apply an arbitrary rounding function `fl : ℚ → ℚ`; natural-number casts are exact.
  `importances (α := Rd fl) …` is "the kernel run in rounded arithmetic".  The inputs (utilities, null
  values) are injected exactly (`inj fl l = l.map Rd.mk`): they are already machine numbers.

Hypotheses — the *standard model of floating-point arithmetic*, always explicit:

* `hε   : 0 ≤ ε`                              (redundant: it follows from `hfl` at `x = 1`,
                                               `DsProofs.Round.eps_nonneg_of_rel`; kept for readability);
* `hfl  : ∀ x, |fl x - x| ≤ ε * |x|`          every `+`, `-`, `/` has relative error at most `ε`
                                               (IEEE-754 binary64, round to nearest: `ε = 2⁻⁵³`, absent
                                               overflow and underflow);  it implies `fl 0 = 0`;
* `hnat : ∀ n : ℕ, fl n = n`                  natural numbers are machine numbers (true below `2⁵³`);
                                               needed because the model computes the denominator
                                               `(i : α) + (1 : α)` with the rounded `+`.
* every `orders[j]` is a permutation of the units (`isPerm n`), as in `C01_importances`; this makes every
  unit receive exactly one `+=` per validation point.

What the theorems say, in plain words (`n` units, `m` validation points, `Δ_j k = u_j[k] - u_j[k+1]`
the utility differences of point `j` in rank order, `u_j[n]` = null value):

* `C13_round_point`: one validation point.  The rounded score `ĉ_i` of rank `i` differs from the exact
  `c_i = Σ_{k≥i} Δ k/(k+1)` by at most `((1+ε)^(n-i+2) - 1) · Σ_{k≥i} |Δ k|/(k+1)`; and `|c_i|` is at most
  that sum.
* `C13_round_kernel`: the whole kernel.  For every unit `u`,
  `|rounded[u] - exact[u]| ≤ ((1+ε)^(n+m+3) - 1) · A u`,  where
  `A u = (1/m) Σ_j Σ_{k ≥ rank_j(u)} |Δ_j k|/(k+1)` (`C13_round_A_def`) is the exact score with every
  difference replaced by its absolute value; `|exact[u]| ≤ A u` (`C13_round_exact_le_A`).
  No bound on `n` or `m`; `m = 0` is allowed (both sides are `0`).
* `C13_round_A_le`, `C13_round_kernel_bounded`: if all utilities and null values are at most `M` in
  absolute value then `A u ≤ 2·M·H n` (`H n = 1 + 1/2 + … + 1/n`), so the error is at most
  `((1+ε)^(n+m+3) - 1)·2·M·H n`.
* `C13_round_twin`: two implementations with two (possibly different) rounding functions that both
  satisfy the standard model with the same `ε` differ by at most twice the bound.  This is the clause
  "compiled kernel = reference kernel to within rounding, at every size".
* `C13_round_gamma`: `k·ε < 1 → (1+ε)^k - 1 ≤ k·ε/(1 - k·ε)`.
  `C13_round_double`: for `ε = 2⁻⁵³` and `n, m ≤ 2²⁰`: `(1+ε)^(n+m+3) - 1 ≤ 2.4·10⁻¹⁰`.
  `C13_round_harmonic`: `H n ≤ 1 + ⌊log₂ n⌋` for `n ≥ 1`.
  `C13_round_double_kernel` / `C13_round_double_twin`: all together, for binary64 and up to `2²⁰` units
  and `2²⁰` validation points: error `≤ 2.4·10⁻¹⁰ · 2·M·(1 + log₂ n)`, twin difference at most twice that.
* `C13_round_exact`: with `ε = 0` (in particular `fl = id`) the rounded kernel IS the exact kernel.
* Non-vacuity: `flEx` (adds `1/3000` to `1/3`, identity elsewhere) satisfies the standard model with
  `ε = 1/1000`, is not the identity, and the rounded kernel differs from the exact one on the three-unit
  example of `Properties/C01.lean` — by exactly `1/3000` in every slot, within the bound of the theorem.

Not covered: overflow, underflow/subnormals (where `hfl` fails for IEEE arithmetic), NaN/inf inputs, and
compilers that reassociate or fuse operations (`-ffast-math`, FMA contraction), which would change the
program, not the rounding.
-/

open Finset Ds.Kernel DsProofs.Round

namespace DsProofs.C13Round

/-! ## One validation point -/

/-- **C13-round (a).**  One validation point: rank `i` of the rounded backward loop is within
`(1+ε)^(n-i+2) - 1` of the exact rank score, relative to `Σ_{k≥i} |Δ k|/(k+1)`. -/
theorem C13_round_point (fl : ℚ → ℚ) (ε : ℚ) (hε : 0 ≤ ε) (hfl : ∀ x : ℚ, |fl x - x| ≤ ε * |x|)
    (hnat : ∀ n : ℕ, fl (n : ℚ) = n) (us : List ℚ) (null : ℚ) (i : ℕ) (hi : i < us.length) :
    |((rankScores (inj fl us) (⟨null⟩ : Rd fl)).getD i ⟨0⟩).v - (rankScores us null).getD i 0|
      ≤ ((1 + ε) ^ (us.length - i + 2) - 1)
          * ∑ k ∈ range us.length,
              if i ≤ k then |(us ++ [null]).getD k 0 - (us ++ [null]).getD (k+1) 0| / ((k : ℚ) + 1) else 0 :=
  (rankScores_round ⟨hε, hfl, hnat⟩ us null i hi).2

/-- the exact rank score is bounded by the same sum of absolute values -/
theorem C13_round_point_magnitude (us : List ℚ) (null : ℚ) (i : ℕ) (hi : i < us.length) :
    |(rankScores us null).getD i 0|
      ≤ ∑ k ∈ range us.length,
          if i ≤ k then |(us ++ [null]).getD k 0 - (us ++ [null]).getD (k+1) 0| / ((k : ℚ) + 1) else 0 :=
  (rankScores_round (fl := id) (ε := 0) ⟨le_refl _, fun x => by simp, fun n => rfl⟩ us null i hi).1

/-! ## The whole kernel -/

/-- The definition of `A`, written out: the mean over the validation points `j` of
`Σ_{k ≥ rank_j(u)} |us_j[k] - us_j[k+1]| / (k+1)`, where `us_j` = utilities of point `j` in rank order
followed by the null value, and `rank_j(u)` = position of `u` in `orders[j]`. -/
theorem C13_round_A_def (m : ℕ) (labels orders : List (List ℕ)) (utils : List (List ℚ)) (nulls : List ℚ)
    (u : ℕ) :
    A m labels orders utils nulls u
      = (∑ j ∈ range m,
          ∑ k ∈ range (usOf (labels.getD j []) (orders.getD j []) (utils.getD j []) (nulls.getD j 0)).length,
            if (orders.getD j []).idxOf u ≤ k then
              |(usOf (labels.getD j []) (orders.getD j []) (utils.getD j []) (nulls.getD j 0)
                    ++ [nulls.getD j 0]).getD k 0
                - (usOf (labels.getD j []) (orders.getD j []) (utils.getD j []) (nulls.getD j 0)
                    ++ [nulls.getD j 0]).getD (k+1) 0| / ((k : ℚ) + 1)
            else 0) / (m : ℚ) := rfl

/-- `H n = Σ_{k<n} 1/(k+1)` -/
theorem C13_round_H_def (n : ℕ) : H n = ∑ k ∈ range n, 1 / ((k : ℚ) + 1) := rfl

/-- **C13-round (b).**  The whole kernel in rounded arithmetic is within `(1+ε)^(n+m+3) - 1` of the exact
kernel, relative to `A u`. -/
theorem C13_round_kernel (fl : ℚ → ℚ) (ε : ℚ) (hε : 0 ≤ ε) (hfl : ∀ x : ℚ, |fl x - x| ≤ ε * |x|)
    (hnat : ∀ n : ℕ, fl (n : ℚ) = n)
    (n m : ℕ) (labels orders : List (List ℕ)) (utils : List (List ℚ)) (nulls : List ℚ)
    (hl : labels.length = m) (ho : orders.length = m) (hU : utils.length = m) (hN : nulls.length = m)
    (hp : ∀ o ∈ orders, isPerm n o = true) (u : ℕ) (hu : u < n) :
    |((importances n labels orders (utils.map (inj fl)) (inj fl nulls)).getD u (⟨0⟩ : Rd fl)).v
        - (importances n labels orders utils nulls).getD u 0|
      ≤ ((1 + ε) ^ (n + m + 3) - 1) * A m labels orders utils nulls u :=
  (importances_round ⟨hε, hfl, hnat⟩ n m labels orders utils nulls hl ho hU hN hp u hu).2

/-- the exact score is at most `A u` in absolute value: `A u` is the natural scale of the result -/
theorem C13_round_exact_le_A (n m : ℕ) (labels orders : List (List ℕ)) (utils : List (List ℚ)) (nulls : List ℚ)
    (hl : labels.length = m) (ho : orders.length = m) (hU : utils.length = m) (hN : nulls.length = m)
    (hp : ∀ o ∈ orders, isPerm n o = true) (u : ℕ) (hu : u < n) :
    |(importances n labels orders utils nulls).getD u 0| ≤ A m labels orders utils nulls u :=
  (importances_round (fl := id) (ε := 0) ⟨le_refl _, fun x => by simp, fun n => rfl⟩
    n m labels orders utils nulls hl ho hU hN hp u hu).1

/-- utilities and null values bounded by `M`: `A u ≤ 2·M·H n` -/
theorem C13_round_A_le (n m : ℕ) (hm : 0 < m) (labels orders : List (List ℕ)) (utils : List (List ℚ))
    (nulls : List ℚ) (ho : orders.length = m) (hU : utils.length = m) (hN : nulls.length = m)
    (hp : ∀ o ∈ orders, isPerm n o = true) (M : ℚ)
    (hUM : ∀ U ∈ utils, ∀ x ∈ U, |x| ≤ M) (hNM : ∀ x ∈ nulls, |x| ≤ M) (u : ℕ) :
    A m labels orders utils nulls u ≤ 2 * M * H n :=
  A_le n m hm labels orders utils nulls ho hU hN hp M hUM hNM u

/-- **C13-round (b′).**  With utilities bounded by `M` the error is at most
`((1+ε)^(n+m+3) - 1)·2·M·H n`. -/
theorem C13_round_kernel_bounded (fl : ℚ → ℚ) (ε : ℚ) (hε : 0 ≤ ε) (hfl : ∀ x : ℚ, |fl x - x| ≤ ε * |x|)
    (hnat : ∀ n : ℕ, fl (n : ℚ) = n)
    (n m : ℕ) (hm : 0 < m) (labels orders : List (List ℕ)) (utils : List (List ℚ)) (nulls : List ℚ)
    (hl : labels.length = m) (ho : orders.length = m) (hU : utils.length = m) (hN : nulls.length = m)
    (hp : ∀ o ∈ orders, isPerm n o = true) (M : ℚ)
    (hUM : ∀ U ∈ utils, ∀ x ∈ U, |x| ≤ M) (hNM : ∀ x ∈ nulls, |x| ≤ M) (u : ℕ) (hu : u < n) :
    |((importances n labels orders (utils.map (inj fl)) (inj fl nulls)).getD u (⟨0⟩ : Rd fl)).v
        - (importances n labels orders utils nulls).getD u 0|
      ≤ ((1 + ε) ^ (n + m + 3) - 1) * (2 * M * H n) :=
  le_trans (C13_round_kernel fl ε hε hfl hnat n m labels orders utils nulls hl ho hU hN hp u hu)
    (mul_le_mul_of_nonneg_left (A_le n m hm labels orders utils nulls ho hU hN hp M hUM hNM u)
      (g_nonneg hε _))

/-! ## Two implementations -/

/-- **C13-round (c).**  Two runs of the kernel with two rounding functions that both satisfy the
standard model with unit roundoff `ε` differ, in every slot, by at most twice the bound. -/
theorem C13_round_twin (fl₁ fl₂ : ℚ → ℚ) (ε : ℚ) (hε : 0 ≤ ε)
    (hfl₁ : ∀ x : ℚ, |fl₁ x - x| ≤ ε * |x|) (hnat₁ : ∀ n : ℕ, fl₁ (n : ℚ) = n)
    (hfl₂ : ∀ x : ℚ, |fl₂ x - x| ≤ ε * |x|) (hnat₂ : ∀ n : ℕ, fl₂ (n : ℚ) = n)
    (n m : ℕ) (labels orders : List (List ℕ)) (utils : List (List ℚ)) (nulls : List ℚ)
    (hl : labels.length = m) (ho : orders.length = m) (hU : utils.length = m) (hN : nulls.length = m)
    (hp : ∀ o ∈ orders, isPerm n o = true) (u : ℕ) (hu : u < n) :
    |((importances n labels orders (utils.map (inj fl₁)) (inj fl₁ nulls)).getD u (⟨0⟩ : Rd fl₁)).v
        - ((importances n labels orders (utils.map (inj fl₂)) (inj fl₂ nulls)).getD u (⟨0⟩ : Rd fl₂)).v|
      ≤ 2 * (((1 + ε) ^ (n + m + 3) - 1) * A m labels orders utils nulls u) := by
  have h1 := C13_round_kernel fl₁ ε hε hfl₁ hnat₁ n m labels orders utils nulls hl ho hU hN hp u hu
  have h2 := C13_round_kernel fl₂ ε hε hfl₂ hnat₂ n m labels orders utils nulls hl ho hU hN hp u hu
  rw [abs_sub_comm] at h2
  have := abs_sub_le
    ((importances n labels orders (utils.map (inj fl₁)) (inj fl₁ nulls)).getD u (⟨0⟩ : Rd fl₁)).v
    ((importances n labels orders utils nulls).getD u 0)
    ((importances n labels orders (utils.map (inj fl₂)) (inj fl₂ nulls)).getD u (⟨0⟩ : Rd fl₂)).v
  linarith

/-! ## Numbers -/

/-- **γ-lemma.**  `k·ε < 1 → (1+ε)^k - 1 ≤ k·ε/(1 - k·ε)`. -/
theorem C13_round_gamma (ε : ℚ) (hε : 0 ≤ ε) (k : ℕ) (hk : (k : ℚ) * ε < 1) :
    (1 + ε) ^ k - 1 ≤ k * ε / (1 - k * ε) := gamma_le hε k hk

/-- binary64 (`ε = 2⁻⁵³`), at most `2²⁰` units and `2²⁰` validation points: the relative factor is at
most `2.4·10⁻¹⁰`. -/
theorem C13_round_double (n m : ℕ) (hn : n ≤ 2 ^ 20) (hm : m ≤ 2 ^ 20) :
    (1 + (1 : ℚ) / 2 ^ 53) ^ (n + m + 3) - 1 ≤ 24 / 10 ^ 11 := by
  have hε : (0 : ℚ) ≤ 1 / 2 ^ 53 := by positivity
  have h1 : (1 + (1 : ℚ) / 2 ^ 53) ^ (n + m + 3) - 1 ≤ (1 + (1 : ℚ) / 2 ^ 53) ^ (2 ^ 21 + 3) - 1 :=
    g_mono hε (by omega)
  have h2 := gamma_le hε (2 ^ 21 + 3) (by norm_num)
  have h3 : (((2 ^ 21 + 3 : ℕ) : ℚ)) * (1 / 2 ^ 53) / (1 - ((2 ^ 21 + 3 : ℕ) : ℚ) * (1 / 2 ^ 53))
      ≤ 24 / 10 ^ 11 := by norm_num
  exact le_trans h1 (le_trans h2 h3)

/-- `H n ≤ 1 + ⌊log₂ n⌋` for `n ≥ 1` -/
theorem C13_round_harmonic (n : ℕ) (hn : 1 ≤ n) : H n ≤ 1 + (Nat.log2 n : ℚ) := H_le_log2 n hn

/-- **C13-round, binary64.**  Standard model with `ε = 2⁻⁵³`, `n ≤ 2²⁰` units, `1 ≤ m ≤ 2²⁰` validation
points, utilities and null values bounded by `M`: every slot of the rounded kernel is within
`2.4·10⁻¹⁰ · 2·M·(1 + log₂ n)` of the exact Shapley value. -/
theorem C13_round_double_kernel (fl : ℚ → ℚ) (hfl : ∀ x : ℚ, |fl x - x| ≤ (1 / 2 ^ 53) * |x|)
    (hnat : ∀ n : ℕ, fl (n : ℚ) = n)
    (n m : ℕ) (hn : n ≤ 2 ^ 20) (hm : 0 < m) (hm' : m ≤ 2 ^ 20)
    (labels orders : List (List ℕ)) (utils : List (List ℚ)) (nulls : List ℚ)
    (hl : labels.length = m) (ho : orders.length = m) (hU : utils.length = m) (hN : nulls.length = m)
    (hp : ∀ o ∈ orders, isPerm n o = true) (M : ℚ)
    (hUM : ∀ U ∈ utils, ∀ x ∈ U, |x| ≤ M) (hNM : ∀ x ∈ nulls, |x| ≤ M) (u : ℕ) (hu : u < n) :
    |((importances n labels orders (utils.map (inj fl)) (inj fl nulls)).getD u (⟨0⟩ : Rd fl)).v
        - (importances n labels orders utils nulls).getD u 0|
      ≤ 24 / 10 ^ 11 * (2 * M * (1 + (Nat.log2 n : ℚ))) := by
  have hε : (0 : ℚ) ≤ 1 / 2 ^ 53 := by positivity
  have h := C13_round_kernel_bounded fl _ hε hfl hnat n m hm labels orders utils nulls hl ho hU hN hp M
    hUM hNM u hu
  have hM : 0 ≤ M := le_trans (abs_nonneg _)
    (hNM _ (getD_mem' nulls 0 (show 0 < nulls.length by omega)))
  have hH := H_le_log2 n (by omega)
  have hg := C13_round_double n m hn hm'
  have h1 : 2 * M * H n ≤ 2 * M * (1 + (Nat.log2 n : ℚ)) :=
    mul_le_mul_of_nonneg_left hH (by positivity)
  have h2 : 0 ≤ 2 * M * H n := mul_nonneg (by positivity) (H_nonneg n)
  calc _ ≤ ((1 + (1 : ℚ) / 2 ^ 53) ^ (n + m + 3) - 1) * (2 * M * H n) := h
    _ ≤ 24 / 10 ^ 11 * (2 * M * H n) := mul_le_mul_of_nonneg_right hg h2
    _ ≤ 24 / 10 ^ 11 * (2 * M * (1 + (Nat.log2 n : ℚ))) := mul_le_mul_of_nonneg_left h1 (by positivity)

/-- **C13, binary64, compiled vs reference.**  Two binary64 implementations of the kernel differ by at
most `4.8·10⁻¹⁰ · 2·M·(1 + log₂ n)` in every slot, for every `n ≤ 2²⁰`, `1 ≤ m ≤ 2²⁰`. -/
theorem C13_round_double_twin (fl₁ fl₂ : ℚ → ℚ)
    (hfl₁ : ∀ x : ℚ, |fl₁ x - x| ≤ (1 / 2 ^ 53) * |x|) (hnat₁ : ∀ n : ℕ, fl₁ (n : ℚ) = n)
    (hfl₂ : ∀ x : ℚ, |fl₂ x - x| ≤ (1 / 2 ^ 53) * |x|) (hnat₂ : ∀ n : ℕ, fl₂ (n : ℚ) = n)
    (n m : ℕ) (hn : n ≤ 2 ^ 20) (hm : 0 < m) (hm' : m ≤ 2 ^ 20)
    (labels orders : List (List ℕ)) (utils : List (List ℚ)) (nulls : List ℚ)
    (hl : labels.length = m) (ho : orders.length = m) (hU : utils.length = m) (hN : nulls.length = m)
    (hp : ∀ o ∈ orders, isPerm n o = true) (M : ℚ)
    (hUM : ∀ U ∈ utils, ∀ x ∈ U, |x| ≤ M) (hNM : ∀ x ∈ nulls, |x| ≤ M) (u : ℕ) (hu : u < n) :
    |((importances n labels orders (utils.map (inj fl₁)) (inj fl₁ nulls)).getD u (⟨0⟩ : Rd fl₁)).v
        - ((importances n labels orders (utils.map (inj fl₂)) (inj fl₂ nulls)).getD u (⟨0⟩ : Rd fl₂)).v|
      ≤ 2 * (24 / 10 ^ 11 * (2 * M * (1 + (Nat.log2 n : ℚ)))) := by
  have h1 := C13_round_double_kernel fl₁ hfl₁ hnat₁ n m hn hm hm' labels orders utils nulls hl ho hU hN hp M
    hUM hNM u hu
  have h2 := C13_round_double_kernel fl₂ hfl₂ hnat₂ n m hn hm hm' labels orders utils nulls hl ho hU hN hp M
    hUM hNM u hu
  rw [abs_sub_comm] at h2
  have := abs_sub_le
    ((importances n labels orders (utils.map (inj fl₁)) (inj fl₁ nulls)).getD u (⟨0⟩ : Rd fl₁)).v
    ((importances n labels orders utils nulls).getD u 0)
    ((importances n labels orders (utils.map (inj fl₂)) (inj fl₂ nulls)).getD u (⟨0⟩ : Rd fl₂)).v
  linarith

/-! ## ε = 0 and non-vacuity -/

/-- **C13-round (d).**  With `ε = 0` (no rounding: `fl x = x` for all `x`, e.g. `fl = id`) the kernel run
in `Rd fl` returns exactly the `ℚ` kernel — the whole vector. -/
theorem C13_round_exact (fl : ℚ → ℚ) (hfl : ∀ x : ℚ, |fl x - x| ≤ 0 * |x|)
    (n m : ℕ) (labels orders : List (List ℕ)) (utils : List (List ℚ)) (nulls : List ℚ)
    (hl : labels.length = m) (ho : orders.length = m) (hU : utils.length = m) (hN : nulls.length = m)
    (hp : ∀ o ∈ orders, isPerm n o = true) :
    (importances n labels orders (utils.map (inj fl)) (inj fl nulls)).map (·.v)
      = importances n labels orders utils nulls := by
  have hid : ∀ x, fl x = x := by
    intro x
    have := hfl x
    rw [zero_mul] at this
    exact sub_eq_zero.mp (abs_nonpos_iff.mp this)
  apply ext_getD (by rw [List.length_map, importances_inj_length]) (importances_length _ _ _ _ _)
  intro u hu
  have h := C13_round_kernel fl 0 (le_refl _) hfl (fun k => hid _) n m labels orders utils nulls hl ho hU hN
    hp u hu
  rw [add_zero, one_pow, sub_self, zero_mul] at h
  have e : ((importances n labels orders (utils.map (inj fl)) (inj fl nulls)).map (·.v)).getD u 0
      = ((importances n labels orders (utils.map (inj fl)) (inj fl nulls)).getD u (⟨0⟩ : Rd fl)).v :=
    getD_map_lt' _ _ (⟨0⟩ : Rd fl) 0 u (by rw [importances_inj_length]; exact hu)
  rw [e]
  exact sub_eq_zero.mp (abs_nonpos_iff.mp h)

/-- the identity rounding: the instance `fl = id` of `C13_round_exact` -/
example (n m : ℕ) (labels orders : List (List ℕ)) (utils : List (List ℚ)) (nulls : List ℚ)
    (hl : labels.length = m) (ho : orders.length = m) (hU : utils.length = m) (hN : nulls.length = m)
    (hp : ∀ o ∈ orders, isPerm n o = true) :
    (importances n labels orders (utils.map (inj id)) (inj id nulls)).map (·.v)
      = importances n labels orders utils nulls :=
  C13_round_exact id (fun x => by simp) n m labels orders utils nulls hl ho hU hN hp

/-- a rounding function that is NOT the identity: `1/3 ↦ 1/3 + 1/3000`, everything else exact -/
def flEx (x : ℚ) : ℚ := if x = 1/3 then 1/3 + 1/3000 else x

/-- `flEx` satisfies the standard model with `ε = 1/1000` and is not the identity -/
theorem C13_round_flEx :
    (0 : ℚ) ≤ 1/1000 ∧ (∀ x : ℚ, |flEx x - x| ≤ 1/1000 * |x|) ∧ (∀ n : ℕ, flEx (n : ℚ) = n)
      ∧ flEx (1/3) ≠ 1/3 := by
  refine ⟨by norm_num, ?_, ?_, by unfold flEx; norm_num⟩
  · intro x
    unfold flEx
    split_ifs with h
    · subst h; norm_num [abs_of_nonneg]
    · rw [sub_self, abs_zero]; positivity
  · intro n
    unfold flEx
    rw [if_neg]
    intro h
    have h3 : ((3 * n : ℕ) : ℚ) = ((1 : ℕ) : ℚ) := by push_cast; rw [h]; norm_num
    have := Nat.cast_injective h3
    omega

/-- on the three-unit example of `Properties/C01.lean` the kernel rounded by `flEx` returns
`[2501/3000, -499/3000, 1001/3000]` while the exact kernel returns `[5/6, -1/6, 1/3]`:
every slot is off by exactly `1/3000` -/
theorem C13_round_flEx_differs :
    (importances (α := Rd flEx) 3 [[0,1,0]] [[0,1,2]] ([[1,0]].map (inj flEx)) (inj flEx [0])).map (·.v)
        = [2501/3000, -499/3000, 1001/3000]
      ∧ importances (α := ℚ) 3 [[0,1,0]] [[0,1,2]] [[1,0]] [0] = [5/6, -1/6, 1/3] := by
  decide +kernel

/-- … and this is within the bound of `C13_round_kernel` (here `A 0 = 11/6`, `(1.001)^7 - 1 > 0.007`) -/
theorem C13_round_flEx_within :
    |((importances 3 [[0,1,0]] [[0,1,2]] ([[1,0]].map (inj flEx)) (inj flEx [0])).getD 0 (⟨0⟩ : Rd flEx)).v
        - (importances 3 [[0,1,0]] [[0,1,2]] [[1,0]] [0]).getD 0 0|
      ≤ ((1 + 1/1000) ^ (3 + 1 + 3) - 1) * A 1 [[0,1,0]] [[0,1,2]] [[1,0]] [0] 0 :=
  C13_round_kernel flEx (1/1000) C13_round_flEx.1 C13_round_flEx.2.1 C13_round_flEx.2.2.1 3 1 _ _ _ _
    rfl rfl rfl rfl (by decide) 0 (by decide)

end DsProofs.C13Round
