import DsProofs.UtilProofs

/-!
# C14 — element-wise utilities decompose the metric they stand for

What these theorems say about the Python code (`datascope/importance/utility.py`:
`SklearnModelAccuracy` / `SklearnModelRocAuc`, methods `elementwise_score`,
`elementwise_null_score`, `null_score`; modelled by `Ds.Util.accElem`, `accNullElem`, `accNull`,
`aucElem`, `aucNullElem`, and the metrics `accuracy` = `accuracy_score`, `aucHard` =
`roc_auc_score` on hard 0/1 predictions).  `classes` is the list of training classes, `yTest` the
validation labels, `pred` a vector of predicted labels; table entries are `[class][point]`.

* `C14_acc` (C14a): take any prediction vector `pred` over the training classes
  (`pred.length = yTest.length`, every `pred[j] ∈ classes`).  Reading, for each validation point `j`,
  the entry of the element-wise accuracy table in the row of the predicted class, and averaging over
  `j`, gives exactly `accuracy_score(yTest, pred)`.  (`classes` needs no further hypothesis: duplicates
  would be harmless because `idxOf` picks the first occurrence; `yTest = []` gives `0 = 0`.)
  `C14_acc_entries` is the stronger, entry-by-entry form: the list of selected entries IS the list of
  per-point 0/1 correctness indicators.
* `C14_acc_null` (C14b): for a non-empty class list, `elementwise_null_score` is the indicator vector
  `[y_j == c]` of the FIRST class `c` (in list order: `classes = pre ++ c :: post`, everything in `pre`
  has strictly larger constant-prediction accuracy, everything in `post` has accuracy `≥`) whose constant
  prediction has minimal accuracy; its mean is that minimal accuracy `m`; and `null_score` returns
  the same `m`.  `C14_acc_null_min`: `m ≤` accuracy of every constant training class and is attained.
* `C14_auc` (C14c): binary classes `[a, b]`, `a ≠ b`, all validation labels in `{a, b}`, both present.
  Then `elementwise_score` is defined (`some M`; otherwise the real code divides by zero) and for every
  hard prediction vector `pred` over `{a, b}` the SUM over validation points of the entry selected by
  the prediction equals `roc_auc_score` of that hard prediction, `(TP/P + TN/N)/2` —
  with either class taken as the positive one (`aucHard b` and `aucHard a` coincide).
  `C14_auc_table`: the table itself is `M[k][j] = [k = y_j] / (2·#{i : y_i = y_j})`.
* `C14_auc_null` (C14d): under the same hypotheses `elementwise_null_score` is defined and its entries
  add up to `1/2`, the ROC-AUC of a constant prediction.
-/

open Ds.Util

namespace DsProofs.C14

/-- **C14a (entries).** The entries selected by the predictions are the per-point correctness indicators. -/
theorem C14_acc_entries (classes yTest pred : List Int) (hlen : pred.length = yTest.length)
    (hmem : ∀ p ∈ pred, p ∈ classes) :
    (List.range yTest.length).map
        (fun j => ((accElem classes yTest).getD (classes.idxOf (pred.getD j 0)) []).getD j 0)
      = (yTest.zip pred).map (fun p => ind (p.1 == p.2)) :=
  acc_select_eq classes yTest pred hlen hmem

/-- **C14a.** Mean over validation points of the element-wise score of the predicted label = accuracy. -/
theorem C14_acc (classes yTest pred : List Int) (hlen : pred.length = yTest.length)
    (hmem : ∀ p ∈ pred, p ∈ classes) :
    mean ((List.range yTest.length).map
        (fun j => ((accElem classes yTest).getD (classes.idxOf (pred.getD j 0)) []).getD j 0))
      = accuracy yTest pred := by
  rw [C14_acc_entries classes yTest pred hlen hmem]
  rfl

/-- **C14b.** `elementwise_null_score` is the indicator of the first class of minimal constant-prediction
accuracy; its mean, and `null_score`, are that minimal accuracy. -/
theorem C14_acc_null (classes yTest : List Int) (hc : classes ≠ []) :
    ∃ pre c post, classes = pre ++ c :: post
      ∧ (∀ x ∈ pre, accuracy yTest (yTest.map (fun _ => c)) < accuracy yTest (yTest.map (fun _ => x)))
      ∧ (∀ x ∈ post, accuracy yTest (yTest.map (fun _ => c)) ≤ accuracy yTest (yTest.map (fun _ => x)))
      ∧ accNullElem classes yTest = yTest.map (fun y => ind (y == c))
      ∧ mean (accNullElem classes yTest) = accuracy yTest (yTest.map (fun _ => c))
      ∧ accNull classes yTest = some (accuracy yTest (yTest.map (fun _ => c))) := by
  cases classes with
  | nil => exact absurd rfl hc
  | cons c0 t =>
    obtain ⟨pre, c, post, hsplit, hpre, hpost, hfold⟩ :=
      argFold_spec (fun x => mean (yTest.map (fun y => ind (y == x))))
        (fun x => yTest.map (fun y => ind (y == x))) (yTest.map (fun _ => (0 : ℚ))) c0 t
    have hE : accNullElem (c0 :: t) yTest = yTest.map (fun y => ind (y == c)) := by
      rw [accNullElem_eq_fold, hfold]
    refine ⟨pre, c, post, hsplit, ?_, ?_, hE, ?_, ?_⟩
    · intro x hx; rw [accuracy_const, accuracy_const]; exact hpre x hx
    · intro x hx; rw [accuracy_const, accuracy_const]; exact hpost x hx
    · rw [hE, accuracy_const]
    · have hcm : c ∈ c0 :: t := by rw [hsplit]; simp
      unfold accNull
      simp only [List.map_cons, Option.some.injEq]
      apply foldl_min_eq
      · rw [← List.map_cons (f := fun x => accuracy yTest (yTest.map (fun _ => x)))]
        exact List.mem_map.mpr ⟨c, hcm, rfl⟩
      · intro v hv
        rw [← List.map_cons (f := fun x => accuracy yTest (yTest.map (fun _ => x)))] at hv
        obtain ⟨x, hx, rfl⟩ := List.mem_map.mp hv
        rw [accuracy_const, accuracy_const]
        rw [hsplit] at hx
        rcases List.mem_append.mp hx with h | h
        · exact le_of_lt (hpre x h)
        · rcases List.mem_cons.mp h with h | h
          · rw [h]
          · exact hpost x h

/-- **C14b (minimum).** The common value `m` of `mean (elementwise_null_score)` and `null_score` is the
minimum over the training classes of the accuracy of predicting that class everywhere. -/
theorem C14_acc_null_min (classes yTest : List Int) (hc : classes ≠ []) :
    ∃ m, mean (accNullElem classes yTest) = m ∧ accNull classes yTest = some m
      ∧ (∀ x ∈ classes, m ≤ accuracy yTest (yTest.map (fun _ => x)))
      ∧ (∃ c ∈ classes, m = accuracy yTest (yTest.map (fun _ => c))) := by
  obtain ⟨pre, c, post, hsplit, hpre, hpost, _, hmean, hnull⟩ := C14_acc_null classes yTest hc
  have hcm : c ∈ classes := by rw [hsplit]; simp
  refine ⟨_, hmean, hnull, ?_, c, hcm, rfl⟩
  intro x hx
  rw [hsplit] at hx
  rcases List.mem_append.mp hx with h | h
  · exact le_of_lt (hpre x h)
  · rcases List.mem_cons.mp h with h | h
    · rw [h]
    · exact hpost x h

/-- **C14c (table).** On binary labels the element-wise AUC table is `[k = y_j] / (2·count(y_j))`. -/
theorem C14_auc_table (yTest : List Int) (a b : Int) (hab : a ≠ b) (hy : ∀ y ∈ yTest, y = a ∨ y = b)
    (ha : a ∈ yTest) (hb : b ∈ yTest) :
    aucElem [a, b] yTest
      = some [yTest.map (fun y => ind (a == y) / (2 * (count yTest y : ℚ))),
              yTest.map (fun y => ind (b == y) / (2 * (count yTest y : ℚ)))] :=
  aucElem_binary yTest a b hab hy ha hb

/-- **C14c.** Sum over validation points of the element-wise AUC score of the predicted label = ROC-AUC
of the hard prediction (with either class as the positive one). -/
theorem C14_auc (yTest pred : List Int) (a b : Int) (hab : a ≠ b) (hy : ∀ y ∈ yTest, y = a ∨ y = b)
    (ha : a ∈ yTest) (hb : b ∈ yTest) (hlen : pred.length = yTest.length)
    (hp : ∀ p ∈ pred, p = a ∨ p = b) :
    ∃ M, aucElem [a, b] yTest = some M
      ∧ aucHard b yTest pred
          = some (((List.range yTest.length).map
              (fun j => (M.getD ([a, b].idxOf (pred.getD j 0)) []).getD j 0)).sum)
      ∧ aucHard a yTest pred = aucHard b yTest pred := by
  refine ⟨_, aucElem_binary yTest a b hab hy ha hb, ?_, ?_⟩
  · rw [auc_select_eq yTest pred a b hab hlen hp]
    exact auc_sum_eq yTest pred b a (Ne.symm hab) (fun y h => (hy y h).symm) hb ha (fun p h => (hp p h).symm)
  · rw [auc_sum_eq yTest pred b a (Ne.symm hab) (fun y h => (hy y h).symm) hb ha (fun p h => (hp p h).symm),
      auc_sum_eq yTest pred a b hab hy ha hb hp]

/-- C14c with the value of `roc_auc_score` spelled out: `(TP/P + TN/N)/2`, `P` = number of `b`s. -/
theorem C14_auc_formula (yTest pred : List Int) (a b : Int) (hab : a ≠ b) (hy : ∀ y ∈ yTest, y = a ∨ y = b)
    (ha : a ∈ yTest) (hb : b ∈ yTest) (hlen : pred.length = yTest.length)
    (hp : ∀ p ∈ pred, p = a ∨ p = b) :
    ∃ M, aucElem [a, b] yTest = some M
      ∧ ((List.range yTest.length).map (fun j => (M.getD ([a, b].idxOf (pred.getD j 0)) []).getD j 0)).sum
        = ((((yTest.zip pred).filter (fun p => p.1 == b && p.2 == b)).length : ℚ) / (count yTest b : ℚ)
            + (((yTest.zip pred).filter (fun p => p.1 != b && p.2 != b)).length : ℚ)
                / ((yTest.length - count yTest b : ℕ) : ℚ)) / 2 := by
  obtain ⟨M, hM, hsum, _⟩ := C14_auc yTest pred a b hab hy ha hb hlen hp
  refine ⟨M, hM, ?_⟩
  have hP : 0 < count yTest b := (count_pos_iff yTest b).mpr hb
  have hA : 0 < count yTest a := (count_pos_iff yTest a).mpr ha
  have hs := count_add yTest a b hab hy
  have hcond : (count yTest b == 0 || yTest.length - count yTest b == 0) = false := by
    simp only [Bool.or_eq_false_iff, beq_eq_false_iff_ne, ne_eq]; omega
  unfold aucHard at hsum
  simp only [hcond, Bool.false_eq_true, if_false, Option.some.injEq] at hsum
  exact hsum.symm

/-- **C14d.** The element-wise null score of the AUC utility is defined and sums to `1/2`. -/
theorem C14_auc_null (yTest : List Int) (a b : Int) (hab : a ≠ b) (hy : ∀ y ∈ yTest, y = a ∨ y = b)
    (ha : a ∈ yTest) (hb : b ∈ yTest) :
    ∃ v, aucNullElem yTest = some v ∧ v.sum = 1 / 2 := by
  obtain ⟨lf, hlf, hv⟩ := aucNullElem_binary yTest a b hab hy ha hb
  refine ⟨_, hv, aucRow_sum yTest lf ?_⟩
  rcases hlf with h | h <;> rw [h] <;> assumption

/-! ### Examples with concrete vectors -/

/-- three classes, five validation points, predictions right on points 0, 2, 3: accuracy 3/5 -/
example : accElem [0, 1, 2] [0, 1, 1, 2, 0] = [[1, 0, 0, 0, 1], [0, 1, 1, 0, 0], [0, 0, 0, 1, 0]] := by
  simp [accElem, ind]

example : accuracy [0, 1, 1, 2, 0] [0, 2, 1, 2, 1] = 3 / 5 := by
  simp [accuracy, mean, ind]; norm_num

example :
    mean ((List.range 5).map (fun j =>
      ((accElem [0, 1, 2] [0, 1, 1, 2, 0]).getD ([0, 1, 2].idxOf (([0, 2, 1, 2, 1] : List Int).getD j 0)) []).getD j 0))
      = accuracy [0, 1, 1, 2, 0] [0, 2, 1, 2, 1] :=
  C14_acc [0, 1, 2] [0, 1, 1, 2, 0] [0, 2, 1, 2, 1] rfl (by decide)

/-- null score: class 2 occurs least often among the validation labels (once out of five) -/
example : accNullElem [0, 1, 2] [0, 1, 1, 2, 0] = [0, 0, 0, 1, 0] := by
  simp [accNullElem, mean, ind]; norm_num

example : accNull [0, 1, 2] [0, 1, 1, 2, 0] = some (1 / 5) := by
  simp [accNull, accuracy, mean, ind]; norm_num

/-- ties are broken towards the first class in list order -/
example : accNullElem [0, 1] [0, 1] = [1, 0] := by
  simp [accNullElem, mean, ind]

/-- binary AUC table: 2 negatives (label 0), 3 positives (label 1) -/
example : aucElem [0, 1] [0, 1, 1, 0, 1]
    = some [[1/4, 0, 0, 1/4, 0], [0, 1/6, 1/6, 0, 1/6]] := by
  rw [C14_auc_table [0, 1, 1, 0, 1] 0 1 (by decide) (by decide) (by decide) (by decide)]
  simp [count, ind]; norm_num

/-- hard prediction [0,1,0,1,1]: TP = 2 of 3, TN = 1 of 2, AUC = (2/3 + 1/2)/2 = 7/12 -/
example : aucHard 1 [0, 1, 1, 0, 1] [0, 1, 0, 1, 1] = some (7 / 12) := by
  simp [aucHard, count]; norm_num

example : (1/4 : ℚ) + 1/6 + 0 + 0 + 1/6 = 7 / 12 := by norm_num

example : ∃ v, aucNullElem [0, 1, 1, 0, 1] = some v ∧ v.sum = 1 / 2 :=
  C14_auc_null [0, 1, 1, 0, 1] 0 1 (by decide) (by decide) (by decide) (by decide)

/-- without both classes among the validation labels the AUC table is undefined -/
example : aucElem [0, 1] [1, 1, 1] = none := by
  simp [aucElem, count]

end DsProofs.C14
