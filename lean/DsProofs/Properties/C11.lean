import DsProofs.ProvProofs

/-!
# C11 — expression operators and the array encoding preserve logic

About `Equality`, `Conjunction`, `Disjunction` with the overloaded `&` / `|` (model: `Ds.Prov.Expr`,
`Expr.and`, `Expr.or`, `Expr.eval`), `Expression.data` (model: `Expr.data3`), the padding to the
store's shape (`padRow`), `Expression.from_data` (model: `exprFromData`) and
`Provenance.__getitem__(int)` (model: `getItem`).

* `C11_and`, `C11_or`: for every pair of operands (all nine shape pairs Equality / Conjunction /
  Disjunction, by case analysis) and every assignment, `a & b` evaluates to `a.eval ∧ b.eval` and
  `a | b` to `a.eval ∨ b.eval`.  No hypothesis: this includes empty and repeated-literal operands.
* `C11_nested`: hence any formula written with `&` and `|` over arbitrary expressions (`Tree`,
  `Tree.build` = what the operators construct, `Tree.sem` = what the formula means) evaluates to its
  meaning.  `C11_nested_proper` / `C11_nested_inRange`: it is proper / in range when its leaves are.
* `C11_dnf_and`, `C11_dnf_or`: the conjunction lists the operators build (`&` distributes, `|`
  concatenates).
* `C11_proper`: `&` and `|` of expressions without empty conjunction / disjunction have none either
  (`Expr.Proper`; every `Equality` is proper, so everything the library's operators can build is).
* `C11_roundtrip`: the padded array row of a proper expression `e`, for ANY target shape `d × n`
  (padding never shrinks, so this covers `d ≥ e.height`, `n ≥ e.width`), is read back by `from_data`
  without error as the disjunction of exactly `e`'s conjunctions, which has the same truth value as `e`
  under every assignment.  `C11_roundtrip_unpadded` is the case of `e.data` itself.
* `C11_container`: `Provenance(expressions)[i]` for a valid Python index `i` (negative counts from the
  end) returns an expression with the same conjunction list, hence the same truth table, as
  `expressions[i]`, whatever the other rows' shapes; an invalid index raises `IndexError`.
-/

namespace DsProofs.C11
open Ds Ds.Prov

theorem C11_and (a b : Expr) (x : List Nat) : (a.and b).eval x = (a.eval x && b.eval x) :=
  eval_and a b x

theorem C11_or (a b : Expr) (x : List Nat) : (a.or b).eval x = (a.eval x || b.eval x) :=
  eval_or a b x

theorem C11_nested (t : Tree) (x : List Nat) : t.build.eval x = t.sem x :=
  t.eval_build x

theorem C11_nested_proper (t : Tree) (h : ∀ e ∈ t.leaves, e.Proper) : t.build.Proper :=
  t.proper_build h

theorem C11_nested_inRange (n : Nat) (t : Tree) (h : ∀ e ∈ t.leaves, e.InRange n) : t.build.InRange n :=
  t.inRange_build n h

theorem C11_dnf_and (a b : Expr) :
    (a.and b).dnf = a.dnf.flatMap (fun x => b.dnf.map (fun y => x ++ y)) :=
  dnf_and a b

theorem C11_dnf_or (a b : Expr) : (a.or b).dnf = a.dnf ++ b.dnf :=
  dnf_or a b

theorem C11_proper (a b : Expr) (ha : a.Proper) (hb : b.Proper) :
    (a.and b).Proper ∧ (a.or b).Proper ∧ ∀ u c, (Expr.eq u c).Proper :=
  ⟨proper_and ha hb, proper_or ha hb, fun _ _ => ⟨by simp [Expr.dnf], by simp [Expr.dnf]⟩⟩

theorem C11_roundtrip (e : Expr) (he : e.Proper) (d n : Nat) :
    ∃ e', exprFromData (padRow e.data3 d n) = .ok e' ∧ e'.dnf = e.dnf ∧ ∀ x, e'.eval x = e.eval x :=
  ⟨_, exprFromData_stored e he d n, rfl, eval_disj_dnf e⟩

theorem C11_roundtrip_unpadded (e : Expr) (he : e.Proper) :
    ∃ e', exprFromData e.data3 = .ok e' ∧ e'.dnf = e.dnf ∧ ∀ x, e'.eval x = e.eval x := by
  have h : padRow e.data3 0 0 = e.data3 := by simp [padRow, padConj, Expr.padTo]
  simpa [h] using C11_roundtrip e he 0 0

theorem C11_container (es : List Expr) (nUnits nCands : Nat) (i : Int) (hprop : ∀ e ∈ es, e.Proper) :
    (∀ hi : ValidIdx es.length i,
      ∃ e', getItem (ofExprs es nUnits nCands) i = .ok e' ∧
        e'.dnf = (es[pyPos es.length i]'(pyPos_lt hi)).dnf ∧
        ∀ x, e'.eval x = (es[pyPos es.length i]'(pyPos_lt hi)).eval x) ∧
    (¬ ValidIdx es.length i → getItem (ofExprs es nUnits nCands) i = .error Err.indexError) ∧
    (0 ≤ i → pyPos es.length i = i.toNat) ∧
    (ValidIdx es.length i → i < 0 → (pyPos es.length i : Int) = es.length + i) :=
  ⟨fun hi => ⟨_, getItem_ofExprs es nUnits nCands i hprop hi, rfl, eval_disj_dnf _⟩,
    getItem_ofExprs_invalid es nUnits nCands i, pyPos_nonneg, pyPos_neg⟩

/-! ### examples -/

/-- `(x0==1 | x1==0) & (x2==1 | (x0==0 & x1==1))` -/
def exTree : Tree :=
  .and (.or (.leaf (.eq 0 1)) (.leaf (.eq 1 0))) (.or (.leaf (.eq 2 1)) (.and (.leaf (.eq 0 0)) (.leaf (.eq 1 1))))

example : exTree.build = Expr.disj [[(0, 1), (2, 1)], [(0, 1), (0, 0), (1, 1)], [(1, 0), (2, 1)], [(1, 0), (0, 0), (1, 1)]] := by
  decide
example : exTree.build.Proper ∧ exTree.build.InRange 3 := by decide
example : getItem (ofExprs [Expr.eq 0 1, exTree.build, Expr.conj [(1, 1), (2, 0)]] 3) (-1) =
    .ok (Expr.disj [[(1, 1), (2, 0)]]) := by decide
example : getItem (ofExprs [Expr.eq 0 1, exTree.build] 3) 2 = .error Err.indexError := by decide

end DsProofs.C11
