import DsProofs.BruteProofs

/-!
# C03 — bruteforce scores are the Shapley value by definition

About `ShapleyImportance._shapley_bruteforce` (model: `Ds.Brute.scores`).

* `C03_main`: take ANY utility, given as a table `g` from coalitions (sets of units) to evaluation
  outcomes.  If no coalition's evaluation raises an exception other than `ValueError`,
  `RuntimeWarning`, `UserWarning`, the loop over all 0/1 assignments (in `itertools.product` order,
  with the code's `factor_0` / `factor_1`) terminates normally with a vector of `n` scores whose
  `i`-th entry is the textbook Shapley value
  `Σ_{S ∌ i} |S|! (n-|S|-1)! / n! · (val(S ∪ {i}) − val(S))` (`Sh.phiM`), which is also the
  coefficient form `Sh.phi`.  Here `val(S)` is the score the utility returned on `S`, or the null
  score when the evaluation of `S` raised one of the three caught classes (`BruteP.valOf`).
* `C03_uncaught`: if some assignment's evaluation raises any other exception, the whole method raises
  (`none`): nothing is silently swallowed.
* two `example`s: a concrete 3-unit utility table in which one coalition raises `ValueError`
  (its scores are computed by the model and are those `C03_main` predicts), and a witness that the
  hypotheses of `C03_main` are satisfiable together with a raising coalition.
-/

open BruteP

theorem C03_main (n : ℕ) (g : Finset (Fin n) → Ds.Outcome) (null : ℚ)
    (h : ∀ a ∈ Ds.allAssign n, g (toSet n a) ≠ .other) :
    ∃ L : List ℚ, Ds.Brute.scores n (fun a => g (toSet n a)) null = some L ∧ L.length = n ∧
      ∀ i : Fin n,
        L.getD i.val 0 = Sh.phiM (fun S => valOf null (g S)) i ∧
        L.getD i.val 0 = Sh.phi (fun S => valOf null (g S)) i := by
  have h' : ∀ S, g S ≠ .other := by
    intro S
    obtain ⟨a, ha, rfl⟩ := exists_mem_allAssign n S
    exact h a ha
  refine ⟨_, scores_eq_phi n g null h', by simp, ?_⟩
  intro i
  rw [getD_range_map _ i.isLt, dif_pos i.isLt, Sh.phiM_eq_phi]
  exact ⟨rfl, rfl⟩

theorem C03_uncaught (n : ℕ) (v : List ℕ → Ds.Outcome) (null : ℚ)
    (h : ∃ a ∈ Ds.allAssign n, v a = .other) :
    Ds.Brute.scores n v null = none := by
  rw [scores_eq_foldlM]
  exact foldlM_body_none n v null _ h _

/-- a 3-unit utility: the score of a coalition is the number of its units, except that evaluating
the coalition {0, 2} raises `ValueError` (so it is worth the null score `0`) -/
def C03_exampleTable (S : Finset (Fin 3)) : Ds.Outcome :=
  if S = {0, 2} then .valueError else .ok S.card

/-- concrete run of the model on the table.  Relative to the additive game (every unit worth 1) the
coalition {0,2} is worth 2 less, so units 0 and 2 lose `2·w(3,1) = 2/6` and unit 1 gains
`2·w(3,2) = 2/3`: the vector is the Shapley value of the game with `val {0,2} = null = 0`. -/
example : Ds.Brute.scores 3 (fun a => C03_exampleTable (toSet 3 a)) 0 = some [2/3, 5/3, 2/3] := by
  decide +kernel

/-- the same numbers via `C03_main`: they are the Shapley value of the table's game -/
example : ∀ i : Fin 3, ([2/3, 5/3, 2/3] : List ℚ).getD i.val 0 =
    Sh.phiM (fun S => valOf 0 (C03_exampleTable S)) i := by
  obtain ⟨L, hL, _, hphi⟩ := C03_main 3 C03_exampleTable 0 (by decide +kernel)
  have e : Ds.Brute.scores 3 (fun a => C03_exampleTable (toSet 3 a)) 0 = some [2/3, 5/3, 2/3] := by
    decide +kernel
  rw [e] at hL
  cases hL
  exact fun i => (hphi i).1

/-- the hypotheses of `C03_main` are satisfiable, with a raising coalition present -/
example : ∃ (g : Finset (Fin 3) → Ds.Outcome),
    (∀ a ∈ Ds.allAssign 3, g (toSet 3 a) ≠ .other) ∧ (∃ S, g S = .valueError) :=
  ⟨C03_exampleTable, by decide +kernel, {0, 2}, by decide⟩

/-- `C03_uncaught` is not vacuous: a table with a `TypeError`-like outcome makes the method raise -/
example : Ds.Brute.scores 2 (fun a => if a = [1, 0] then .other else .ok 1) 0 = none :=
  C03_uncaught 2 _ 0 ⟨[1, 0], by decide, by simp⟩
