import DsProofs.ProvProofs

/-!
# C19 — a provenance container behaves as a mutable list of formulas

About `Provenance.__setitem__`, `insert`, `append`, `__delitem__` (single index and slice / index list),
`__getitem__` with a slice and `__len__` (model: `setItem`, `insert`, `delItem`, `delMany`, `select`,
`data.length`; state after fix F7).  The abstraction `absF p : List (List Nat → Bool)` is the list of the
stored rows' truth functions (`rowSem`, see C05) — by `C19_query` exactly what `query` lets a reader
observe.  `ValidIdx len i` says `-len ≤ i < len`, `pyPos len i` is the position such a Python index
denotes, `insPos len i` is `list.insert`'s position (`max (len+i) 0` for negative `i`, `min i len`
otherwise).  Formulas are proper (no empty conjunction / disjunction) and over units of the container.

* `C19_setItem`: `p[i] = e` succeeds iff `i` is a valid Python index; then the container stays well
  padded, keeps its unit set and length, and its abstraction is the old one with position `pyPos i`
  replaced by `e`'s truth function — all other rows keep their meaning although they are re-padded.
  There is no hypothesis on `e`'s height / width: a formula wider than the store (widening) and one
  narrower than the store (narrowing) are both accepted.  An invalid index raises `IndexError`.
* `C19_insert`: `p.insert(i, e)` succeeds for every integer `i`; the abstraction is
  `list.insert` at `insPos i`; the length grows by one.  `C19_append`: `insert(len, e)` appends.
* `C19_delItem`: `del p[i]` erases position `pyPos i` for a valid index, raises `IndexError` otherwise.
* `C19_delMany`, `C19_select`: deleting / selecting a set of positions acts on the abstraction as on a
  list; both keep the container well padded.
* `C19_len`: the lengths after each operation.
* `C19_step`: for every operation (`Op`: set, insert, append, del, select, delMany) the model's
  transition `step` and the list-level specification `listStep` agree: same error, or success with
  `absF` of the new container equal to the new list; the new container is well padded over the same units.
* `C19_history`: after ANY sequence of operations from a well padded container (failing operations
  leave the state unchanged and report their error), the abstraction of the final container equals the
  final list, the per-operation outcomes (ok / which error) agree, and the final container is well
  padded.  `C19_query`: hence `query` on the final container returns the final list applied to the
  assignment (`C19_history_query`).
* example: a history with a widening `append`, a widening `set`, a narrowing `insert`, a failing `del`.
-/

namespace DsProofs.C19
open Ds Ds.Prov

theorem C19_setItem (p : P) (i : Int) (e : Expr) (hp : WellPadded p) (heP : e.Proper)
    (heR : e.InRange p.nUnits) :
    ((∃ p', setItem p i e = .ok p') ↔ ValidIdx p.data.length i) ∧
    (¬ ValidIdx p.data.length i → setItem p i e = .error Err.indexError) ∧
    (∀ p', setItem p i e = .ok p' →
      WellPadded p' ∧ p'.nUnits = p.nUnits ∧ p'.data.length = p.data.length ∧
      absF p' = (absF p).set (pyPos p.data.length i) (fun a => e.eval a)) := by
  refine ⟨⟨?_, fun h => ⟨_, setItem_valid p i e h⟩⟩, setItem_invalid p i e, ?_⟩
  · rintro ⟨p', h⟩
    by_cases hi : ValidIdx p.data.length i
    · exact hi
    · rw [setItem_invalid p i e hi] at h; cases h
  · intro p' h
    by_cases hi : ValidIdx p.data.length i
    · rw [setItem_valid p i e hi] at h
      cases h
      exact ⟨wellPadded_setRow hp _ heR, rfl, length_setRow _ _ _, absF_setRow _ _ heP⟩
    · rw [setItem_invalid p i e hi] at h; cases h

theorem C19_insert (p : P) (i : Int) (e : Expr) (hp : WellPadded p) (heP : e.Proper)
    (heR : e.InRange p.nUnits) :
    ∃ p', insert p i e = .ok p' ∧ WellPadded p' ∧ p'.nUnits = p.nUnits ∧
      p'.data.length = p.data.length + 1 ∧
      absF p' = (absF p).insertIdx (insPos p.data.length i) (fun a => e.eval a) ∧
      insPos p.data.length i = (if i < 0 then (max ((p.data.length : Int) + i) 0).toNat
        else min i.toNat p.data.length) :=
  ⟨_, insert_eq p i e, wellPadded_insert hp _ heR, rfl, length_insert _ _ _ (insPos_le _ _),
    absF_insert _ _ heP, rfl⟩

theorem C19_append (p : P) (e : Expr) (hp : WellPadded p) (heP : e.Proper) (heR : e.InRange p.nUnits) :
    ∃ p', insert p (Int.ofNat p.data.length) e = .ok p' ∧ WellPadded p' ∧ p'.nUnits = p.nUnits ∧
      absF p' = absF p ++ [fun a => e.eval a] := by
  obtain ⟨p', h1, h2, h3, _, h5, _⟩ := C19_insert p (Int.ofNat p.data.length) e hp heP heR
  refine ⟨p', h1, h2, h3, ?_⟩
  rw [h5, insPos_self, ← length_absF, List.insertIdx_length_self]

theorem C19_delItem (p : P) (i : Int) (hp : WellPadded p) :
    (¬ ValidIdx p.data.length i → delItem p i = .error Err.indexError) ∧
    (ValidIdx p.data.length i → ∃ p', delItem p i = .ok p' ∧ WellPadded p' ∧ p'.nUnits = p.nUnits ∧
      p'.data.length = p.data.length - 1 ∧
      absF p' = (absF p).eraseIdx (pyPos p.data.length i)) := by
  refine ⟨delItem_invalid p i, fun hi => ⟨_, delItem_valid p i hi, ?_, rfl, ?_, ?_⟩⟩
  · exact wellPadded_of_subset hp _ (fun r hr => List.mem_of_mem_eraseIdx hr)
  · simp [List.length_eraseIdx, pyPos_lt hi]
  · simp only [absF, map_eraseIdx]

theorem C19_delMany (p : P) (idx : List Nat) (hp : WellPadded p) :
    WellPadded (delMany p idx) ∧ (delMany p idx).nUnits = p.nUnits ∧
    absF (delMany p idx) = (List.range (absF p).length).filterMap
      (fun i => if idx.contains i then none else (absF p)[i]?) := by
  refine ⟨wellPadded_delMany hp idx, rfl, ?_⟩
  simp only [absF, delMany_eq, map_delManyL]
  rfl

theorem C19_select (p : P) (idx : List Nat) (hp : WellPadded p) :
    WellPadded (select p idx) ∧ (select p idx).nUnits = p.nUnits ∧
    absF (select p idx) = idx.filterMap (fun i => (absF p)[i]?) := by
  refine ⟨wellPadded_select hp idx, rfl, ?_⟩
  simp only [absF, select_eq, map_selectL]
  rfl

theorem C19_len (p : P) (i : Int) (e : Expr) (idx : List Nat) :
    (absF p).length = p.data.length ∧
    (∀ p', setItem p i e = .ok p' → p'.data.length = p.data.length) ∧
    (∀ p', insert p i e = .ok p' → p'.data.length = p.data.length + 1) ∧
    (∀ p', delItem p i = .ok p' → p'.data.length = p.data.length - 1) ∧
    (select p idx).data.length = (idx.filter (· < p.data.length)).length ∧
    (delMany p idx).data.length = ((List.range p.data.length).filter (fun j => !idx.contains j)).length := by
  refine ⟨length_absF p, ?_, ?_, ?_, ?_, ?_⟩
  · intro p' h
    by_cases hi : ValidIdx p.data.length i
    · rw [setItem_valid p i e hi] at h; cases h; exact length_setRow _ _ _
    · rw [setItem_invalid p i e hi] at h; cases h
  · intro p' h
    rw [insert_eq] at h; cases h
    exact length_insert _ _ _ (insPos_le _ _)
  · intro p' h
    by_cases hi : ValidIdx p.data.length i
    · rw [delItem_valid p i hi] at h; cases h
      simp [List.length_eraseIdx, pyPos_lt hi]
    · rw [delItem_invalid p i hi] at h; cases h
  · exact length_selectL _ _
  · exact length_delManyL _ _

theorem C19_step (p : P) (op : Op) (hp : WellPadded p) (hop : op.OK p.nUnits) :
    (∀ e, step p op = .error e → listStep (absF p) op = .error e) ∧
    (∀ p', step p op = .ok p' →
      listStep (absF p) op = .ok (absF p') ∧ WellPadded p' ∧ p'.nUnits = p.nUnits) :=
  step_refines p op hp hop

theorem C19_history (p : P) (ops : List Op) (hp : WellPadded p) (hops : ∀ op ∈ ops, op.OK p.nUnits) :
    WellPadded (runWith step p ops).1 ∧ (runWith step p ops).1.nUnits = p.nUnits ∧
    absF (runWith step p ops).1 = (runWith listStep (absF p) ops).1 ∧
    (runWith step p ops).2 = (runWith listStep (absF p) ops).2 :=
  run_refines p ops hp hops

theorem C19_query (p : P) (vals : List Int) (hp : WellPadded p) (hlen : vals.length = p.nUnits)
    (hpos : ∀ v ∈ vals, 0 ≤ v) :
    query p vals = .ok ((absF p).map (fun f => f (vals.map Int.toNat))) := by
  rw [query_ok p vals hp hlen hpos, absF, List.map_map]; rfl

theorem C19_history_query (p : P) (ops : List Op) (vals : List Int) (hp : WellPadded p)
    (hops : ∀ op ∈ ops, op.OK p.nUnits) (hlen : vals.length = p.nUnits) (hpos : ∀ v ∈ vals, 0 ≤ v) :
    query (runWith step p ops).1 vals =
      .ok ((runWith listStep (absF p) ops).1.map (fun f => f (vals.map Int.toNat))) := by
  obtain ⟨h1, h2, h3, _⟩ := C19_history p ops hp hops
  rw [C19_query _ vals h1 (by rw [h2]; exact hlen) hpos, h3]

/-! ### example history -/

def p0 : P := ofExprs [Expr.eq 0 1] 3

/-- widening `append` (3 literals into a 1×1 store), widening `set` (2 disjuncts), narrowing `insert`
(1×1 formula into a 2×3 store), a failing `del`, a `set` and a `del` with negative indices, a slice
deletion -/
def hist : List Op :=
  [.append (Expr.conj [(0, 1), (1, 1), (2, 1)]),
   .set 0 ((Expr.eq 1 1).or (Expr.eq 2 1)),
   .insert (-1) (Expr.eq 2 0),
   .del 5,
   .set (-3) (Expr.eq 0 0),
   .append (Expr.eq 1 0),
   .del (-2),
   .delMany [0]]

example : WellPadded p0 ∧ ∀ op ∈ hist, op.OK p0.nUnits := by decide
example : (runWith step p0 hist).2 =
    [none, none, none, some Err.indexError, none, none, none, none] := by decide
example : (runWith step p0 hist).1.data =
    [[[(2, 0), (-1, -1), (-1, -1)], [(-1, -1), (-1, -1), (-1, -1)]],
     [[(1, 0), (-1, -1), (-1, -1)], [(-1, -1), (-1, -1), (-1, -1)]]] := by decide
example : query (runWith step p0 hist).1 [1, 0, 0] = .ok [true, true] := by decide
example : (runWith listStep (absF p0) hist).1.map (fun f => f [1, 0, 0]) = [true, true] := by decide

end DsProofs.C19
