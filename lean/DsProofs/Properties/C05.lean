import DsProofs.ProvProofs

/-!
# C05 — a provenance query selects exactly the rows whose formula is true

About `Provenance.query` (model: `Ds.Prov.query`, `queryIdx`, `ofDict`) on the padded 4-D array
`Provenance._data` (model: `Ds.Prov.P`).  `rowSem a r` is the specification: the stored row `r` is true
under the assignment `a` iff some disjunct of `r` that is not pure `(-1,-1)` padding has all of its
non-padding literals `(u, c)` satisfied (`a[u] = c`).  `WellPadded p` is the array invariant: every row
has exactly `nDisj × nConj` literals, each either `(-1,-1)` or a literal over a unit `< nUnits`.

* `C05_rowSem_iff`: the specification in words (the sentence above), as an `↔`.
* `C05_main`: on a well padded container and an assignment vector of the right length with
  non-negative entries, `query` returns (without raising) the mask whose entry for row `i` is the truth
  value of row `i`'s formula.  The proof goes through the NumPy mechanics modelled in `query`: the
  appended `-1` that padding literals read with index `-1`, the `squeeze` of width-1 axes
  (`nDisj = 1`, `nConj = 1`) and the masking of all-padding disjuncts.
* `C05_ofExprs`: a container built from expressions (no empty conjunction / disjunction, units in
  range) is well padded and `query` returns `e.eval` for every row's own expression `e` — whatever the
  heights and widths of the expressions stored next to it (which only decide how much padding the row
  gets): formulas of different sizes stored together do not influence each other.
  `C05_independent` states the same thing row by row: the mask entry of row `i` is the same in any two
  containers that store the same expression at position `i`.
* `C05_queryIdx`: the `dtype=int` form of the query returns the strictly ascending list of exactly the
  positions whose mask entry is true, and raises whatever `query` raises.
* `C05_dict`: the mapping form of an assignment is the vector in which units that are not mentioned take
  candidate `0` (for duplicate keys the first entry wins), and the query result is the rows' truth
  under that assignment.
* `C05_wrong_length`: a vector whose length differs from the number of units raises `ValueError`.
* examples: `[x0==1, (x1==1)|(x2==1)]` under `(0,0,0)` gives `[false, false]` (the input on which the
  unfixed library reported row 0 as present), and two more assignments.
-/

namespace DsProofs.C05
open Ds Ds.Prov

/-- the specification `rowSem` spelled out -/
theorem C05_rowSem_iff (a : List Nat) (r : Row) :
    rowSem a r = true ↔
      ∃ c ∈ r, (∃ l ∈ c, l ≠ padLit) ∧ ∀ l ∈ c, l = padLit ∨ a.getD l.1.toNat 0 = l.2.toNat :=
  rowSem_iff a r

theorem C05_main (p : P) (vals : List Int) (hp : WellPadded p) (hlen : vals.length = p.nUnits)
    (hpos : ∀ v ∈ vals, 0 ≤ v) :
    query p vals = .ok (p.data.map (rowSem (vals.map Int.toNat))) :=
  query_ok p vals hp hlen hpos

theorem C05_ofExprs (es : List Expr) (nUnits nCands : Nat) (vals : List Int)
    (hprop : ∀ e ∈ es, e.Proper) (hrange : ∀ e ∈ es, e.InRange nUnits)
    (hlen : vals.length = nUnits) (hpos : ∀ v ∈ vals, 0 ≤ v) :
    WellPadded (ofExprs es nUnits nCands) ∧
    query (ofExprs es nUnits nCands) vals = .ok (es.map (fun e => e.eval (vals.map Int.toNat))) := by
  have hw := wellPadded_ofExprs es nUnits nCands hrange
  refine ⟨hw, ?_⟩
  rw [query_ok _ vals hw hlen hpos]
  simp only [ofExprs, List.map_map]
  congr 1
  exact List.map_congr_left (fun e he => rowSem_stored _ e (hprop e he) _ _)

/-- the mask entry of a row depends only on the expression stored in that row -/
theorem C05_independent (es es' : List Expr) (nUnits nCands nCands' : Nat) (vals : List Int) (i j : Nat)
    (hprop : ∀ e ∈ es, e.Proper) (hrange : ∀ e ∈ es, e.InRange nUnits)
    (hprop' : ∀ e ∈ es', e.Proper) (hrange' : ∀ e ∈ es', e.InRange nUnits)
    (hlen : vals.length = nUnits) (hpos : ∀ v ∈ vals, 0 ≤ v)
    (hsame : es[i]? = es'[j]?) :
    ∃ m m', query (ofExprs es nUnits nCands) vals = .ok m ∧
      query (ofExprs es' nUnits nCands') vals = .ok m' ∧ m[i]? = m'[j]? := by
  refine ⟨_, _, (C05_ofExprs es nUnits nCands vals hprop hrange hlen hpos).2,
    (C05_ofExprs es' nUnits nCands' vals hprop' hrange' hlen hpos).2, ?_⟩
  simp [List.getElem?_map, hsame]

theorem C05_queryIdx (p : P) (vals : List Int) :
    (∀ m, query p vals = .ok m →
      ∃ idx, queryIdx p vals = .ok idx ∧ idx.Pairwise (· < ·) ∧ ∀ i, i ∈ idx ↔ m[i]? = some true) ∧
    (∀ e, query p vals = .error e → queryIdx p vals = .error e) :=
  ⟨fun m h => ⟨_, queryIdx_of_query h, trueIdx_sorted m, mem_trueIdx m⟩, fun _ h => queryIdx_error h⟩

theorem C05_dict (p : P) (d : List (Nat × Int)) (hp : WellPadded p) (hd : ∀ kv ∈ d, 0 ≤ kv.2) :
    ofDict p.nUnits d = (List.range p.nUnits).map (fun u => (d.lookup u).getD 0) ∧
    query p (ofDict p.nUnits d) =
      .ok (p.data.map (rowSem ((List.range p.nUnits).map (fun u => ((d.lookup u).getD 0).toNat)))) := by
  refine ⟨ofDict_eq_lookup _ _, ?_⟩
  rw [query_ok p _ hp (length_ofDict _ _) (ofDict_nonneg _ _ hd), ofDict_eq_lookup, List.map_map]
  rfl

theorem C05_wrong_length (p : P) (vals : List Int) (h : vals.length ≠ p.nUnits) :
    query p vals = .error Err.valueError :=
  query_wrong_length p vals h

/-! ### examples -/

/-- the container `[x0==1, (x1==1)|(x2==1)]` -/
def ex : P := ofExprs [Expr.eq 0 1, (Expr.eq 1 1).or (Expr.eq 2 1)] 3

example : ((Expr.eq 1 1).or (Expr.eq 2 1)).Proper ∧ ((Expr.eq 1 1).or (Expr.eq 2 1)).InRange 3 := by decide
example : ((Expr.eq 0 1).and ((Expr.eq 1 1).or (Expr.eq 2 0))).Proper := by decide
example : ¬ (Expr.conj []).Proper := by decide
example : WellPadded ex := by decide
example : ex.data = [[[(0, 1)], [(-1, -1)]], [[(1, 1)], [(2, 1)]]] := by decide
example : query ex [0, 0, 0] = .ok [false, false] := by decide
example : query ex [1, 0, 0] = .ok [true, false] := by decide
example : query ex [0, 0, 1] = .ok [false, true] := by decide
example : queryIdx ex [1, 1, 0] = .ok [0, 1] := by decide
example : query ex (ofDict 3 [(2, 1)]) = .ok [false, true] := by decide
example : query ex [0, 0] = .error Err.valueError := by decide

end DsProofs.C05
