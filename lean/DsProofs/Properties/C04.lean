import DsProofs.MCProofs

/-!
# C04 — Monte-Carlo scores are the permutation-sampling estimator (and C06, Monte-Carlo half)

About `ShapleyImportance._shapley_montecarlo` (model: `Ds.MC.column`, `Ds.MC.run`) with truncation
disabled (`truncation_steps = 0`) and no time budget (`timeout = 0`), for a utility none of whose
evaluations on a 0/1 query raises an exception outside `ValueError / RuntimeWarning / UserWarning`.
`val q` is the value of query `q`: the score returned, or the null score if the evaluation raised one of
the three handled classes (`BruteP.valOf null (v q)`; `Outcome.caught` returns `some` of it).
`MCP.indQ n A` is the 0/1 query vector over `n` units with exactly the units in `A` switched on.

* `C04_column`: for a duplicate-free list `perm` of units `< n`, the column computed for `perm` has
  length `n`; its entry at the unit `perm[k]` is `val(first k+1 units of perm on) − val(first k units of
  perm on)`, for every `k` including `k = 0` (whose baseline is the value of the all-zero query, which the
  code evaluates first); entries at units not in `perm` are `0`.
* `C04_telescope`: if `perm` lists all `n` units, the entries of its column add up to
  `val(all ones) − val(all zeros)`.
* `C04_estimator`: for a non-empty list of such permutations, `run` returns a proper vector `avg` with
  `avg[i] = (Σ over the permutations' columns of column[i]) / (number of permutations)`, and the entries
  of `avg` add up to `val(all ones) − val(all zeros)`.
* `C06_mc`: the last fact on its own (efficiency of the Monte-Carlo scores), for every sample of
  permutations.
* `C04_uniform`: if every permutation of `0 … n-1` occurs equally often (`c ≥ 1` times) in the sample,
  then `avg[i]` is exactly the Shapley value of unit `i` in the game `S ↦ val(indicator vector of S)`:
  the permutation form `Sh.phiP`, which equals the subset form `Sh.phi` and the textbook form `Sh.phiM`.
  The bridge from index lists to `Equiv.Perm (Fin n)` is `MCP.listOf`, `MCP.exists_listOf_eq`,
  `MCP.listOf_injective`.
* `C04_uncaught`: an exception outside the handled classes on the all-zero query or on any prefix query
  of any drawn permutation propagates out of the method.
* examples: a concrete 3-unit run, and the six permutations of 3 units satisfying the hypothesis of
  `C04_uniform`.
-/

open Ds Ds.MC BruteP MCP

theorem C04_column (n : ℕ) (v : List Int → Outcome) (null mean : ℚ) (pr : Params) (perm : List ℕ)
    (htr : pr.truncSteps = 0) (hv : ∀ q, IsQuery n q → v q ≠ .other)
    (hnd : perm.Nodup) (hlt : ∀ x ∈ perm, x < n) :
    ∃ col : List ℚ, column n v null mean pr perm = some col ∧ col.length = n ∧
      (∀ k (hk : k < perm.length), col.getD perm[k] 0 =
        valOf null (v (indQ n (perm.take (k+1)))) - valOf null (v (indQ n (perm.take k)))) ∧
      (∀ u, u ∉ perm → col.getD u 0 = 0) ∧
      indQ n (perm.take 0) = List.replicate n 0 :=
  ⟨_, column_eq hv perm, length_columnP .., fun k hk => columnP_entry htr hnd hlt k hk,
    fun u hu => columnP_untouched perm u hu, by simp [indQ_nil]⟩

theorem C04_telescope (n : ℕ) (v : List Int → Outcome) (null mean : ℚ) (pr : Params) (perm : List ℕ)
    (htr : pr.truncSteps = 0) (hv : ∀ q, IsQuery n q → v q ≠ .other)
    (hnd : perm.Nodup) (hlt : ∀ x ∈ perm, x < n) (hlen : perm.length = n) :
    ∃ col : List ℚ, column n v null mean pr perm = some col ∧
      col.sum = valOf null (v (List.replicate n 1)) - valOf null (v (List.replicate n 0)) :=
  ⟨_, column_eq hv perm, columnP_sum_full htr hnd hlt hlen⟩

theorem C04_estimator (n : ℕ) (v : List Int → Outcome) (null mean : ℚ) (pr : Params)
    (perms : List (List ℕ)) (clock : List ℚ)
    (htr : pr.truncSteps = 0) (hto : pr.timeout = 0) (hv : ∀ q, IsQuery n q → v q ≠ .other)
    (hp : perms ≠ []) (hperm : ∀ p ∈ perms, p.Nodup ∧ (∀ x ∈ p, x < n) ∧ p.length = n) :
    ∃ (cols : List (List ℚ)) (avg : List ℚ),
      perms.mapM (column n v null mean pr) = some cols ∧
      run n v null mean pr perms clock = some (some avg) ∧ avg.length = n ∧
      (∀ i, i < n → avg.getD i 0 = (cols.map (·.getD i 0)).sum / (perms.length : ℕ)) ∧
      avg.sum = valOf null (v (List.replicate n 1)) - valOf null (v (List.replicate n 0)) := by
  have hne : perms.map (columnP n v null mean pr) ≠ [] := by simpa using hp
  have hkeep : keep pr (clock.headD 0) (perms.map (columnP n v null mean pr)) clock.tail =
      perms.map (columnP n v null mean pr) :=
    keep_of_no_timeout (by rw [hto]; exact lt_irrefl _) _ _ _
  refine ⟨perms.map (columnP n v null mean pr), avgP n (perms.map (columnP n v null mean pr)),
    mapM_some _ _ perms (fun p _ => column_eq hv p), ?_, by simp [avgP], ?_, ?_⟩
  · rw [run_eq hv, hkeep, average_of_ne_nil n hne]
  · intro i hi
    rw [getD_avgP n _ hi, List.length_map]
  · rw [sum_avgP n _ (by
      intro c hc
      obtain ⟨p, _, rfl⟩ := List.mem_map.mp hc
      exact length_columnP ..)]
    have hsum : (perms.map (columnP n v null mean pr)).map List.sum =
        perms.map (fun _ => valOf null (v (List.replicate n 1)) - valOf null (v (List.replicate n 0))) := by
      rw [List.map_map]
      apply List.map_congr_left
      intro p hp'
      obtain ⟨h1, h2, h3⟩ := hperm p hp'
      exact columnP_sum_full htr h1 h2 h3
    rw [hsum, List.map_const', List.sum_replicate, List.length_map, nsmul_eq_mul]
    have : ((perms.length : ℕ) : ℚ) ≠ 0 := by
      have : perms.length ≠ 0 := fun h => hp (List.length_eq_zero_iff.mp h)
      exact_mod_cast this
    field_simp

/-- C06, Monte-Carlo half: the Monte-Carlo scores are efficient for every sample of permutations -/
theorem C06_mc (n : ℕ) (v : List Int → Outcome) (null mean : ℚ) (pr : Params)
    (perms : List (List ℕ)) (clock : List ℚ)
    (htr : pr.truncSteps = 0) (hto : pr.timeout = 0) (hv : ∀ q, IsQuery n q → v q ≠ .other)
    (hp : perms ≠ []) (hperm : ∀ p ∈ perms, p.Nodup ∧ (∀ x ∈ p, x < n) ∧ p.length = n) :
    ∃ avg : List ℚ, run n v null mean pr perms clock = some (some avg) ∧ avg.length = n ∧
      avg.sum = valOf null (v (List.replicate n 1)) - valOf null (v (List.replicate n 0)) := by
  obtain ⟨_, avg, _, h2, h3, _, h5⟩ := C04_estimator n v null mean pr perms clock htr hto hv hp hperm
  exact ⟨avg, h2, h3, h5⟩

/-- uniform sampling: every permutation of `0 … n-1` occurs exactly `c ≥ 1` times in `perms` -/
theorem C04_uniform (n : ℕ) (v : List Int → Outcome) (null mean : ℚ) (pr : Params)
    (perms : List (List ℕ)) (clock : List ℚ) (c : ℕ)
    (htr : pr.truncSteps = 0) (hto : pr.timeout = 0) (hv : ∀ q, IsQuery n q → v q ≠ .other)
    (hc : 0 < c)
    (hperm : ∀ p ∈ perms, p.Nodup ∧ (∀ x ∈ p, x < n) ∧ p.length = n)
    (hcount : ∀ p : List ℕ, (p.Nodup ∧ (∀ x ∈ p, x < n) ∧ p.length = n) → perms.count p = c) :
    ∃ avg : List ℚ, run n v null mean pr perms clock = some (some avg) ∧ avg.length = n ∧
      ∀ i : Fin n,
        avg.getD i.val 0 = Sh.phiP (fun S => valOf null (v (indS S))) i ∧
        avg.getD i.val 0 = Sh.phi (fun S => valOf null (v (indS S))) i ∧
        avg.getD i.val 0 = Sh.phiM (fun S => valOf null (v (indS S))) i := by
  obtain ⟨hsum, hlen⟩ := sum_perms_eq (n := n) (c := c) hperm hcount hc
    (fun p => (columnP n v null mean pr p).getD 0 0)
  have hp : perms ≠ [] := by
    intro h
    rw [h] at hlen
    have : 0 < c * n.factorial := Nat.mul_pos hc (Nat.factorial_pos n)
    exact absurd hlen.symm this.ne'
  obtain ⟨cols, avg, h1, h2, h3, h4, _⟩ := C04_estimator n v null mean pr perms clock htr hto hv hp hperm
  have hcols : cols = perms.map (columnP n v null mean pr) := by
    rw [mapM_some _ _ perms (fun p _ => column_eq hv p)] at h1
    exact (Option.some.inj h1).symm
  refine ⟨avg, h2, h3, ?_⟩
  intro i
  have hn : 0 < n := Nat.lt_of_le_of_lt (Nat.zero_le _) i.isLt
  have key : avg.getD i.val 0 = Sh.phiP (fun S => valOf null (v (indS S))) i := by
    rw [h4 i.val i.isLt, hcols, List.map_map]
    obtain ⟨hs, hl⟩ := sum_perms_eq (n := n) (c := c) hperm hcount hc
      (fun p => (columnP n v null mean pr p).getD i.val 0)
    have : ((fun x : List ℚ => x.getD i.val 0) ∘ columnP n v null mean pr) =
        fun p => (columnP n v null mean pr p).getD i.val 0 := rfl
    rw [this, hs, hl]
    unfold Sh.phiP
    rw [Finset.sum_congr rfl (fun σ _ => columnP_listOf (v := v) (null := null) (mean := mean) htr σ i)]
    have hcq : (c : ℚ) ≠ 0 := by exact_mod_cast hc.ne'
    have hfq : (n.factorial : ℚ) ≠ 0 := by exact_mod_cast (Nat.factorial_pos n).ne'
    unfold gameOf
    push_cast
    field_simp
  refine ⟨key, ?_, ?_⟩
  · rw [key, Sh.phiP_eq_phi hn]
  · rw [key, Sh.phiP_eq_phi hn, Sh.phiM_eq_phi]

/-- nothing is swallowed: if, for some drawn permutation, the all-zero query or one of the prefix queries
raises an exception outside the handled classes, the whole method raises -/
theorem C04_uncaught (n : ℕ) (v : List Int → Outcome) (null mean : ℚ) (pr : Params)
    (perms : List (List ℕ)) (clock : List ℚ) (htr : pr.truncSteps = 0)
    (h : ∃ p ∈ perms, ∃ k, k ≤ p.length ∧ v (indQ n (p.take k)) = .other) :
    run n v null mean pr perms clock = none := by
  obtain ⟨p, hp, k, hk, hko⟩ := h
  have hcol : column n v null mean pr p = none := by
    cases k with
    | zero =>
      rw [List.take_zero, indQ_nil] at hko
      exact column_none_of_base hko p
    | succ k =>
      unfold column
      cases hb : (v (List.replicate n 0)).caught null with
      | none => rfl
      | some s0 =>
        simp only
        rw [foldlM_step_none htr p _ rfl ⟨k, hk, by
          show v (setAll (List.replicate n 0) (p.take (k+1))) = .other
          rw [setAll_replicate]; exact hko⟩]
        rfl
  unfold run
  rw [mapM_none _ perms ⟨p, hp, hcol⟩]
  rfl

/-- a concrete run: 3 units, utility = number of units switched on squared, except that the query
`[1,0,1]` raises `ValueError` (worth the null score 0); two permutations, no truncation, no budget -/
def C04_exampleUtility (q : List Int) : Outcome :=
  if q = [1, 0, 1] then .valueError else .ok ((q.sum * q.sum : Int) : ℚ)

example : run 3 C04_exampleUtility 0 0 { timeout := 0, tolerance := 1/10, truncSteps := 0 }
    [[0, 1, 2], [2, 0, 1]] [0, 5, 9] = some (some [0, 6, 3]) := by
  decide +kernel

/-- the columns of that run: `[1, 3, 5]` for the order 0,1,2 and `[-1, 9, 1]` for the order 2,0,1 (the
raising query `[1,0,1]` is worth 0 there); both sum to `val [1,1,1] − val [0,0,0] = 9` -/
example : [[0, 1, 2], [2, 0, 1]].mapM
    (column 3 C04_exampleUtility 0 0 { timeout := 0, tolerance := 1/10, truncSteps := 0 })
    = some [[1, 3, 5], [-1, 9, 1]] := by
  decide +kernel

/-- the hypotheses of `C04_uniform` are satisfiable: the six permutations of three units, once each -/
example :
    let perms : List (List ℕ) := [[0,1,2],[0,2,1],[1,0,2],[1,2,0],[2,0,1],[2,1,0]]
    (∀ p ∈ perms, p.Nodup ∧ (∀ x ∈ p, x < 3) ∧ p.length = 3) ∧
    (∀ p : List ℕ, (p.Nodup ∧ (∀ x ∈ p, x < 3) ∧ p.length = 3) → perms.count p = 1) := by
  intro perms
  refine ⟨by decide, ?_⟩
  intro p hp
  obtain ⟨σ, rfl⟩ := exists_listOf_eq (n := 3) hp
  revert σ
  decide
