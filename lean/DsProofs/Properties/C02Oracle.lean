import DsProofs.Properties.C02
import DsProofs.Properties.C09
open Ds Ds.Oracle AddPath

/-- C09 ⇒ the oracle hypothesis of C02 -/
theorem oracleSpec_of_C09 (K c : ℕ) (p : Prov.P) (labels : List ℕ) (dist : List ℚ)
    (b : Built (Dom.tally (p.nUnits - 1) K c))
    (hconj : Ds.Oracle.Conjunctive p) (hcands : p.nCands = 2) (hn : 2 ≤ p.nUnits)
    (hb : build (Dom.tally (p.nUnits - 1) K c) c p labels dist = .ok b)
    (hloc : LocSpec p b.base)
    (i : ℕ) (hi : i < p.nUnits) : OracleSpec p labels dist K c b i := by
  intro t1 h1 t2 h2
  obtain ⟨_, _, _, counts, hq, hl, hk, _⟩ := C09_main (p.nUnits - 1) K c p labels dist b hconj hcands hn hb hloc
    i hi (some t1) t2 (by intro t h; cases h; exact h1) h2
  exact ⟨counts, hq, hl, hk⟩

/-- map / fork provenance (one unit per row): no oracle hypothesis left -/
theorem C02_mapfork (p : Prov.P) (labels : List ℕ) (dist util : List (List ℚ)) (nulls : List ℚ) (K c : ℕ)
    (orders : ℕ → List ℕ) (hK : 1 ≤ K)
    (hconj : Ds.Oracle.Conjunctive p) (hone : OneUnit p) (hcands : p.nCands = 2) (hn : 2 ≤ p.nUnits)
    (hperm : ∀ j < nulls.length, (orders j).Perm (List.range p.data.length))
    (hsort : ∀ j < nulls.length,
      (orders j).Pairwise (fun r s => (dist.map (·.getD j 0)).getD r 0 < (dist.map (·.getD j 0)).getD s 0))
    (hlab : ∀ r < p.data.length, labels.getD r 0 < c) :
    ∃ L : List ℚ, scores p labels dist util nulls K c = .ok L ∧ L.length = p.nUnits ∧
      ∀ i : Fin p.nUnits, L.getD i.val 0
        = Sh.phiM (fun S => (∑ j ∈ Finset.range nulls.length,
            knnGame p labels (orders j) (util.map (·.getD j 0)) (nulls.getD j 0) K c S)
              / (nulls.length : ℚ)) i := by
  apply DsProofs.C02.C02_main p labels dist util nulls K c orders hK hperm hsort hlab
  intro j _
  obtain ⟨b, hb, hq⟩ := C09_mapfork (p.nUnits - 1) K c p labels (dist.map (·.getD j 0)) hconj hone hcands hn
  refine ⟨b, hb, ?_⟩
  intro i hi t1 h1 t2 h2
  obtain ⟨counts, hq1, hl, hk, _⟩ := hq i hi (some t1) t2 (by intro t h; cases h; exact h1) h2
  exact ⟨counts, hq1, hl, hk⟩
#print axioms oracleSpec_of_C09
#print axioms C02_mapfork

/-- every conjunctive provenance on which `compile` succeeds: no oracle hypothesis, no `build` hypothesis left -/
theorem C02_exact (p : Prov.P) (labels : List ℕ) (dist util : List (List ℚ)) (nulls : List ℚ) (K c : ℕ)
    (orders : ℕ → List ℕ) (hK : 1 ≤ K)
    (hconj : Ds.Oracle.Conjunctive p) (hcands : p.nCands = 2) (hn : 2 ≤ p.nUnits)
    (hshape : p.nConj = 1 → OneUnit p)
    (cmp : Compiled (AVal (Dom.tally (p.nUnits - 1) K c))) (hcmp : compile p = .ok cmp)
    (hperm : ∀ j < nulls.length, (orders j).Perm (List.range p.data.length))
    (hsort : ∀ j < nulls.length,
      (orders j).Pairwise (fun r s => (dist.map (·.getD j 0)).getD r 0 < (dist.map (·.getD j 0)).getD s 0))
    (hlab : ∀ r < p.data.length, labels.getD r 0 < c) :
    ∃ L : List ℚ, scores p labels dist util nulls K c = .ok L ∧ L.length = p.nUnits ∧
      ∀ i : Fin p.nUnits, L.getD i.val 0
        = Sh.phiM (fun S => (∑ j ∈ Finset.range nulls.length,
            knnGame p labels (orders j) (util.map (·.getD j 0)) (nulls.getD j 0) K c S)
              / (nulls.length : ℚ)) i := by
  apply DsProofs.C02.C02_main p labels dist util nulls K c orders hK hperm hsort hlab
  intro j _
  have hc := (C09_compile p cmp hconj hcands hshape hcmp).2.2.2.2.2.2.2
  generalize dist.map (·.getD j 0) = dj
  obtain ⟨b, hb, _⟩ := hc c labels dj
  refine ⟨b, hb, ?_⟩
  intro i hi t1 h1 t2 h2
  have hex := C09_exact (p.nUnits - 1) K c p labels dj b hconj hcands hn
    hshape hb i hi (some t1) t2 (by intro t h; cases h; exact h1) h2
  obtain ⟨counts, hq1, hl, hk, _⟩ := hex
  exact ⟨counts, hq1, hl, hk⟩
#print axioms C02_exact
