import DsProofs.UtilProofs

/-!
# C07 (batch clause) — the result does not depend on how the validation set is batched

What these theorems say about the Python code (`get_test_batch_size` and the batch loop of
`_shapley_neighbor`, modelled by `Ds.Neighbor.getTestBatchSize` / `Ds.Neighbor.score`; the kernel is
`Ds.Kernel.importances` over exact rationals):

* `C07_batch_size`: `get_test_batch_size`, as written (`max(n_test // n_matrices, n_test)`), returns
  `n_test` for every matrix-size budget `B`, every `n_train`, every `n_test` — the budget is never
  honoured.
* `C07_single_batch`: consequently the list of batch start offsets built by `_shapley_neighbor`
  (`range(ceil(n_test / bs))` times `bs`, with `bs = n_test > 0`) is `[0]`: exactly one batch, which
  is the whole validation set.  `C07_single_batch_score` is the same statement with `bs` spelled as
  `getTestBatchSize B nTrain nTest`; `C07_single_batch_nb`: that batch has `nb = nTest` points;
  `C07_no_batch_empty`: for `nTest = 0` the batch size is `0` (the model raises `ValueError`).
* `C07_batch_mean` (general fact, independent of the previous clause): split the validation points
  (zipped columns label/order/utility/null) into ANY list of consecutive blocks `bs`, run the kernel on
  each block and combine with the weights `n_b / n` exactly as the loop does
  (`acc += cur * n_b / n`): the result is the kernel's result on all points `bs.flatten`.
  Entry form `C07_batch_mean`, loop form `C07_batch_loop` (`Ds.Kernel.batchStep` is the loop body
  `acc := zipWith (a + c * n_b / n) acc cur`).  No hypothesis on the data; empty blocks are allowed
  (they contribute `0`).
* `C07_batch_mean_two`: the two-block case written with the four separate column lists
  `labels₁ ++ labels₂` etc. (the form in which `importances` is called).
-/

open Finset Ds.Kernel Ds.Neighbor

namespace DsProofs.C07

/-- **C07f.** `get_test_batch_size` always returns `n_test`. -/
theorem C07_batch_size (B nTrain nTest : ℕ) : getTestBatchSize B nTrain nTest = nTest := by
  unfold getTestBatchSize
  exact Nat.max_eq_right (Nat.div_le_self _ _)

/-- **C07g.** With `bs = nTest > 0` the list of batch starts is `[0]`. -/
theorem C07_single_batch (nTest : ℕ) (h : 0 < nTest) :
    (List.range ((nTest + nTest - 1) / nTest)).map (· * nTest) = [0] := by
  have : (nTest + nTest - 1) / nTest = 1 :=
    Nat.div_eq_of_lt_le (by omega) (by omega)
  rw [this]
  simp

/-- C07g with the batch size spelled as in `score`. -/
theorem C07_single_batch_score (B nTrain nTest : ℕ) (h : 0 < nTest) :
    (List.range ((nTest + getTestBatchSize B nTrain nTest - 1) / getTestBatchSize B nTrain nTest)).map
        (· * getTestBatchSize B nTrain nTest) = [0] := by
  rw [C07_batch_size]
  exact C07_single_batch nTest h

/-- the single batch contains all `nTest` points: `nb = min bs (nTest - 0) = nTest` -/
theorem C07_single_batch_nb (B nTrain nTest : ℕ) :
    min (getTestBatchSize B nTrain nTest) (nTest - 0) = nTest := by
  rw [C07_batch_size]; simp

/-- for an empty validation set the batch size is `0` (then `score` raises `ValueError`) -/
theorem C07_no_batch_empty (B nTrain : ℕ) : getTestBatchSize B nTrain 0 = 0 := C07_batch_size _ _ _

/-- **C07h.** Weighted mean of the per-block results = result on all points, for every slot `u`. -/
theorem C07_batch_mean (n : ℕ) (bs : List (List Col)) (u : ℕ) (hu : u < n) :
    (bs.map (fun b => (impCols n b).getD u 0 * (b.length : ℚ) / (bs.flatten.length : ℚ))).sum
      = (impCols n bs.flatten).getD u 0 :=
  batch_sum n bs u hu

/-- `impCols` is `importances` on the unzipped columns (definition), and `importances` is `impCols`
on the zipped columns. -/
theorem C07_impCols_def (n : ℕ) (cs : List Col) :
    impCols n cs = importances n (cs.map (·.1)) (cs.map (·.2.1)) (cs.map (·.2.2.1)) (cs.map (·.2.2.2)) := rfl

theorem C07_impCols_zip (n : ℕ) (labels orders : List (List ℕ)) (utils : List (List ℚ)) (nulls : List ℚ) :
    importances n labels orders utils nulls = impCols n (labels.zip (orders.zip (utils.zip nulls))) :=
  importances_eq_impCols n labels orders utils nulls

/-- **C07h (loop form).** The accumulation loop `acc := acc + cur * n_b / n` over the blocks, started
from zeros, returns the kernel's result on all points. -/
theorem C07_batch_loop (n : ℕ) (bs : List (List Col)) :
    bs.foldl (fun acc b =>
        List.zipWith (fun a c => a + c * ((b.length : ℕ) : ℚ) / ((bs.flatten.length : ℕ) : ℚ)) acc (impCols n b))
      (List.replicate n 0) = impCols n bs.flatten :=
  batch_foldl n bs

/-- **C07h (two blocks, separate column lists).** -/
theorem C07_batch_mean_two (n : ℕ) (l₁ o₁ : List (List ℕ)) (U₁ : List (List ℚ)) (N₁ : List ℚ)
    (l₂ o₂ : List (List ℕ)) (U₂ : List (List ℚ)) (N₂ : List ℚ) (m₁ m₂ : ℕ)
    (h1 : l₁.length = m₁) (h2 : o₁.length = m₁) (h3 : U₁.length = m₁) (h4 : N₁.length = m₁)
    (h5 : l₂.length = m₂) (h6 : o₂.length = m₂) (h7 : U₂.length = m₂) (h8 : N₂.length = m₂)
    (u : ℕ) (hu : u < n) :
    (importances n l₁ o₁ U₁ N₁).getD u 0 * (m₁ : ℚ) / ((m₁ + m₂ : ℕ) : ℚ)
      + (importances n l₂ o₂ U₂ N₂).getD u 0 * (m₂ : ℚ) / ((m₁ + m₂ : ℕ) : ℚ)
      = (importances n (l₁ ++ l₂) (o₁ ++ o₂) (U₁ ++ U₂) (N₁ ++ N₂)).getD u 0 := by
  have hc1 : (cols l₁ o₁ U₁ N₁).length = m₁ := cols_length_eq h1 h2 h3 h4
  have hc2 : (cols l₂ o₂ U₂ N₂).length = m₂ := cols_length_eq h5 h6 h7 h8
  have := batch_sum n [cols l₁ o₁ U₁ N₁, cols l₂ o₂ U₂ N₂] u hu
  simp only [List.map_cons, List.map_nil, List.sum_cons, List.sum_nil, add_zero, List.flatten_cons,
    List.flatten_nil, List.append_nil, List.length_append, hc1, hc2] at this
  rw [importances_eq_impCols n l₁, importances_eq_impCols n l₂, importances_eq_impCols n (l₁ ++ l₂),
    cols_append _ _ _ _ _ _ _ _ (by omega) (by omega) (by omega)]
  exact this

/-! ### Examples -/

example : getTestBatchSize 4 10 7 = 7 := by decide
example : getTestBatchSize defaultBatchMatrixSize 100000 50000 = 50000 := C07_batch_size _ _ _

/-- three validation points split 1 + 2: the weighted mean of the block results is the full result -/
example :
    List.zipWith (fun a c => a + c * 2 / 3)
      (List.zipWith (fun a c => a + c * 1 / 3) [0, 0, 0] (importances 3 [[0,1,0]] [[0,1,2]] [[1,0]] [0]))
      (importances 3 [[0,1,1],[1,1,0]] [[1,2,0],[2,0,1]] [[3,1/2],[0,1]] [1/4,0])
    = importances 3 [[0,1,0],[0,1,1],[1,1,0]] [[0,1,2],[1,2,0],[2,0,1]] [[1,0],[3,1/2],[0,1]] [0,1/4,0] := by
  simp [importances, pointAccum, scatterAdd, rankScores, aux, List.modify, List.replicate]

end DsProofs.C07
