import DsProofs.ProvObjProofs
import DsProofs.Properties.C01Rows

/-!
# C01 (object level) — the `_is_simple` flag of a `Provenance` object never changes what is computed

`Properties/C01.lean` and `C01Rows.lean` show what the 1-NN kernel computes for a provenance ARRAY and a
given value of the `simple` argument.  In the library the argument is not free: it is the `_is_simple`
field of the `Provenance` object, which `get_unit_labels_and_distances` trusts in order to skip the
per-unit grouping ("unit `u` is training row `u`").  This file is about the object
(model: `Ds.Prov.Obj` = padded array `p` + flag `simple`; `Obj.ofDefault n` = `Provenance(units=n)` is the only
constructor that switches the flag on; `Obj.step` = one in-place mutation `p[i] = e`, `p.insert(i, e)`,
`del p[i]`, `del p[idx]`, which clears the flag first, also when the mutation then raises (fix F17);
`Obj.run` = a history of mutations; `Obj.select` / `Obj.fork` = `p[idx]`, `p.fork(sizes)`, fresh objects
with the flag off; `Neighbor.scoreObj` = `_shapley_neighbor` reading the flag from the object).

`Obj.Inv o` is what the flag promises: if it is on, the array is exactly the default array of the object's own
unit set (`o.p = Prov.default o.p.nUnits o.p.nCands`, row `u` is `x_u == 1`).

* O1 `C01_obj_inv`: `Inv` holds for every constructor (`Provenance(units=n)`, `Provenance(expressions)`,
  `Provenance(data=ids)`), for `p[idx]` and `p.fork(sizes)` of ANY object, and after one mutation of ANY
  object (no hypothesis on the object: the mutation clears the flag, `C01_obj_step_clears`, and a cleared
  flag promises nothing).  `C01_obj_history`: hence `Inv` holds after every history of mutations of an
  object satisfying `Inv`, and after a non-empty history the flag is off — an edited object never takes the
  fast path.  `C01_obj_history_units`: mutations never change the unit set or the number of candidates.
  `Inv` is not vacuous: the array `Provenance(units=3)` after `p[0] = (x_1 == 1)` together with a flag that is
  still on (the object the code produced before the fix) violates it.
* O2 `C01_obj_fastpath_sound`: for `Provenance(units=n)` with two candidates, `n` labels and `n` rows of
  distances, the fast path of `compute_shapley_1nn_mapfork` returns exactly what the general path returns
  (same value, or the same error when supplied sort orders are rejected).  No hypothesis on `nb`, on the
  width of the rows of `dist` (rows may be ragged or shorter than `nb`; a missing entry reads as `0` on both
  paths), on the labels being smaller than the number of classes, on `n > 0` or `nb > 0`.  The two length
  hypotheses are needed (`example`s below) and are preconditions of the real code as well
  (`assert len(labels) == n_train`, `distances.shape[0] == n_train`, one training row per unit).
  The key facts: `C01_obj_rowsOf_default` (`rowsOf (default n 2)`: unit `u` owns exactly row `u`) and
  `C01_obj_unitReduce_default` (`get_unit_labels_and_distances` on such a provenance returns the labels
  broadcast to `nb` columns and the first `nb` columns of `dist`).  `C01_obj_fastpath_sound_inv` is the same for
  any array satisfying the promise of the flag.
* O3 `C01_obj_score`: for every object satisfying `Inv`, with two candidates, one training label and one row
  of distances per unit, `_shapley_neighbor` run with the object's own flag returns exactly what it returns
  with the flag off — for EVERY `K` (for `K ≠ 1` or more than one conjunct the flag is not consulted at all,
  `C01_obj_score_offpath`, no hypothesis).  `C01_obj_score_flag_off`: with the flag off there is nothing to
  prove.  `C01_obj_score_reachable`: the same after any history of mutations of such an object;
  `C01_obj_score_edited`: after a non-empty history, for ANY object, without hypotheses;
  `C01_obj_score_history`: in particular on every object reachable from one of the three constructors
  (`Provenance(units=n)` needs `len(y_train) = n = dist.shape[0]`, the other two need nothing), and
  `C01_obj_score_derived` for `p[idx]` / `p.fork(sizes)`.
  The hypothesis "two candidates" is needed: the model switches the flag on for `Provenance(units=n,
  candidates=c)` whatever `c` is (as the code does), but for `c = 3` that array has two rows per unit and the
  fast path treats each ROW as a unit (last `example`).
* O4 the `example`s: `Provenance(units=3)`, labels `0,1,0`, distances `1,2,3`, the validation point rewards
  class 0: both paths return `[5/6, -1/6, 1/3]`; F17 witness: on the edited array with a stale flag the fast path
  still returns `[5/6, -1/6, 1/3]` but the general path returns `[0, 1/2, 1/2]` (unit 0 owns no row any more,
  unit 1 owns rows 0 and 1).
-/

open Ds Ds.Prov Ds.Neighbor Ds.Kernel DsProofs.ProvObj

namespace DsProofs.C01Obj

/-! ## O1 — the invariant -/

/-- every mutation leaves the flag off (also when it raises) -/
theorem C01_obj_step_clears (o : Obj) (op : Obj.Op) : (o.step op).1.simple = false :=
  (step_meta o op).1

/-- a mutation that raises leaves the rows as they were -/
theorem C01_obj_step_error (o : Obj) (op : Obj.Op) (e : Err) (h : (o.step op).2 = some e) :
    (o.step op).1.p = o.p := by
  cases op with
  | set i x =>
    simp only [Obj.step] at h ⊢
    cases hs : setItem o.p i x with
    | ok p' => rw [hs] at h; cases h
    | error er => rfl
  | insert i x =>
    simp only [Obj.step] at h ⊢
    cases hs : Prov.insert o.p i x with
    | ok p' => rw [hs] at h; cases h
    | error er => rfl
  | del i =>
    simp only [Obj.step] at h ⊢
    cases hs : delItem o.p i with
    | ok p' => rw [hs] at h; cases h
    | error er => rfl
  | delMany idx => cases h

/-- **O1.** Every way of making or changing an object establishes `Inv`. -/
theorem C01_obj_inv :
    (∀ n c : ℕ, Obj.Inv (Obj.ofDefault n c)) ∧
    (∀ (es : List Expr) (n c : ℕ), Obj.Inv (Obj.ofExprs es n c)) ∧
    (∀ (ids : List Int) (c : ℕ), Obj.Inv (Obj.ofGroups ids c)) ∧
    (∀ (o : Obj) (idx : List ℕ), Obj.Inv (o.select idx)) ∧
    (∀ (o : Obj) (sizes : List ℕ), Obj.Inv (o.fork sizes)) ∧
    (∀ (o : Obj) (op : Obj.Op), Obj.Inv (o.step op).1) := by
  refine ⟨fun n c _ => rfl, fun es n c h => ?_, fun ids c h => ?_, fun o idx h => ?_, fun o sizes h => ?_,
    fun o op h => ?_⟩
  · cases h
  · cases h
  · cases h
  · cases h
  · rw [C01_obj_step_clears] at h; cases h

/-- **O1, histories.** `Inv` survives every history of mutations, and after at least one mutation the flag is
off. -/
theorem C01_obj_history (o : Obj) (ops : List Obj.Op) (hI : Obj.Inv o) :
    Obj.Inv (o.run ops) ∧ (ops ≠ [] → (o.run ops).simple = false) := by
  refine ⟨?_, run_simple o ops⟩
  cases ops with
  | nil => exact hI
  | cons op ops =>
    intro h
    rw [run_simple o (op :: ops) (by simp)] at h
    cases h

/-- mutations never change the unit set or the number of candidates -/
theorem C01_obj_history_units (o : Obj) (ops : List Obj.Op) :
    (o.run ops).p.nUnits = o.p.nUnits ∧ (o.run ops).p.nCands = o.p.nCands :=
  (run_keeps o ops).2

/-- `Provenance(units=3)` after `p[0] = (x_1 == 1)` -/
def staleP : Prov.P :=
  { data := [[[(1, 1)]], [[(1, 1)]], [[(2, 1)]]], nDisj := 1, nConj := 1, nUnits := 3, nCands := 2 }

example : Prov.setItem (Prov.default 3 2) 0 (Expr.eq 1 1) = .ok staleP := by rfl

/-- the fixed code: the mutation clears the flag -/
example : (Obj.ofDefault 3).step (.set 0 (.eq 1 1)) = (⟨staleP, false⟩, none) := by rfl

/-- a failed mutation clears the flag too and leaves the rows alone -/
example : (Obj.ofDefault 3).step (.set 7 (.eq 1 1)) = (⟨Prov.default 3, false⟩, some Err.indexError) := by rfl

example : Obj.Inv (Obj.ofDefault 3) ∧ Obj.Inv ⟨staleP, false⟩ :=
  ⟨fun _ => rfl, fun h => by cases h⟩

/-- the edited array with a stale flag (the object the code produced before F17) violates `Inv` -/
example : ¬ Obj.Inv ⟨staleP, true⟩ := by
  intro h
  have := congrArg Prov.P.data (h rfl)
  revert this
  decide

example : ((Obj.ofDefault 3).run [.set 0 (.eq 1 1), .del 5, .insert 1 (.eq 2 1)]).simple = false :=
  (C01_obj_history _ _ (C01_obj_inv.1 3 2)).2 (by simp)

/-! ## O2 — the fast path is the general path -/

/-- `Provenance(units=n)`: switching on unit `u` alone makes exactly row `u` present. -/
theorem C01_obj_rowsOf_default (n : ℕ) :
    rowsOf (Prov.default n 2) = .ok ((List.range n).map (fun u => [u])) :=
  rowsOf_default_two n

/-- `get_unit_labels_and_distances` over units owning one row each: the labels broadcast to `nb` columns and
the first `nb` columns of the distance matrix (missing entries of short rows read as `0`). -/
theorem C01_obj_unitReduce_default (n : ℕ) (labels : List ℕ) (dist : List (List ℚ)) (nb nullLabel : ℕ)
    (hl : labels.length = n) (hd : dist.length = n) :
    unitReduce ((List.range n).map (fun u => [u])) labels dist nb nullLabel
      = (labels.map (fun l => List.replicate nb l),
         dist.map (fun row => (List.range nb).map (fun j => row.getD j 0))) :=
  unitReduce_singletons n labels dist nb nullLabel hl hd

/-- **O2.** On `Provenance(units=n)` the fast path of `compute_shapley_1nn_mapfork` is observationally the
general path. -/
theorem C01_obj_fastpath_sound (n : ℕ) (labels : List ℕ) (dist util : List (List ℚ)) (nulls : List ℚ) (nb : ℕ)
    (orders : Option (List (List ℕ))) (hl : labels.length = n) (hd : dist.length = n) :
    mapfork (Prov.default n 2) true labels dist util nulls nb orders
      = mapfork (Prov.default n 2) false labels dist util nulls nb orders :=
  mapfork_flag_irrelevant _ n labels dist util nulls nb orders (rowsOf_default_two n) hl hd

/-- **O2 for any array that keeps the promise of the flag.** -/
theorem C01_obj_fastpath_sound_inv (o : Obj) (labels : List ℕ) (dist util : List (List ℚ)) (nulls : List ℚ)
    (nb : ℕ) (orders : Option (List (List ℕ))) (hI : Obj.Inv o) (hc : o.p.nCands = 2)
    (hl : labels.length = o.p.nUnits) (hd : dist.length = o.p.nUnits) :
    mapfork o.p o.simple labels dist util nulls nb orders = mapfork o.p false labels dist util nulls nb orders := by
  cases hs : o.simple with
  | false => rfl
  | true =>
    have hp := hI hs
    rw [hc] at hp
    rw [hp]
    exact C01_obj_fastpath_sound _ labels dist util nulls nb orders hl hd

example : rowsOf (Prov.default 3 2) = .ok [[0], [1], [2]] := by decide

theorem ex_sort3 : argsortStable [(1 : ℚ), 2, 3] = [0, 1, 2] := by
  simp [argsortStable, List.mergeSort, List.MergeSort.Internal.splitInTwo, List.range_succ, List.merge]
  norm_num

/-- `Provenance(units=3)`, labels `0,1,0`, distances `1,2,3` to the single validation point, which rewards
class 0; null score 0: the fast path … -/
theorem ex_fast : mapfork (Prov.default 3 2) true [0, 1, 0] [[1], [2], [3]] [[1], [0]] [0] 1 none
    = .ok [5/6, -1/6, 1/3] := by
  rw [mapfork_simple]
  simp [ordersOK, ordersUsed, column, ex_sort3, importances, pointAccum, scatterAdd, rankScores, aux,
    List.modify, List.replicate]
  norm_num

/-- … and the general path (computed through O2) return the same non-trivial vector -/
example : mapfork (Prov.default 3 2) false [0, 1, 0] [[1], [2], [3]] [[1], [0]] [0] 1 none
    = .ok [5/6, -1/6, 1/3] := by
  rw [← C01_obj_fastpath_sound 3 _ _ _ _ _ _ rfl rfl]
  exact ex_fast

/-- the general path computed directly, without O2 -/
example : mapfork (Prov.default 3 2) false [0, 1, 0] [[1], [2], [3]] [[1], [0]] [0] 1 none
    = .ok [5/6, -1/6, 1/3] := by
  rw [mapfork_nonsimple _ _ _ _ _ _ _ [[0], [1], [2]] (by decide)]
  have h1 : unitReduce [[0], [1], [2]] [0, 1, 0] [[1], [2], [3]] 1 2 = ([[0], [1], [0]], [[1], [2], [3]]) := by
    simp [unitReduce, argminFirst, argminFirst.go]
  simp [h1, ordersOK, ordersUsed, column, ex_sort3, importances, pointAccum, scatterAdd, rankScores, aux,
    List.modify, List.replicate]
  norm_num

/-- **F17 witness.** The edited array with a stale flag: the fast path still pretends that unit `u` is row
`u` … -/
theorem ex_stale_fast : mapfork staleP true [0, 1, 0] [[1], [2], [3]] [[1], [0]] [0] 1 none
    = .ok [5/6, -1/6, 1/3] := by
  rw [mapfork_simple]
  simp [ordersOK, ordersUsed, column, ex_sort3, importances, pointAccum, scatterAdd, rankScores, aux,
    List.modify, List.replicate]
  norm_num

example : rowsOf staleP = .ok [[], [0, 1], [2]] := by decide

/-- … whereas in truth unit 0 owns no row, unit 1 owns rows 0 and 1 (nearest: row 0, label 0, distance 1) and
unit 2 owns row 2 (label 0, distance 3) -/
theorem ex_stale_general : mapfork staleP false [0, 1, 0] [[1], [2], [3]] [[1], [0]] [0] 1 none
    = .ok [0, 1/2, 1/2] := by
  rw [mapfork_nonsimple staleP _ _ _ _ _ _ [[], [0, 1], [2]] (by decide)]
  have h1 : unitReduce [[], [0, 1], [2]] [0, 1, 0] [[1], [2], [3]] 1 2 = ([[2], [0], [0]], [[4], [1], [3]]) := by
    simp [unitReduce, argminFirst, argminFirst.go]
    norm_num
  have h2 : argsortStable [(4 : ℚ), 1, 3] = [1, 2, 0] := by
    simp [argsortStable, List.mergeSort, List.MergeSort.Internal.splitInTwo, List.range_succ, List.merge]
    norm_num
  simp [h1, ordersOK, ordersUsed, column, h2, importances, pointAccum, scatterAdd, rankScores, aux,
    List.modify, List.replicate]
  norm_num

/-- so without `Inv` the flag does change the result: the invariant is needed in O2/O3 -/
example : mapfork staleP true [0, 1, 0] [[1], [2], [3]] [[1], [0]] [0] 1 none
    ≠ mapfork staleP false [0, 1, 0] [[1], [2], [3]] [[1], [0]] [0] 1 none := by
  rw [ex_stale_fast, ex_stale_general]
  intro h
  injection h with h
  injection h with h _
  norm_num at h

/-- the hypothesis `labels.length = n` of O2 is needed: with two labels for three units the fast path returns
two scores, the general path three -/
example : mapfork (Prov.default 3 2) true [0, 1] [[1], [2], [3]] [[1], [0]] [0] 1 none
    ≠ mapfork (Prov.default 3 2) false [0, 1] [[1], [2], [3]] [[1], [0]] [0] 1 none := by
  rw [mapfork_simple, mapfork_nonsimple _ _ _ _ _ _ _ [[0], [1], [2]] (by decide)]
  simp only [ordersOK, if_true]
  intro h
  injection h with h
  have := congrArg List.length h
  rw [importances_length, importances_length] at this
  exact absurd this (by decide)

/-! ## O3 — `_shapley_neighbor` -/

/-- with the flag off there is nothing to prove -/
theorem C01_obj_score_flag_off (B : ℕ) (o : Obj) (yTrain yTest : List Int) (dist : List (List ℚ)) (K : ℕ)
    (u : UtilSpec) (orders : Option (List (List ℕ))) (hs : o.simple = false) :
    scoreObj B o yTrain yTest dist K u orders = score B o.p false yTrain yTest dist K u orders := by
  unfold scoreObj
  rw [hs]

/-- outside the branch `K == 1 and one conjunct` the flag is not consulted: no hypothesis on the object -/
theorem C01_obj_score_offpath (B : ℕ) (o : Obj) (yTrain yTest : List Int) (dist : List (List ℚ)) (K : ℕ)
    (u : UtilSpec) (orders : Option (List (List ℕ))) (hK : ¬ (K = 1 ∧ o.p.nConj = 1)) :
    scoreObj B o yTrain yTest dist K u orders = score B o.p false yTrain yTest dist K u orders := by
  unfold scoreObj
  apply score_congr
  intro h
  simp only [Bool.and_eq_true, beq_iff_eq] at h
  exact absurd h hK

/-- **O3.** On an object that keeps the promise of its flag (two candidates; one training label and one row
of distances per unit) `_shapley_neighbor` returns what it returns with the flag off, for every `K`. -/
theorem C01_obj_score (B : ℕ) (o : Obj) (yTrain yTest : List Int) (dist : List (List ℚ)) (K : ℕ)
    (u : UtilSpec) (orders : Option (List (List ℕ))) (hI : Obj.Inv o) (hc : o.p.nCands = 2)
    (hy : yTrain.length = o.p.nUnits) (hd : dist.length = o.p.nUnits) :
    scoreObj B o yTrain yTest dist K u orders = score B o.p false yTrain yTest dist K u orders := by
  unfold scoreObj
  apply score_congr
  intro _ yTr distB util nulls nb ords hyl hdl
  exact C01_obj_fastpath_sound_inv o yTr distB util nulls nb ords hI hc (hyl.trans hy) (hdl.trans hd)

/-- **O3 after any history** of mutations of such an object. -/
theorem C01_obj_score_reachable (B : ℕ) (o : Obj) (ops : List Obj.Op) (yTrain yTest : List Int)
    (dist : List (List ℚ)) (K : ℕ) (u : UtilSpec) (orders : Option (List (List ℕ)))
    (hI : Obj.Inv o) (hc : o.p.nCands = 2) (hy : yTrain.length = o.p.nUnits) (hd : dist.length = o.p.nUnits) :
    scoreObj B (o.run ops) yTrain yTest dist K u orders
      = score B (o.run ops).p false yTrain yTest dist K u orders := by
  obtain ⟨hU, hC⟩ := C01_obj_history_units o ops
  exact C01_obj_score B (o.run ops) yTrain yTest dist K u orders (C01_obj_history o ops hI).1
    (hC.trans hc) (hy.trans hU.symm) (hd.trans hU.symm)

/-- after at least one mutation: any object, any arguments -/
theorem C01_obj_score_edited (B : ℕ) (o : Obj) (ops : List Obj.Op) (hops : ops ≠ []) (yTrain yTest : List Int)
    (dist : List (List ℚ)) (K : ℕ) (u : UtilSpec) (orders : Option (List (List ℕ))) :
    scoreObj B (o.run ops) yTrain yTest dist K u orders
      = score B (o.run ops).p false yTrain yTest dist K u orders :=
  C01_obj_score_flag_off B _ yTrain yTest dist K u orders (run_simple o ops hops)

/-- derived containers (`p[idx]`, `p.fork(sizes)`) start with the flag off -/
theorem C01_obj_score_derived (B : ℕ) (o : Obj) (yTrain yTest : List Int) (dist : List (List ℚ)) (K : ℕ)
    (u : UtilSpec) (orders : Option (List (List ℕ))) :
    (∀ idx, scoreObj B (o.select idx) yTrain yTest dist K u orders
        = score B (o.select idx).p false yTrain yTest dist K u orders) ∧
    (∀ sizes, scoreObj B (o.fork sizes) yTrain yTest dist K u orders
        = score B (o.fork sizes).p false yTrain yTest dist K u orders) :=
  ⟨fun _ => rfl, fun _ => rfl⟩

/-- **O3 on every reachable object.** Whatever constructor made the object and whatever was done to it since,
the flag never changes what `_shapley_neighbor` returns. -/
theorem C01_obj_score_history (B : ℕ) (ops : List Obj.Op) (yTrain yTest : List Int) (dist : List (List ℚ))
    (K : ℕ) (u : UtilSpec) (orders : Option (List (List ℕ))) :
    (∀ n : ℕ, yTrain.length = n → dist.length = n →
      scoreObj B ((Obj.ofDefault n).run ops) yTrain yTest dist K u orders
        = score B ((Obj.ofDefault n).run ops).p false yTrain yTest dist K u orders) ∧
    (∀ (n c : ℕ), ops ≠ [] →
      scoreObj B ((Obj.ofDefault n c).run ops) yTrain yTest dist K u orders
        = score B ((Obj.ofDefault n c).run ops).p false yTrain yTest dist K u orders) ∧
    (∀ (es : List Expr) (n c : ℕ),
      scoreObj B ((Obj.ofExprs es n c).run ops) yTrain yTest dist K u orders
        = score B ((Obj.ofExprs es n c).run ops).p false yTrain yTest dist K u orders) ∧
    (∀ (ids : List Int) (c : ℕ),
      scoreObj B ((Obj.ofGroups ids c).run ops) yTrain yTest dist K u orders
        = score B ((Obj.ofGroups ids c).run ops).p false yTrain yTest dist K u orders) := by
  refine ⟨fun n hy hd => ?_, fun n c hops => ?_, fun es n c => ?_, fun ids c => ?_⟩
  · exact C01_obj_score_reachable B (Obj.ofDefault n) ops yTrain yTest dist K u orders (C01_obj_inv.1 n 2) rfl hy hd
  · exact C01_obj_score_edited B _ ops hops yTrain yTest dist K u orders
  · exact C01_obj_score_flag_off B _ yTrain yTest dist K u orders ((run_keeps _ ops).1 rfl)
  · exact C01_obj_score_flag_off B _ yTrain yTest dist K u orders ((run_keeps _ ops).1 rfl)

theorem ex_unique : Util.unique [5, 7, 5] = [5, 7] := by
  simp [Util.unique, List.mergeSort, List.MergeSort.Internal.splitInTwo, List.eraseDups_cons]

theorem ex_util : utilMatrices .accuracy 2 [0] = .ok ([[1], [0]], [0]) := by
  simp [utilMatrices, Util.accElem, Util.accNullElem, Util.ind, Util.mean, pure, Except.pure, List.range_succ]

/-- `Provenance(units=3)`, training labels `5,7,5`, validation label `5`, distances `1,2,3`, accuracy:
`_shapley_neighbor` as the library runs it (flag on) … -/
theorem ex_score_obj :
    scoreObj 1024 (Obj.ofDefault 3) [5, 7, 5] [5] [[1], [2], [3]] 1 .accuracy none = .ok [5/6, -1/6, 1/3] := by
  show score 1024 (Prov.default 3 2) true [5, 7, 5] [5] [[1], [2], [3]] 1 .accuracy none = _
  apply C01.C01_score_ok 1024 _ true [5, 7, 5] [5] [[1], [2], [3]] .accuracy none [[1], [0]] [0]
    (by decide) (by decide) (by decide) (by decide)
  · rw [ex_unique]; exact ex_util
  · rfl
  · rw [ex_unique]; exact ex_fast

/-- … and with the flag off (through O3) -/
example : score 1024 (Prov.default 3 2) false [5, 7, 5] [5] [[1], [2], [3]] 1 .accuracy none
    = .ok [5/6, -1/6, 1/3] := by
  rw [← ex_score_obj]
  exact (C01_obj_score 1024 (Obj.ofDefault 3) [5, 7, 5] [5] [[1], [2], [3]] 1 .accuracy none
    (C01_obj_inv.1 3 2) rfl rfl rfl).symm

/-- **F17 witness at the level of `_shapley_neighbor`**: the stale flag changes the scores -/
example : scoreObj 1024 ⟨staleP, true⟩ [5, 7, 5] [5] [[1], [2], [3]] 1 .accuracy none = .ok [5/6, -1/6, 1/3]
    ∧ score 1024 staleP false [5, 7, 5] [5] [[1], [2], [3]] 1 .accuracy none = .ok [0, 1/2, 1/2] := by
  constructor
  · show score 1024 staleP true [5, 7, 5] [5] [[1], [2], [3]] 1 .accuracy none = _
    apply C01.C01_score_ok 1024 _ true [5, 7, 5] [5] [[1], [2], [3]] .accuracy none [[1], [0]] [0]
      (by decide) (by decide) (by decide) (by decide)
    · rw [ex_unique]; exact ex_util
    · rfl
    · rw [ex_unique]; exact ex_stale_fast
  · apply C01.C01_score_ok 1024 _ false [5, 7, 5] [5] [[1], [2], [3]] .accuracy none [[1], [0]] [0]
      (by decide) (by decide) (by decide) (by decide)
    · rw [ex_unique]; exact ex_util
    · rfl
    · rw [ex_unique]; exact ex_stale_general

/-- the hypothesis "two candidates" of O2/O3 is needed: `Provenance(units=2, candidates=3)` has the flag on and
satisfies `Inv`, but it has two rows per unit (`x_u == 1`, `x_u == 2`); the fast path returns one score per
ROW, the general path one per unit -/
example : Obj.Inv (Obj.ofDefault 2 3) ∧ (Obj.ofDefault 2 3).simple = true ∧
    rowsOf (Prov.default 2 3) = .ok [[0], [2]] ∧
    mapfork (Prov.default 2 3) true [0, 1, 0, 1] [[1], [2], [3], [4]] [[1], [0]] [0] 1 none
      ≠ mapfork (Prov.default 2 3) false [0, 1, 0, 1] [[1], [2], [3], [4]] [[1], [0]] [0] 1 none := by
  refine ⟨fun _ => rfl, rfl, by decide, ?_⟩
  rw [mapfork_simple, mapfork_nonsimple _ _ _ _ _ _ _ [[0], [2]] (by decide)]
  simp only [ordersOK, if_true]
  intro h
  injection h with h
  have := congrArg List.length h
  rw [importances_length, importances_length] at this
  exact absurd this (by decide)

end DsProofs.C01Obj
