import DsProofs.MCProofs
import DsProofs.ProvProofs

/-!
# Helper lemmas: the scoring loops on top of a provenance container

`Ds.evalRows p util q` (query the container with the assignment `q`, evaluate the utility on the
selected rows) is, on a well padded container and a 0/1 assignment, the utility evaluated on
`rowsTrue p S`: the ascending list of exactly the rows whose stored formula is true under the
coalition `S` that `q` stands for.  With that, `Ds.Brute.scoresProv` / `Ds.MC.runProv` are instances
of `Ds.Brute.scores` / `Ds.MC.run` on the game `S ↦ util (rowsTrue p S)`.
-/

open Ds Ds.Prov BruteP MCP

namespace ComposeP

/-! ### specification side -/

/-- the ascending list of the row indices `r` whose stored formula `p.data[r]` is true
(`Ds.Prov.rowSem`) under the assignment `a` (`a[u]` = candidate index of unit `u`) -/
def rowsTrueA (p : P) (a : List ℕ) : List ℕ :=
  (List.range p.data.length).filter (fun r => rowSem a (p.data.getD r []))

/-- the rows whose formula is true under the coalition `S` (units in `S` take candidate 1, all other
units candidate 0) -/
def rowsTrue (p : P) (S : Finset (Fin p.nUnits)) : List ℕ := rowsTrueA p (ofSet S)

/-- the 0/1 assignment over `n` units with exactly the units occurring in the list `A` switched on -/
def indA (n : ℕ) (A : List ℕ) : List ℕ := (List.range n).map (fun u => if u ∈ A then 1 else 0)

/-- the rows whose formula is true when exactly the units listed in `A` are switched on -/
def rowsOn (p : P) (A : List ℕ) : List ℕ := rowsTrueA p (indA p.nUnits A)

theorem rowsTrueA_sorted (p : P) (a : List ℕ) : (rowsTrueA p a).Pairwise (· < ·) :=
  List.Pairwise.filter _ List.pairwise_lt_range

theorem mem_rowsTrueA (p : P) (a : List ℕ) (r : ℕ) :
    r ∈ rowsTrueA p a ↔ ∃ h : r < p.data.length, rowSem a p.data[r] = true := by
  simp only [rowsTrueA, List.mem_filter, List.mem_range, List.getD_eq_getElem?_getD]
  constructor
  · rintro ⟨h1, h2⟩
    exact ⟨h1, by simpa [h1] using h2⟩
  · rintro ⟨h1, h2⟩
    exact ⟨h1, by simpa [h1] using h2⟩

/-- the ascending list of the positions `r` whose expression `es[r]` evaluates to true under `a` -/
def rowsExpr (es : List Expr) (a : List ℕ) : List ℕ :=
  (List.range es.length).filter (fun r => es[r]?.any (fun e => e.eval a))

/-- in a container built from proper expressions, the rows true under `a` are the positions of the
expressions that evaluate to true under `a` -/
theorem rowsTrueA_ofExprs (es : List Expr) (n k : ℕ) (a : List ℕ) (hprop : ∀ e ∈ es, e.Proper) :
    rowsTrueA (ofExprs es n k) a = rowsExpr es a := by
  unfold rowsTrueA rowsExpr
  simp only [ofExprs, List.length_map]
  apply List.filter_congr
  intro r hr
  have hr' : r < es.length := List.mem_range.mp hr
  simp only [List.getD_eq_getElem?_getD, List.getElem?_map, List.getElem?_eq_getElem hr',
    Option.map_some, Option.getD_some, Option.any_some]
  exact rowSem_stored a es[r] (hprop _ (List.getElem_mem hr')) _ _

/-! ### `queryIdx` on a well padded container -/

theorem queryIdx_ok (p : P) (vals : List Int) (hp : WellPadded p) (hlen : vals.length = p.nUnits)
    (hpos : ∀ v ∈ vals, 0 ≤ v) :
    queryIdx p vals = .ok (rowsTrueA p (vals.map Int.toNat)) := by
  rw [queryIdx_of_query (query_ok p vals hp hlen hpos)]
  congr 1
  rw [List.length_map]
  unfold rowsTrueA
  apply List.filter_congr
  intro r hr
  have hr' : r < p.data.length := List.mem_range.mp hr
  simp [List.getD_eq_getElem?_getD, hr']

theorem evalRows_ok (p : P) (util : List ℕ → Outcome) (vals : List Int) (hp : WellPadded p)
    (hlen : vals.length = p.nUnits) (hpos : ∀ v ∈ vals, 0 ≤ v) :
    evalRows p util vals = util (rowsTrueA p (vals.map Int.toNat)) := by
  unfold evalRows
  rw [queryIdx_ok p vals hp hlen hpos]

/-! ### 0/1 queries ↔ coalitions -/

/-- the coalition a 0/1 query stands for -/
def qSet (n : ℕ) (q : List Int) : Finset (Fin n) := Finset.univ.filter (fun i => q.getD i.val 0 = 1)

theorem isQuery_nonneg {n : ℕ} {q : List Int} (h : IsQuery n q) : ∀ v ∈ q, 0 ≤ v := by
  intro v hv
  rcases h.2 v hv with rfl | rfl <;> decide

theorem map_toNat_of_isQuery {n : ℕ} {q : List Int} (h : IsQuery n q) :
    q.map Int.toNat = ofSet (qSet n q) := by
  apply List.ext_getElem
  · simp [ofSet, h.1]
  · intro i h1 h2
    have hi : i < q.length := by simpa using h1
    have hx := h.2 q[i] (List.getElem_mem hi)
    simp only [List.getElem_map, ofSet, List.getElem_ofFn, qSet, Finset.mem_filter, Finset.mem_univ,
      true_and, List.getD_eq_getElem?_getD, List.getElem?_eq_getElem hi, Option.getD_some]
    rcases hx with e | e <;> simp [e]

theorem evalRows_of_isQuery (p : P) (util : List ℕ → Outcome) (hp : WellPadded p) {q : List Int}
    (h : IsQuery p.nUnits q) : evalRows p util q = util (rowsTrue p (qSet p.nUnits q)) := by
  rw [evalRows_ok p util q hp h.1 (isQuery_nonneg h), map_toNat_of_isQuery h]
  rfl

theorem isQuery_of_mem_allAssign {n : ℕ} {a : List ℕ} (h : a ∈ allAssign n) :
    IsQuery n (a.map Int.ofNat) := by
  obtain ⟨h1, h2⟩ := mem_allAssign h
  refine ⟨by simp [h1], ?_⟩
  intro x hx
  obtain ⟨y, hy, rfl⟩ := List.mem_map.mp hx
  rcases h2 y hy with rfl | rfl
  · left; rfl
  · right; rfl

theorem qSet_map_ofNat (n : ℕ) (a : List ℕ) : qSet n (a.map Int.ofNat) = toSet n a := by
  ext i
  simp only [qSet, toSet, Finset.mem_filter, Finset.mem_univ, true_and, List.getD_eq_getElem?_getD,
    List.getElem?_map]
  cases a[i.val]? with
  | none => simp
  | some x => simp

theorem qSet_indS {n : ℕ} (S : Finset (Fin n)) : qSet n (indS S) = S := by
  ext i
  simp [qSet, indS, List.getD_eq_getElem?_getD]

theorem isQuery_indS {n : ℕ} (S : Finset (Fin n)) : IsQuery n (indS S) := by
  refine ⟨by simp [indS], ?_⟩
  intro x hx
  simp only [indS, List.mem_ofFn] at hx
  obtain ⟨i, rfl⟩ := hx
  split <;> simp

/-- coalition evaluation of the enumeration loop -/
theorem evalRows_assign (p : P) (util : List ℕ → Outcome) (hp : WellPadded p) {a : List ℕ}
    (h : a ∈ allAssign p.nUnits) :
    evalRows p util (a.map Int.ofNat) = util (rowsTrue p (toSet p.nUnits a)) := by
  rw [evalRows_of_isQuery p util hp (isQuery_of_mem_allAssign h), qSet_map_ofNat]

/-- coalition evaluation on the query vector of a coalition -/
theorem evalRows_indS (p : P) (util : List ℕ → Outcome) (hp : WellPadded p)
    (S : Finset (Fin p.nUnits)) : evalRows p util (indS S) = util (rowsTrue p S) := by
  rw [evalRows_of_isQuery p util hp (isQuery_indS S), qSet_indS]

/-! ### unit lists -/

theorem map_toNat_indQ (n : ℕ) (A : List ℕ) : (indQ n A).map Int.toNat = indA n A := by
  unfold indQ indA
  rw [List.map_map]
  apply List.map_congr_left
  intro u _
  simp only [Function.comp]
  split <;> rfl

theorem evalRows_indQ (p : P) (util : List ℕ → Outcome) (hp : WellPadded p) (A : List ℕ) :
    evalRows p util (indQ p.nUnits A) = util (rowsOn p A) := by
  have h := isQuery_indQ p.nUnits A
  rw [evalRows_ok p util _ hp h.1 (isQuery_nonneg h), map_toNat_indQ]
  rfl

theorem indA_eq_ofSet (n : ℕ) (A : List ℕ) :
    indA n A = ofSet (Finset.univ.filter (fun i : Fin n => i.val ∈ A)) := by
  apply List.ext_getElem
  · simp [indA, ofSet]
  · intro i h1 h2
    simp [indA, ofSet]

/-- the rows present when the units listed in `A` are on are the rows true under the coalition of
the units occurring in `A` -/
theorem rowsOn_eq_rowsTrue (p : P) (A : List ℕ) :
    rowsOn p A = rowsTrue p (Finset.univ.filter (fun i : Fin p.nUnits => i.val ∈ A)) := by
  unfold rowsOn rowsTrue
  rw [indA_eq_ofSet]

theorem rowsOn_nil (p : P) : rowsOn p [] = rowsTrue p ∅ := by
  rw [rowsOn_eq_rowsTrue]; congr 1; simp

theorem rowsOn_nil_replicate (p : P) : rowsOn p [] = rowsTrueA p (List.replicate p.nUnits 0) := by
  unfold rowsOn
  congr 1
  apply List.ext_getElem <;> simp [indA]

theorem rowsOn_full (p : P) {A : List ℕ} (h : ∀ u, u < p.nUnits → u ∈ A) :
    rowsOn p A = rowsTrue p Finset.univ := by
  rw [rowsOn_eq_rowsTrue]; congr 1
  ext i; simp [h i.val i.isLt]

/-! ### the loops depend on the evaluation only through the enumerated assignments -/

theorem foldlM_congr_mem {α β : Type} (f g : β → α → Option β) (l : List α)
    (h : ∀ a ∈ l, ∀ b, f b a = g b a) (b : β) : l.foldlM f b = l.foldlM g b := by
  induction l generalizing b with
  | nil => rfl
  | cons a l ih =>
    rw [List.foldlM_cons, List.foldlM_cons, h a List.mem_cons_self b]
    cases g b a with
    | none => rfl
    | some b' => exact ih (fun a ha => h a (List.mem_cons_of_mem _ ha)) b'

theorem scores_congr (n : ℕ) (v v' : List ℕ → Outcome) (null : ℚ)
    (h : ∀ a ∈ allAssign n, v a = v' a) : Brute.scores n v null = Brute.scores n v' null := by
  rw [scores_eq_foldlM, scores_eq_foldlM]
  apply foldlM_congr_mem
  intro a ha b
  unfold body
  rw [h a ha]

/-- the enumeration loop on top of a container is the enumeration loop on the game
`S ↦ util (rowsTrue p S)` -/
theorem scoresProv_eq (p : P) (util : List ℕ → Outcome) (null : ℚ) (hp : WellPadded p) :
    Brute.scoresProv p util null =
      Brute.scores p.nUnits (fun a => util (rowsTrue p (toSet p.nUnits a))) null := by
  unfold Brute.scoresProv
  exact scores_congr _ _ _ _ (fun a ha => evalRows_assign p util hp ha)

/-- no query of the Monte-Carlo walk propagates when no selected row list does -/
theorem evalRows_ne_other (p : P) (util : List ℕ → Outcome) (hp : WellPadded p)
    (hutil : ∀ S : Finset (Fin p.nUnits), util (rowsTrue p S) ≠ .other) :
    ∀ q, IsQuery p.nUnits q → evalRows p util q ≠ .other := by
  intro q hq
  rw [evalRows_of_isQuery p util hp hq]
  exact hutil _

/-- position of a unit in a permutation -/
theorem getElem_idxOf_perm {n : ℕ} {π : List ℕ} (hnd : π.Nodup) (hlt : ∀ x ∈ π, x < n)
    (hlen : π.length = n) {i : ℕ} (hi : i < n) :
    ∃ hk : π.idxOf i < π.length, π[π.idxOf i] = i := by
  have hmem : i ∈ π := mem_of_isPerm hnd hlt hlen i hi
  exact ⟨List.idxOf_lt_length_of_mem hmem, List.getElem_idxOf _⟩

/-- the column entry of unit `i` for the visiting order `π`, on top of a container: the value of the
rows present once the units up to and including `i` are on, minus the value of the rows present
with only the units before `i` on -/
theorem columnP_prov_entry (p : P) (util : List ℕ → Outcome) (null mean : ℚ) (pr : MC.Params)
    (hp : WellPadded p) (htr : pr.truncSteps = 0) {π : List ℕ} (hnd : π.Nodup)
    (hlt : ∀ x ∈ π, x < p.nUnits) (hlen : π.length = p.nUnits) {i : ℕ} (hi : i < p.nUnits) :
    (columnP p.nUnits (evalRows p util) null mean pr π).getD i 0 =
      valOf null (util (rowsOn p (π.take (π.idxOf i + 1)))) -
        valOf null (util (rowsOn p (π.take (π.idxOf i)))) := by
  obtain ⟨hk, hik⟩ := getElem_idxOf_perm hnd hlt hlen hi
  have h := columnP_entry (v := evalRows p util) (null := null) (mean := mean) htr hnd hlt
    (π.idxOf i) hk
  rw [hik] at h
  rw [h, evalRows_indQ p util hp, evalRows_indQ p util hp]

theorem evalRows_ones (p : P) (util : List ℕ → Outcome) (hp : WellPadded p) :
    evalRows p util (List.replicate p.nUnits 1) = util (rowsTrue p Finset.univ) := by
  rw [← indS_univ, evalRows_indS p util hp]

theorem evalRows_zeros (p : P) (util : List ℕ → Outcome) (hp : WellPadded p) :
    evalRows p util (List.replicate p.nUnits 0) = util (rowsTrue p ∅) := by
  rw [← indS_empty, evalRows_indS p util hp]

theorem ext_getD {L M : List ℚ} {n : ℕ} (hL : L.length = n) (hM : M.length = n)
    (h : ∀ i, i < n → L.getD i 0 = M.getD i 0) : L = M := by
  apply List.ext_getElem (by rw [hL, hM])
  intro i h1 h2
  have := h i (by rw [← hL]; exact h1)
  simpa [List.getD_eq_getElem?_getD, h1, h2] using this

end ComposeP
