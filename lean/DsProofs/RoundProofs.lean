import DsProofs.KernelProofs
import Mathlib.Algebra.Order.Field.Rat
import Mathlib.Algebra.Order.Field.Basic
import Mathlib.Algebra.Order.AbsoluteValue.Basic
import Mathlib.Algebra.Order.BigOperators.Group.Finset
import Mathlib.Algebra.Order.BigOperators.Group.List
import Mathlib.Algebra.BigOperators.Field
import Mathlib.Algebra.BigOperators.Intervals
import Mathlib.Tactic.Ring
import Mathlib.Tactic.Linarith
import Mathlib.Tactic.Positivity
import Mathlib.Tactic.GCongr
import Mathlib.Tactic.NormNum

/-!
# The kernel `Ds.Kernel` run in ROUNDED arithmetic — standard model of floating point

`Ds/Kernel.lean` is written once, polymorphic in the scalar type.  Here it is instantiated at

* `Rd fl` : a rational number, but every `+`, `-`, `/` computes the exact rational result and then
  applies an arbitrary rounding function `fl : ℚ → ℚ`; casts of natural numbers are exact.

`StdModel fl ε` is the *standard model of floating-point arithmetic* (Higham, "Accuracy and Stability of
Numerical Algorithms", §2.2): every rounded operation has relative error at most `ε`, and natural
numbers are machine numbers.  IEEE-754 binary64 with round-to-nearest satisfies it with `ε = 2⁻⁵³`
as long as no overflow/underflow occurs and the integers involved are below `2⁵³`.

Contents
* `Rd`, its instances, `StdModel`.
* `Approx ε p X x̂ x` : "`x̂` is `x` after at most `p` roundings, measured against the magnitude `X`":
  `|x| ≤ X` and `|x̂ - x| ≤ ((1+ε)^p - 1) * X`.  Calculus: `approx_exact`, `approx_mono`, `approx_fl`,
  `approx_add`, `approx_div`.
* `absScore`, `absPoint`, `A` : the "absolute-value version" of the exact scores; `H` the harmonic number.
* `aux_round` : the backward loop; `rankScores_round` : one validation point, by rank.
* `scatterAdd_getD_nodup` : the scatter loop for an arbitrary scalar type (no associativity needed).
* `pointAccum_round`, `fold_round`, `importances_round` : the whole kernel.
* `absScore_le`, `A_le` : bounds by `2·M·H n`; `gamma_le`, `H_le_log2`.
-/

open Finset Ds.Kernel

namespace DsProofs.Round

/-! ### The rounded scalar type -/

/-- A rational number whose arithmetic is rounded by `fl` after every operation. -/
structure Rd (fl : ℚ → ℚ) where
  /-- the value held -/
  v : ℚ

variable {fl : ℚ → ℚ}

instance : Add (Rd fl) := ⟨fun a b => ⟨fl (a.v + b.v)⟩⟩
instance : Sub (Rd fl) := ⟨fun a b => ⟨fl (a.v - b.v)⟩⟩
instance : Div (Rd fl) := ⟨fun a b => ⟨fl (a.v / b.v)⟩⟩
/-- natural numbers are injected exactly -/
instance : NatCast (Rd fl) := ⟨fun n => ⟨(n : ℚ)⟩⟩

theorem add_v (a b : Rd fl) : (a + b).v = fl (a.v + b.v) := rfl
theorem sub_v (a b : Rd fl) : (a - b).v = fl (a.v - b.v) := rfl
theorem div_v (a b : Rd fl) : (a / b).v = fl (a.v / b.v) := rfl
theorem natCast_v (n : ℕ) : ((n : ℕ) : Rd fl).v = (n : ℚ) := rfl

/-- exact injection of a list of machine numbers -/
abbrev inj (fl : ℚ → ℚ) (l : List ℚ) : List (Rd fl) := l.map Rd.mk

/-- The standard model of floating-point arithmetic with unit roundoff `ε`. -/
structure StdModel (fl : ℚ → ℚ) (ε : ℚ) : Prop where
  eps_nonneg : 0 ≤ ε
  rel : ∀ x : ℚ, |fl x - x| ≤ ε * |x|
  nat : ∀ n : ℕ, fl (n : ℚ) = n

/-- `0 ≤ ε` is in fact a consequence of the relative-error hypothesis (take `x = 1`). -/
theorem eps_nonneg_of_rel {ε : ℚ} (h : ∀ x : ℚ, |fl x - x| ≤ ε * |x|) : 0 ≤ ε := by
  have := h 1
  rw [abs_one, mul_one] at this
  exact le_trans (abs_nonneg _) this

/-! ### The error calculus -/

/-- `x̂` approximates `x` with at most `p` accumulated roundings relative to the magnitude `X`. -/
def Approx (ε : ℚ) (p : ℕ) (X xh x : ℚ) : Prop := |x| ≤ X ∧ |xh - x| ≤ ((1 + ε) ^ p - 1) * X

section calculus
variable {ε : ℚ}

theorem g_nonneg (hε : 0 ≤ ε) (p : ℕ) : 0 ≤ (1 + ε) ^ p - 1 := by
  have : 1 ≤ (1 + ε) ^ p := one_le_pow₀ (by linarith)
  linarith

theorem g_mono (hε : 0 ≤ ε) {p q : ℕ} (h : p ≤ q) : (1 + ε) ^ p - 1 ≤ (1 + ε) ^ q - 1 := by
  have : (1 + ε) ^ p ≤ (1 + ε) ^ q := pow_le_pow_right₀ (by linarith) h
  linarith

theorem Approx.nonneg {p : ℕ} {X xh x : ℚ} (h : Approx ε p X xh x) : 0 ≤ X :=
  le_trans (abs_nonneg _) h.1

theorem approx_exact (p : ℕ) (hε : 0 ≤ ε) (x : ℚ) : Approx ε p |x| x x := by
  refine ⟨le_refl _, ?_⟩
  rw [sub_self, abs_zero]
  exact mul_nonneg (g_nonneg hε p) (abs_nonneg _)

theorem approx_zero (p : ℕ) : Approx ε p 0 0 0 := by
  refine ⟨by simp, by simp⟩

theorem approx_mono (hε : 0 ≤ ε) {p q : ℕ} (hpq : p ≤ q) {X xh x : ℚ} (h : Approx ε p X xh x) :
    Approx ε q X xh x :=
  ⟨h.1, le_trans h.2 (mul_le_mul_of_nonneg_right (g_mono hε hpq) h.nonneg)⟩

/-- one more rounding: one more factor `1+ε` -/
theorem approx_fl (hε : 0 ≤ ε) (hfl : ∀ x : ℚ, |fl x - x| ≤ ε * |x|) {p : ℕ} {X xh x : ℚ}
    (h : Approx ε p X xh x) : Approx ε (p + 1) X (fl xh) x := by
  refine ⟨h.1, ?_⟩
  have h1 := hfl xh
  have h2 : |xh| ≤ |x| + |xh - x| := by
    have := abs_add_le x (xh - x)
    rwa [add_sub_cancel] at this
  have h3 : |fl xh - x| ≤ |fl xh - xh| + |xh - x| := abs_sub_le _ _ _
  have hg := g_nonneg hε p
  have h4 : ε * |xh| ≤ ε * (X + ((1 + ε) ^ p - 1) * X) :=
    mul_le_mul_of_nonneg_left (by linarith [h.1, h.2]) hε
  have : (1 + ε) ^ (p + 1) = (1 + ε) ^ p * (1 + ε) := pow_succ _ _
  rw [this]
  nlinarith [h.2, h.1]

theorem approx_add {p : ℕ} {X Y xh x yh y : ℚ} (hx : Approx ε p X xh x) (hy : Approx ε p Y yh y) :
    Approx ε p (X + Y) (xh + yh) (x + y) := by
  refine ⟨le_trans (abs_add_le _ _) (add_le_add hx.1 hy.1), ?_⟩
  have : xh + yh - (x + y) = (xh - x) + (yh - y) := by ring
  rw [this, mul_add]
  exact le_trans (abs_add_le _ _) (add_le_add hx.2 hy.2)

theorem approx_div {p : ℕ} {X xh x : ℚ} (d : ℚ) (hd : 0 ≤ d) (hx : Approx ε p X xh x) :
    Approx ε p (X / d) (xh / d) (x / d) := by
  refine ⟨?_, ?_⟩
  · rw [abs_div, abs_of_nonneg hd]
    exact div_le_div_of_nonneg_right hx.1 hd
  · rw [← sub_div, abs_div, abs_of_nonneg hd, ← mul_div_assoc]
    exact div_le_div_of_nonneg_right hx.2 hd

end calculus

/-! ### The "absolute-value version" of the exact scores -/

/-- `Σ_{k ≥ r} |L[k] - L[k+1]| / (i + k + 1)` : `Ds.Kernel.closed` with absolute differences -/
def absClosed (L : List ℚ) (i r : ℕ) : ℚ :=
  ∑ k ∈ range (L.length - 1), if r ≤ k then |L.getD k 0 - L.getD (k+1) 0| / ((i : ℚ) + k + 1) else 0

/-- One validation point, rank `r`: `Σ_{k = r}^{n-1} |u_k - u_{k+1}| / (k+1)` where `u_0 … u_{n-1}` are
the utilities in rank order and `u_n = null`.  (The exact score `rankScores us null` at rank `r` is the
same sum without the absolute values: `Ds.Kernel.rankScores_closed`.) -/
def absScore (us : List ℚ) (null : ℚ) (r : ℕ) : ℚ :=
  ∑ k ∈ range us.length,
    if r ≤ k then |(us ++ [null]).getD k 0 - (us ++ [null]).getD (k+1) 0| / ((k : ℚ) + 1) else 0

/-- One validation point, unit `u`: `absScore` at the rank of `u` (`order.idxOf u`). -/
def absPoint (labels order : List ℕ) (util : List ℚ) (null : ℚ) (u : ℕ) : ℚ :=
  absScore (usOf labels order util null) null (order.idxOf u)

/-- **`A u`** : the absolute-value version of the exact importance of unit `u`,
`(1/m) Σ_{j<m} Σ_{k ≥ rank_j(u)} |Δ_j k| / (k+1)`. -/
def A (m : ℕ) (labels orders : List (List ℕ)) (utils : List (List ℚ)) (nulls : List ℚ) (u : ℕ) : ℚ :=
  (∑ j ∈ range m, absPoint (labels.getD j []) (orders.getD j []) (utils.getD j []) (nulls.getD j 0) u) / (m : ℚ)

/-- the harmonic number `H n = 1 + 1/2 + … + 1/n` -/
def H (n : ℕ) : ℚ := ∑ k ∈ range n, 1 / ((k : ℚ) + 1)

theorem absScore_eq_absClosed (us : List ℚ) (null : ℚ) (r : ℕ) :
    absScore us null r = absClosed (us ++ [null]) 0 r := by
  unfold absScore absClosed
  simp

theorem absClosed_cons_zero (u v : ℚ) (rest : List ℚ) (i : ℕ) :
    absClosed (u :: v :: rest) i 0 = |u - v| / ((i:ℚ) + 1) + absClosed (v :: rest) (i+1) 0 := by
  unfold absClosed
  simp only [List.length_cons, Nat.add_sub_cancel, Nat.zero_le, if_true]
  rw [Finset.sum_range_succ']
  simp only [List.getD_cons_succ, List.getD_cons_zero, Nat.cast_zero, add_zero]
  rw [add_comm]
  congr 1
  apply Finset.sum_congr rfl
  intro k _
  push_cast; ring_nf

theorem absClosed_cons_succ (u v : ℚ) (rest : List ℚ) (i r : ℕ) :
    absClosed (u :: v :: rest) i (r+1) = absClosed (v :: rest) (i+1) r := by
  unfold absClosed
  simp only [List.length_cons, Nat.add_sub_cancel]
  rw [Finset.sum_range_succ']
  simp only [List.getD_cons_succ, Nat.add_le_add_iff_right]
  have : ¬ (r + 1 ≤ 0) := by omega
  rw [if_neg this, add_zero]
  apply Finset.sum_congr rfl
  intro k _
  push_cast; ring_nf

theorem absClosed_nonneg (L : List ℚ) (i r : ℕ) : 0 ≤ absClosed L i r := by
  unfold absClosed
  apply Finset.sum_nonneg
  intro k _
  split_ifs
  · positivity
  · exact le_refl _

/-! ### The backward loop in rounded arithmetic -/

theorem aux_length' {α : Type} [Add α] [Sub α] [Div α] [NatCast α] (L : List α) (i : ℕ) :
    (aux L i).2.length = L.length - 1 := by
  induction L generalizing i with
  | nil => simp [aux]
  | cons u t ih =>
    cases t with
    | nil => simp [aux]
    | cons v rest => simp [aux, ih (i+1)]

section loop
variable {ε : ℚ}

/-- one term `(u - v)/(i+1)` : two roundings (the denominator `i + 1` is exact) -/
theorem term_round (hm : StdModel fl ε) (u v : ℚ) (i : ℕ) :
    Approx ε 2 (|u - v| / ((i:ℚ) + 1))
      (((⟨u⟩ : Rd fl) - ⟨v⟩) / (((i : ℕ) : Rd fl) + ((1 : ℕ) : Rd fl))).v ((u - v) / ((i:ℚ) + 1)) := by
  have hden : (((i : ℕ) : Rd fl) + ((1 : ℕ) : Rd fl)).v = (i:ℚ) + 1 := by
    rw [add_v, natCast_v, natCast_v, ← Nat.cast_add, hm.nat]; push_cast; rfl
  rw [div_v, hden, sub_v]
  have h0 : Approx ε 0 |u - v| (u - v) (u - v) := approx_exact 0 hm.eps_nonneg _
  have h1 := approx_fl hm.eps_nonneg hm.rel h0
  have h2 := approx_div ((i:ℚ) + 1) (by positivity) h1
  exact approx_fl hm.eps_nonneg hm.rel h2

/-- **The backward loop.**  `current` after the last step has seen `L.length - 1` terms and is off by
at most `L.length + 1` roundings; the score of (relative) rank `r` by at most `L.length - r + 1`. -/
theorem aux_round (hm : StdModel fl ε) (L : List ℚ) (i : ℕ) :
    Approx ε (L.length + 1) (absClosed L i 0) (aux (inj fl L) i).1.v (aux L i).1 ∧
    ∀ r, r < L.length - 1 →
      Approx ε (L.length - r + 1) (absClosed L i r)
        ((aux (inj fl L) i).2.getD r ⟨0⟩).v ((aux L i).2.getD r 0) := by
  induction L generalizing i with
  | nil => exact ⟨by simpa [aux, absClosed, natCast_v] using approx_zero 1, by simp⟩
  | cons u t ih =>
    cases t with
    | nil => exact ⟨by simpa [aux, absClosed, natCast_v] using approx_zero 2, by simp⟩
    | cons v rest =>
      obtain ⟨h1, h2⟩ := ih (i+1)
      have hε := hm.eps_nonneg
      have hc : Approx ε ((u :: v :: rest).length + 1) (absClosed (u :: v :: rest) i 0)
          (aux (inj fl (u :: v :: rest)) i).1.v (aux (u :: v :: rest) i).1 := by
        have ht := approx_mono hε (q := (v :: rest).length + 1) (by simp) (term_round hm u v i)
        have := approx_fl hε hm.rel (approx_add h1 ht)
        rw [absClosed_cons_zero, add_comm (|u - v| / ((i:ℚ) + 1))]
        simpa only [inj, List.map_cons, aux, add_v, Nat.cast_one, List.length_cons] using this
      refine ⟨hc, ?_⟩
      intro r hr
      cases r with
      | zero =>
        simpa only [inj, List.map_cons, aux, List.getD_cons_zero, Nat.sub_zero] using hc
      | succ r =>
        have := h2 r (by simp only [List.length_cons] at hr ⊢; omega)
        rw [absClosed_cons_succ]
        simpa only [inj, List.map_cons, aux, List.getD_cons_succ, List.length_cons,
          Nat.add_sub_add_right] using this

theorem rankScores_inj (us : List ℚ) (null : ℚ) :
    rankScores (inj fl us) (⟨null⟩ : Rd fl) = (aux (inj fl (us ++ [null])) 0).2 := by
  unfold rankScores inj
  rw [List.map_append]; rfl

theorem rankScores_inj_length (us : List ℚ) (null : ℚ) :
    (rankScores (inj fl us) (⟨null⟩ : Rd fl)).length = us.length := by
  rw [rankScores_inj, aux_length']; simp

/-- **One validation point, by rank.**  The rounded score of rank `r` is within
`(1+ε)^(n - r + 2) - 1` of the exact one, relative to `absScore`. -/
theorem rankScores_round (hm : StdModel fl ε) (us : List ℚ) (null : ℚ) (r : ℕ) (hr : r < us.length) :
    Approx ε (us.length - r + 2) (absScore us null r)
      ((rankScores (inj fl us) (⟨null⟩ : Rd fl)).getD r ⟨0⟩).v ((rankScores us null).getD r 0) := by
  have := (aux_round hm (us ++ [null]) 0).2 r (by simp; omega)
  rw [rankScores_inj, absScore_eq_absClosed]
  have e : (us ++ [null]).length - r + 1 = us.length - r + 2 := by
    simp only [List.length_append, List.length_singleton]; omega
  rw [e] at this
  exact this

end loop

/-! ### The scatter loop for an arbitrary scalar type -/

section scatter
variable {α : Type} [Add α]

theorem foldl_modify_length' (ps : List (ℕ × α)) (acc : List α) :
    (ps.foldl (fun a p => a.modify p.1 (· + p.2)) acc).length = acc.length := by
  induction ps generalizing acc with
  | nil => rfl
  | cons p ps ih => simp only [List.foldl_cons]; rw [ih, List.length_modify]

theorem scatterAdd_length' (acc : List α) (order : List ℕ) (rs : List α) :
    (scatterAdd acc order rs).length = acc.length := foldl_modify_length' _ _

/-- slots that are not hit are not changed -/
theorem foldl_modify_getElem?_ne (ps : List (ℕ × α)) (acc : List α) (u : ℕ) (h : ∀ p ∈ ps, p.1 ≠ u) :
    (ps.foldl (fun a p => a.modify p.1 (· + p.2)) acc)[u]? = acc[u]? := by
  induction ps generalizing acc with
  | nil => rfl
  | cons p ps ih =>
    simp only [List.foldl_cons]
    rw [ih _ (fun q hq => h q (List.mem_cons_of_mem _ hq)), List.getElem?_modify]
    simp [h p List.mem_cons_self]

/-- if `order` has no repetition, the slot of a unit `u ∈ order` receives exactly ONE addition:
`acc[u] + rs[rank of u]` (no associativity or commutativity of `+` is used) -/
theorem scatterAdd_getElem?_nodup (acc : List α) (order : List ℕ) (rs : List α) (u : ℕ) (d : α)
    (hnd : order.Nodup) (hlen : order.length = rs.length) (hu : u ∈ order) :
    (scatterAdd acc order rs)[u]? = acc[u]?.map (· + rs.getD (order.idxOf u) d) := by
  unfold scatterAdd
  induction order generalizing rs acc with
  | nil => simp at hu
  | cons o os ih =>
    cases rs with
    | nil => simp at hlen
    | cons x xs =>
      have hnd' := List.nodup_cons.mp hnd
      simp only [List.zip_cons_cons, List.foldl_cons]
      by_cases h : o = u
      · subst h
        rw [foldl_modify_getElem?_ne _ _ _ (fun p hp hpo => hnd'.1 (by
            have := (List.of_mem_zip hp).1
            rwa [hpo] at this)),
          List.getElem?_modify]
        simp
      · have hu' : u ∈ os := by
          rcases List.mem_cons.mp hu with h' | h'
          · exact absurd h'.symm h
          · exact h'
        rw [ih _ xs hnd'.2 (by simpa using hlen) hu', List.getElem?_modify, List.idxOf_cons_ne _ h]
        simp [h]

theorem scatterAdd_getD_nodup (acc : List α) (order : List ℕ) (rs : List α) (u : ℕ) (d : α)
    (hnd : order.Nodup) (hlen : order.length = rs.length) (hu : u ∈ order) (hacc : u < acc.length) :
    (scatterAdd acc order rs).getD u d = acc.getD u d + rs.getD (order.idxOf u) d := by
  simp only [List.getD_eq_getElem?_getD]
  rw [scatterAdd_getElem?_nodup acc order rs u d hnd hlen hu, List.getElem?_eq_getElem hacc]
  simp

end scatter

/-! ### One validation point and the whole kernel in rounded arithmetic -/

section kernel
variable {ε : ℚ}

theorem usOf_inj (labels order : List ℕ) (util : List ℚ) (null : ℚ) :
    order.map (fun u => (inj fl util).getD (labels.getD u 0) (⟨null⟩ : Rd fl))
      = inj fl (usOf labels order util null) := by
  unfold usOf inj
  rw [List.map_map]
  apply List.map_congr_left
  intro x _
  exact getD_map_default Rd.mk util null _

theorem pointAccum_inj_length (acc : List (Rd fl)) (labels order : List ℕ) (util : List ℚ) (null : ℚ) :
    (pointAccum acc labels order (inj fl util) ⟨null⟩).length = acc.length := scatterAdd_length' _ _ _

/-- **One validation point.**  If slot `u` carried `p ≥ n+2` roundings relative to `X`, it now carries
`p+1` relative to `X + absPoint … u`. -/
theorem pointAccum_round (hm : StdModel fl ε) (n : ℕ) (labels order : List ℕ) (util : List ℚ) (null : ℚ)
    (hp : isPerm n order = true) (accR : List (Rd fl)) (accQ : List ℚ) (hR : accR.length = n)
    (hQ : accQ.length = n) (p : ℕ) (hpn : n + 2 ≤ p) (u : ℕ) (hu : u < n) (X : ℚ)
    (h : Approx ε p X (accR.getD u ⟨0⟩).v (accQ.getD u 0)) :
    Approx ε (p + 1) (X + absPoint labels order util null u)
      ((pointAccum accR labels order (inj fl util) ⟨null⟩).getD u ⟨0⟩).v
      ((pointAccum accQ labels order util null).getD u 0) := by
  have hmem : u ∈ order := (isPerm_mem hp).mpr hu
  have hr : order.idxOf u < n := lt_of_lt_of_eq (List.idxOf_lt_length_iff.mpr hmem) (isPerm_length hp)
  have hus : (usOf labels order util null).length = n := by rw [usOf_length, isPerm_length hp]
  have eQ : (pointAccum accQ labels order util null).getD u 0
      = accQ.getD u 0 + (rankScores (usOf labels order util null) null).getD (order.idxOf u) 0 :=
    scatterAdd_perm n accQ order _ hp hQ (by rw [rankScores_length]; exact hus) u hu
  have eR : (pointAccum accR labels order (inj fl util) ⟨null⟩).getD u ⟨0⟩
      = accR.getD u ⟨0⟩
        + (rankScores (inj fl (usOf labels order util null)) (⟨null⟩ : Rd fl)).getD (order.idxOf u) ⟨0⟩ := by
    unfold pointAccum
    simp only []
    rw [usOf_inj]
    exact scatterAdd_getD_nodup accR order _ u ⟨0⟩ (isPerm_nodup hp)
      (by rw [rankScores_inj_length, hus, isPerm_length hp]) hmem (by omega)
  rw [eQ, eR, add_v]
  have hs := rankScores_round hm (usOf labels order util null) null (order.idxOf u) (by omega)
  have hs' := approx_mono hm.eps_nonneg (q := p) (by omega) hs
  exact approx_fl hm.eps_nonneg hm.rel (approx_add h hs')

/-- rounded column -/
def colR (fl : ℚ → ℚ) (c : Col) : List ℕ × List ℕ × List (Rd fl) × Rd fl :=
  (c.1, c.2.1, inj fl c.2.2.1, ⟨c.2.2.2⟩)

/-- absolute-value contribution of one column -/
def absCol (c : Col) (u : ℕ) : ℚ := absPoint c.1 c.2.1 c.2.2.1 c.2.2.2 u

theorem foldl_pointAccum_inj_length (cs : List Col) (acc : List (Rd fl)) :
    (cs.foldl (fun a c => pointAccum a c.1 c.2.1 (inj fl c.2.2.1) (⟨c.2.2.2⟩ : Rd fl)) acc).length
      = acc.length := by
  induction cs generalizing acc with
  | nil => rfl
  | cons c cs ih => simp only [List.foldl_cons]; rw [ih, pointAccum_inj_length]

/-- **All validation points.**  Each one costs one more rounding in every slot. -/
theorem fold_round (hm : StdModel fl ε) (n : ℕ) (cs : List Col) (hp : ∀ c ∈ cs, isPerm n c.2.1 = true)
    (accR : List (Rd fl)) (accQ : List ℚ) (hR : accR.length = n) (hQ : accQ.length = n)
    (p : ℕ) (hpn : n + 2 ≤ p) (u : ℕ) (hu : u < n) (X : ℚ)
    (h : Approx ε p X (accR.getD u ⟨0⟩).v (accQ.getD u 0)) :
    Approx ε (p + cs.length) (X + (cs.map (fun c => absCol c u)).sum)
      ((cs.foldl (fun a c => pointAccum a c.1 c.2.1 (inj fl c.2.2.1) (⟨c.2.2.2⟩ : Rd fl)) accR).getD u ⟨0⟩).v
      ((cs.foldl (fun a c => pointAccum a c.1 c.2.1 c.2.2.1 c.2.2.2) accQ).getD u 0) := by
  induction cs generalizing accR accQ p X with
  | nil =>
    simp only [List.length_nil, List.map_nil, List.sum_nil, add_zero, List.foldl_nil]
    exact h
  | cons c cs ih =>
    have h1 := pointAccum_round hm n c.1 c.2.1 c.2.2.1 c.2.2.2 (hp c List.mem_cons_self) accR accQ hR hQ p hpn
      u hu X h
    have h2 := ih (fun c' hc' => hp c' (List.mem_cons_of_mem _ hc')) _ _
      (by rw [pointAccum_inj_length]; exact hR) (by rw [pointAccum_length]; exact hQ) (p + 1) (by omega) _ h1
    simp only [List.foldl_cons, List.map_cons, List.sum_cons, List.length_cons]
    have e1 : p + (cs.length + 1) = p + 1 + cs.length := by omega
    have e2 : X + (absCol c u + (cs.map (fun c => absCol c u)).sum)
        = X + absPoint c.1 c.2.1 c.2.2.1 c.2.2.2 u + (cs.map (fun c => absCol c u)).sum := by
      unfold absCol; ring
    rw [e1, e2]
    exact h2

theorem cols_inj (labels orders : List (List ℕ)) (utils : List (List ℚ)) (nulls : List ℚ) :
    labels.zip (orders.zip ((utils.map (inj fl)).zip (inj fl nulls)))
      = (cols labels orders utils nulls).map (colR fl) := by
  unfold cols inj
  rw [List.zip_map, List.zip_map_right, List.zip_map_right]
  apply List.map_congr_left
  intro c _
  rfl

theorem foldl_colR (cs : List Col) (acc : List (Rd fl)) :
    (cs.map (colR fl)).foldl (fun a c => pointAccum a c.1 c.2.1 c.2.2.1 c.2.2.2) acc
      = cs.foldl (fun a c => pointAccum a c.1 c.2.1 (inj fl c.2.2.1) (⟨c.2.2.2⟩ : Rd fl)) acc := by
  rw [List.foldl_map]; rfl

/-- the rounded kernel returns one score per unit -/
theorem importances_inj_length (n : ℕ) (labels orders : List (List ℕ)) (utils : List (List ℚ)) (nulls : List ℚ) :
    (importances n labels orders (utils.map (inj fl)) (inj fl nulls)).length = n := by
  unfold importances
  simp only [List.length_map]
  rw [cols_inj, foldl_colR, foldl_pointAccum_inj_length]
  simp

theorem getD_map_lt' {β γ : Type} (l : List β) (f : β → γ) (d : β) (d' : γ) (k : ℕ) (hk : k < l.length) :
    (l.map f).getD k d' = f (l.getD k d) := by
  simp [List.getD_eq_getElem?_getD, List.getElem?_map, List.getElem?_eq_getElem hk]

theorem mem_cols_order {labels orders : List (List ℕ)} {utils : List (List ℚ)} {nulls : List ℚ} {c : Col}
    (hc : c ∈ cols labels orders utils nulls) : c.2.1 ∈ orders :=
  (List.of_mem_zip (List.of_mem_zip hc).2).1

/-- **The whole kernel**, list form: `n + (number of validation points) + 3` roundings relative to the
mean of the absolute-value contributions. -/
theorem importances_round_list (hm : StdModel fl ε) (n : ℕ) (labels orders : List (List ℕ))
    (utils : List (List ℚ)) (nulls : List ℚ) (hp : ∀ o ∈ orders, isPerm n o = true) (u : ℕ) (hu : u < n) :
    Approx ε (n + (cols labels orders utils nulls).length + 3)
      (((cols labels orders utils nulls).map (fun c => absCol c u)).sum
        / ((cols labels orders utils nulls).length : ℚ))
      ((importances n labels orders (utils.map (inj fl)) (inj fl nulls)).getD u (⟨0⟩ : Rd fl)).v
      ((importances n labels orders utils nulls).getD u 0) := by
  have hε := hm.eps_nonneg
  have h0 : Approx ε (n + 2) 0 ((List.replicate n (((0 : ℕ) : Rd fl))).getD u ⟨0⟩).v
      ((List.replicate n (((0 : ℕ) : ℚ))).getD u 0) := by
    have e1 : (List.replicate n (((0 : ℕ) : Rd fl))).getD u ⟨0⟩ = ⟨0⟩ := by
      simp only [List.getD_eq_getElem?_getD, List.getElem?_replicate, if_pos hu, Option.getD_some]
      rfl
    rw [e1, Nat.cast_zero, getD_replicate_zero]
    exact approx_zero _
  have hf := fold_round hm n (cols labels orders utils nulls) (fun c hc => hp _ (mem_cols_order hc))
    _ _ (by simp) (by simp) (n + 2) (le_refl _) u hu 0 h0
  rw [zero_add] at hf
  have hd := approx_fl hε hm.rel
    (approx_div ((cols labels orders utils nulls).length : ℚ) (by positivity) hf)
  have e : n + 2 + (cols labels orders utils nulls).length + 1
      = n + (cols labels orders utils nulls).length + 3 := by omega
  rw [e] at hd
  have eQ : (importances n labels orders utils nulls).getD u 0
      = ((cols labels orders utils nulls).foldl (fun a c => pointAccum a c.1 c.2.1 c.2.2.1 c.2.2.2)
          (List.replicate n (((0 : ℕ) : ℚ)))).getD u 0 / ((cols labels orders utils nulls).length : ℚ) := by
    unfold importances
    simp only []
    rw [getD_map_div]; rfl
  have eR : (importances n labels orders (utils.map (inj fl)) (inj fl nulls)).getD u (⟨0⟩ : Rd fl)
      = ((cols labels orders utils nulls).foldl
            (fun a c => pointAccum a c.1 c.2.1 (inj fl c.2.2.1) (⟨c.2.2.2⟩ : Rd fl))
            (List.replicate n (((0 : ℕ) : Rd fl)))).getD u ⟨0⟩
          / (((cols labels orders utils nulls).length : ℕ) : Rd fl) := by
    unfold importances
    simp only []
    rw [cols_inj, foldl_colR, List.length_map]
    rw [getD_map_lt' _ _ (⟨0⟩ : Rd fl) _ _ (by rw [foldl_pointAccum_inj_length]; simpa using hu)]
  rw [eQ, eR, div_v, natCast_v]
  exact hd

theorem absCol_sum_eq (m : ℕ) (labels orders : List (List ℕ)) (utils : List (List ℚ)) (nulls : List ℚ)
    (hl : labels.length = m) (ho : orders.length = m) (hU : utils.length = m) (hN : nulls.length = m)
    (u : ℕ) :
    ((cols labels orders utils nulls).map (fun c => absCol c u)).sum
        / ((cols labels orders utils nulls).length : ℚ) = A m labels orders utils nulls u := by
  unfold A
  rw [list_sum_map_eq_range _ _ ([], [], [], 0), cols_length_eq hl ho hU hN]
  congr 1
  apply Finset.sum_congr rfl
  intro j hj
  rw [cols_getD _ _ _ _ _ (by rw [cols_length_eq hl ho hU hN]; exact Finset.mem_range.mp hj)]
  rfl

/-- **The whole kernel.** -/
theorem importances_round (hm : StdModel fl ε) (n m : ℕ) (labels orders : List (List ℕ))
    (utils : List (List ℚ)) (nulls : List ℚ)
    (hl : labels.length = m) (ho : orders.length = m) (hU : utils.length = m) (hN : nulls.length = m)
    (hp : ∀ o ∈ orders, isPerm n o = true) (u : ℕ) (hu : u < n) :
    Approx ε (n + m + 3) (A m labels orders utils nulls u)
      ((importances n labels orders (utils.map (inj fl)) (inj fl nulls)).getD u (⟨0⟩ : Rd fl)).v
      ((importances n labels orders utils nulls).getD u 0) := by
  have := importances_round_list hm n labels orders utils nulls hp u hu
  rw [absCol_sum_eq m labels orders utils nulls hl ho hU hN, cols_length_eq hl ho hU hN] at this
  exact this

end kernel

/-! ### Bounds: utilities bounded by `M`, the γ-lemma, the harmonic number -/

section bounds

theorem H_nonneg (n : ℕ) : 0 ≤ H n := by
  unfold H
  apply Finset.sum_nonneg
  intro k _
  positivity

theorem H_mono {a b : ℕ} (h : a ≤ b) : H a ≤ H b := by
  unfold H
  apply Finset.sum_le_sum_of_subset_of_nonneg (Finset.range_mono h)
  intro k _ _
  positivity

theorem getD_abs_le {l : List ℚ} {d M : ℚ} (hl : ∀ x ∈ l, |x| ≤ M) (hd : |d| ≤ M) (k : ℕ) :
    |l.getD k d| ≤ M := by
  by_cases hk : k < l.length
  · exact hl _ (getD_mem' l d hk)
  · rw [List.getD_eq_getElem?_getD, List.getElem?_eq_none (by omega)]
    exact hd

/-- one validation point: if all utilities and the null value are bounded by `M` then
`absScore ≤ 2·M·H n` -/
theorem absScore_le (us : List ℚ) (null : ℚ) (M : ℚ) (hus : ∀ x ∈ us, |x| ≤ M) (hnull : |null| ≤ M)
    (r : ℕ) : absScore us null r ≤ 2 * M * H us.length := by
  have hM : 0 ≤ M := le_trans (abs_nonneg _) hnull
  have hall : ∀ k, |(us ++ [null]).getD k 0| ≤ M := by
    intro k
    apply getD_abs_le _ (by simpa using hM)
    intro x hx
    rcases List.mem_append.mp hx with h | h
    · exact hus x h
    · rw [List.mem_singleton.mp h]; exact hnull
  unfold absScore H
  rw [Finset.mul_sum]
  apply Finset.sum_le_sum
  intro k _
  have hk : (0:ℚ) < (k:ℚ) + 1 := by positivity
  split_ifs
  · rw [mul_one_div]
    apply div_le_div_of_nonneg_right _ hk.le
    have := abs_sub (((us ++ [null]).getD k 0)) ((us ++ [null]).getD (k+1) 0)
    linarith [hall k, hall (k+1)]
  · positivity

theorem usOf_abs_le (labels order : List ℕ) (util : List ℚ) (null : ℚ) (M : ℚ)
    (hU : ∀ x ∈ util, |x| ≤ M) (hnull : |null| ≤ M) : ∀ x ∈ usOf labels order util null, |x| ≤ M := by
  intro x hx
  unfold usOf at hx
  obtain ⟨u, _, rfl⟩ := List.mem_map.mp hx
  exact getD_abs_le hU hnull _

/-- **`A u ≤ 2·M·H n`** when every utility and every null value is bounded by `M`. -/
theorem A_le (n m : ℕ) (hm : 0 < m) (labels orders : List (List ℕ)) (utils : List (List ℚ)) (nulls : List ℚ)
    (ho : orders.length = m) (hU : utils.length = m) (hN : nulls.length = m)
    (hp : ∀ o ∈ orders, isPerm n o = true) (M : ℚ)
    (hUM : ∀ U ∈ utils, ∀ x ∈ U, |x| ≤ M) (hNM : ∀ x ∈ nulls, |x| ≤ M) (u : ℕ) :
    A m labels orders utils nulls u ≤ 2 * M * H n := by
  have hm' : (0:ℚ) < (m:ℚ) := by exact_mod_cast hm
  unfold A
  rw [div_le_iff₀ hm']
  have : ∀ j ∈ range m,
      absPoint (labels.getD j []) (orders.getD j []) (utils.getD j []) (nulls.getD j 0) u ≤ 2 * M * H n := by
    intro j hj
    have hj' := Finset.mem_range.mp hj
    have h1 := absScore_le (usOf (labels.getD j []) (orders.getD j []) (utils.getD j []) (nulls.getD j 0))
      (nulls.getD j 0) M
      (usOf_abs_le _ _ _ _ M (hUM _ (getD_mem' _ _ (by omega))) (hNM _ (getD_mem' _ _ (by omega))))
      (hNM _ (getD_mem' _ _ (by omega))) ((orders.getD j []).idxOf u)
    rw [usOf_length, isPerm_length (hp _ (getD_mem' _ _ (by omega)))] at h1
    exact h1
  have h2 := Finset.sum_le_card_nsmul _ _ _ this
  rw [Finset.card_range, nsmul_eq_mul] at h2
  linarith

/-- Bernoulli-type inequality behind the γ-lemma: `(1+ε)^k · (1 - k·ε) ≤ 1`. -/
theorem pow_mul_le_one {ε : ℚ} (hε : 0 ≤ ε) (k : ℕ) : (1 + ε) ^ k * (1 - k * ε) ≤ 1 := by
  induction k with
  | zero => simp
  | succ k ih =>
    have hp : 0 ≤ (1 + ε) ^ k := by positivity
    have : (1 + ε) ^ (k + 1) * (1 - ((k + 1 : ℕ) : ℚ) * ε)
        = (1 + ε) ^ k * (1 - k * ε) - (1 + ε) ^ k * ((k + 1) * ε ^ 2) := by
      push_cast; ring
    rw [this]
    have : 0 ≤ (1 + ε) ^ k * (((k:ℚ) + 1) * ε ^ 2) := by positivity
    linarith

/-- **γ-lemma** (Higham, Lemma 3.1): if `k·ε < 1` then `(1+ε)^k - 1 ≤ k·ε / (1 - k·ε)`. -/
theorem gamma_le {ε : ℚ} (hε : 0 ≤ ε) (k : ℕ) (hk : (k:ℚ) * ε < 1) :
    (1 + ε) ^ k - 1 ≤ k * ε / (1 - k * ε) := by
  have hd : 0 < 1 - (k:ℚ) * ε := by linarith
  rw [le_div_iff₀ hd]
  have := pow_mul_le_one hε k
  nlinarith [this]

/-- a block `h … 2h` of the harmonic series is at most 1 -/
theorem H_double (h : ℕ) : H (2 * h + 1) ≤ H h + 1 := by
  have e : 2 * h + 1 = h + (h + 1) := by omega
  unfold H
  rw [e, Finset.sum_range_add]
  have : ∑ x ∈ range (h + 1), 1 / (((h + x : ℕ) : ℚ) + 1) ≤ (h + 1 : ℕ) • (1 / ((h:ℚ) + 1)) := by
    have := Finset.sum_le_card_nsmul (range (h + 1)) (fun x => 1 / (((h + x : ℕ) : ℚ) + 1)) (1 / ((h:ℚ) + 1))
      (by
        intro x _
        apply one_div_le_one_div_of_le (by positivity)
        push_cast
        have : (0:ℚ) ≤ (x:ℚ) := by positivity
        linarith)
    rwa [Finset.card_range] at this
  rw [nsmul_eq_mul] at this
  have h1 : ((h + 1 : ℕ) : ℚ) * (1 / ((h:ℚ) + 1)) = 1 := by
    push_cast
    field_simp
  linarith

/-- **`H n ≤ 1 + log₂ n`** for `n ≥ 1` (dyadic blocks). -/
theorem H_le_log2 (n : ℕ) (hn : 1 ≤ n) : H n ≤ 1 + (Nat.log2 n : ℚ) := by
  induction n using Nat.strong_induction_on with
  | _ n ih =>
    by_cases h2 : 2 ≤ n
    · have hh : 1 ≤ n / 2 := by omega
      have ihh := ih (n / 2) (by omega) hh
      have hle : n ≤ 2 * (n / 2) + 1 := by omega
      have := le_trans (H_mono hle) (H_double (n / 2))
      rw [Nat.log2_def n, if_pos h2]
      push_cast
      linarith
    · have : n = 1 := by omega
      subst this
      simp [H]

end bounds

end DsProofs.Round
