import Lean.Data.Json
import Gen.Kernel
/-!
# gendriver — runs the TRANSLATED kernels (`Gen/Kernel.lean`, regenerated from /repo) on concrete arguments

One JSON request per line: `{"which":"py"|"cy", "scalar":"rat"|"float", "n":…, "m":…, "c":…, "L":[[…]], "D":[[…]], "U":[[…]],
"nulls":[…], "orders":[[…]]}` — `L`, `D`, `U` row-major (`n×m`, `n×m`, `c×m`); `orders[j]` is what `argsort` returned for column `j`
of `D` (the sort routine is a parameter of the translated code: it is looked up by column content).  Rationals travel as strings
`"p/q"`, doubles as their 64-bit patterns.  `{"which":"batch","B":…,"n_train":…,"n_test":…}` runs `get_test_batch_size`.
This validates the translator and `Ds/Np.lean` against the implementation.
-/
open Lean

def parseRat (s : String) : Except String Rat :=
  match s.splitOn "/" with
  | [p] => match p.toInt? with | some i => pure (i : Rat) | none => throw s!"bad rational {s}"
  | [p, q] => match p.toInt?, q.toNat? with
      | some i, some d => if d == 0 then throw s!"zero denominator {s}" else pure ((i : Rat) / (d : Rat))
      | _, _ => throw s!"bad rational {s}"
  | _ => throw s!"bad rational {s}"

def ratStr (q : Rat) : String := if q.den == 1 then toString q.num else s!"{q.num}/{q.den}"

def getRat (j : Json) : Except String Rat := match j with
  | .str s => parseRat s
  | _ => do let i ← j.getInt?; pure (i : Rat)

def getFloat (j : Json) : Except String Float := do let n ← j.getNat?; pure (Float.ofBits n.toUInt64)

def getList {α} (f : Json → Except String α) (j : Json) : Except String (List α) := do
  let a ← j.getArr?
  a.toList.mapM f

def field {α} (j : Json) (k : String) (f : Json → Except String α) : Except String α := do
  let v ← j.getObjVal? k
  match f v with
  | .ok x => pure x
  | .error e => throw s!"{k}: {e}"

instance : Inhabited Rat := ⟨0⟩
instance : NatCast Float := ⟨Float.ofNat⟩

def runKernel {α : Type} [Inhabited α] [Add α] [Sub α] [Mul α] [Div α] [Neg α] [NatCast α]
    (key : α → UInt64 ⊕ Rat) (which : String) (n m c : Nat) (L : List (List Int)) (D U : List (List α)) (nulls : List α)
    (orders : List (List Int)) (narrow : α → α) : List α :=
  let DA : Np.A2 α := ⟨n, m, D⟩
  let cols := (List.range m).map (fun (j : Nat) => (Np.col DA (j : Int)).map key)
  let eqKey : (UInt64 ⊕ Rat) → (UInt64 ⊕ Rat) → Bool := fun a b => match a, b with
    | .inl x, .inl y => x == y
    | .inr x, .inr y => x == y
    | _, _ => false
  let sameCol : List (UInt64 ⊕ Rat) → List (UInt64 ⊕ Rat) → Bool := fun a b =>
    a.length == b.length && (a.zip b).all (fun p => eqKey p.1 p.2)
  let sorter : List α → List Int := fun col =>
    match (cols.zip orders).find? (fun p => sameCol p.1 (col.map key)) with
    | some p => p.2
    | none => []
  if which == "cy" then Gen.compute_all_importances_cy sorter narrow ⟨n, m, L⟩ DA ⟨c, m, U⟩ nulls
  else Gen.compute_all_importances sorter narrow ⟨n, m, L⟩ DA ⟨c, m, U⟩ nulls

def handle (j : Json) : Except String Json := do
  let which ← field j "which" Json.getStr?
  if which == "batch" then
    let B ← field j "B" Json.getInt?
    let a ← field j "n_train" Json.getInt?
    let b ← field j "n_test" Json.getInt?
    return Json.mkObj [("ok", Json.num (Gen.get_test_batch_size B a b)), ("source_constant", Json.num Gen.const_BATCH_DISTANCE_MATRIX_SIZE)]
  let scalar ← field j "scalar" Json.getStr?
  let n ← field j "n" Json.getNat?
  let m ← field j "m" Json.getNat?
  let c ← field j "c" Json.getNat?
  let L ← field j "L" (getList (getList Json.getInt?))
  let orders ← field j "orders" (getList (getList Json.getInt?))
  if scalar == "float" then
    let D ← field j "D" (getList (getList getFloat))
    let U ← field j "U" (getList (getList getFloat))
    let nulls ← field j "nulls" (getList getFloat)
    let r := runKernel (fun x => Sum.inl x.toBits) which n m c L D U nulls orders (fun x => x.toFloat32.toFloat)
    pure (Json.mkObj [("ok", Json.arr (r.map (fun f => Json.num f.toBits.toNat)).toArray)])
  else
    let D ← field j "D" (getList (getList getRat))
    let U ← field j "U" (getList (getList getRat))
    let nulls ← field j "nulls" (getList getRat)
    let r := runKernel (fun x => Sum.inr x) which n m c L D U nulls orders id
    pure (Json.mkObj [("ok", Json.arr (r.map (fun q => Json.str (ratStr q))).toArray)])

partial def loop (hin hout : IO.FS.Stream) : IO Unit := do
  let line ← hin.getLine
  if line.isEmpty then return ()
  let out := match Json.parse line with
    | .error e => (Json.mkObj [("bad", Json.str e)]).compress
    | .ok j => match handle j with
      | .ok r => r.compress
      | .error e => (Json.mkObj [("bad", Json.str e)]).compress
  hout.putStrLn out
  hout.flush
  loop hin hout

def main : IO Unit := do
  loop (← IO.getStdin) (← IO.getStdout)
