import GenV.Value
import Ds.AVal
import Tie.NpProofs
import Mathlib.Tactic.Ring
/-!
# The translated value arithmetic (`GenV/Value.lean`, regenerated from /repo) equals the model (`Ds.AVal.clipI`, `add`, `sub`)
Values are compared through `AVal.raw` (the integer array behind a value: the invalid value is stored as `maxvalue + 1`).
-/
open Ds

namespace Ds.GenValue

/-- `maxvalue`, `infvalue` of a domain as integer arrays -/
def maxI (D : Dom) : List Int := D.maxv.map (fun (m : ℕ) => (m : Int))
def infI (D : Dom) : List Int := D.maxv.map (fun (m : ℕ) => ((m + 1 : ℕ) : Int))

theorem raw_none (D : Dom) : AVal.raw (none : AVal D) = infI D := rfl

theorem any_lt_zero (v : List Int) : ((Np.cmpVS true v 0).any id) = v.any (· < 0) := by
  unfold Np.cmpVS
  induction v with
  | nil => rfl
  | cons a t ih => simp [ih]

theorem map_toNat_cast (v : List Int) (h : v.any (· < 0) = false) : (v.map Int.toNat).map (fun (k : ℕ) => (k : Int)) = v := by
  induction v with
  | nil => rfl
  | cons a t ih =>
    simp only [List.any_cons, Bool.or_eq_false_iff, decide_eq_false_iff_not, not_lt] at h
    simp only [List.map_cons, ih h.2]
    congr 1
    exact Int.toNat_of_nonneg h.1

/-- box domains: the translated `AValue._clip` -/
theorem avalue_clip_eq (m : List ℕ) (v : List Int) (hlen : v.length = m.length) :
    GenV.avalue_clip (maxI (Dom.box m)) (infI (Dom.box m)) v = AVal.raw (AVal.clipI (Dom.box m) v) := by
  unfold GenV.avalue_clip AVal.clipI
  rw [any_lt_zero]
  by_cases hneg : v.any (· < 0) = true
  · simp [hneg, raw_none]
  · have hneg' : v.any (· < 0) = false := by simpa using hneg
    simp only [hneg', Bool.false_or, Bool.false_eq_true, if_false]
    unfold AVal.clip
    have hgt : ((Np.gtVV v (maxI (Dom.box m))).any id) = !(Dom.ok (Dom.box m) (v.map Int.toNat)) := by
      unfold Np.gtVV maxI Dom.maxv Dom.ok
      simp only [List.length_map, hlen, beq_self_eq_true, Bool.true_and]
      clear hneg
      induction v generalizing m with
      | nil => cases m <;> simp
      | cons a t ih =>
        cases m with
        | nil => simp at hlen
        | cons b ms =>
          simp only [List.any_cons, Bool.or_eq_false_iff, decide_eq_false_iff_not, not_lt] at hneg'
          simp only [List.map_cons, List.zipWith_cons_cons, List.any_cons, List.all_cons, id]
          rw [ih ms (by simpa using hlen) hneg'.2]
          have : decide (a > (b : Int)) = !decide (a.toNat ≤ b) := by
            by_cases h : a > (b : Int)
            · have : ¬ (a.toNat ≤ b) := by omega
              simp [h, this]
            · have : a.toNat ≤ b := by omega
              simp [h, this]
          rw [this]
          cases decide (a.toNat ≤ b) <;> simp
    rw [hgt]
    by_cases hok : Dom.ok (Dom.box m) (v.map Int.toNat) = true
    · simp only [hok, Bool.not_true, Bool.false_eq_true, if_false, dif_pos]
      simp only [AVal.raw]
      exact (map_toNat_cast v hneg').symm
    · have hok' : Dom.ok (Dom.box m) (v.map Int.toNat) = false := by simpa using hok
      simp [hok', raw_none]

end Ds.GenValue

namespace Ds.GenValue

/-- `slots_with`, `slots_without` of `ATally[n, K, c]` -/
def slotsWith (c : ℕ) : List Int := (List.range c).map (fun (k : ℕ) => ((k + 1 : ℕ) : Int))
def slotsWithout (c : ℕ) : List Int := (List.range c).map (fun (k : ℕ) => ((c + 1 + k : ℕ) : Int))

theorem takeI_slots (x : List ℕ) (c off : ℕ) :
    Np.takeI (x.map (fun (k : ℕ) => (k : Int))) ((List.range c).map (fun (k : ℕ) => ((off + k : ℕ) : Int)))
      = ((List.range c).map (fun k => x.getD (off + k) 0)).map (fun (k : ℕ) => (k : Int)) := by
  unfold Np.takeI
  simp only [List.map_map, Function.comp_def, Np.get1_natCast]
  apply List.map_congr_left
  intro k _
  simp only [List.getD_eq_getElem?_getD, List.getElem?_map]
  cases x[off + k]? <;> rfl

theorem range_getD_eq_take_drop (x : List ℕ) (c off : ℕ) (h : off + c ≤ x.length) :
    (List.range c).map (fun k => x.getD (off + k) 0) = (x.drop off).take c := by
  apply List.ext_getElem
  · simp; omega
  · intro i h1 h2
    simp only [List.length_map, List.length_range] at h1
    simp [List.getD_eq_getElem?_getD, List.getElem?_eq_getElem (by omega : off + i < x.length)]

theorem sumI_cast (a : List ℕ) : Np.sumI (a.map (fun k : ℕ => (k : Int))) = ((a.sum : ℕ) : Int) := by
  unfold Np.sumI
  have : ∀ (init : Int), List.foldl (· + ·) init (a.map (fun k : ℕ => (k : Int))) = init + ((a.sum : ℕ) : Int) := by
    induction a with
    | nil => intro init; simp
    | cons x xs ih => intro init; simp only [List.map_cons, List.foldl_cons, List.sum_cons]; rw [ih]; push_cast; ring
  rw [this]; simp

/-- tally domains: the translated `ATally._clip` -/
theorem atally_clip_eq (n K c : ℕ) (v : List Int) (hlen : v.length = 1 + 2 * c) :
    GenV.atally_clip (n : Int) (slotsWith c) (K : Int) (slotsWithout c) (infI (Dom.tally n K c)) v
      = AVal.raw (AVal.clipI (Dom.tally n K c) v) := by
  unfold GenV.atally_clip AVal.clipI
  rw [any_lt_zero]
  by_cases hneg : v.any (· < 0) = true
  · simp [hneg, raw_none]
  · have hneg' : v.any (· < 0) = false := by simpa using hneg
    simp only [hneg', Bool.false_or, Bool.false_eq_true, if_false]
    have hv := map_toNat_cast v hneg'
    set x := v.map Int.toNat with hx
    have hxl : x.length = 1 + 2 * c := by simp [hx, hlen]
    have h0 : Np.get1 v 0 = ((x.headD 0 : ℕ) : Int) := by
      rw [← hv]
      have : (0 : Int) = ((0 : ℕ) : Int) := rfl
      rw [this, Np.get1_natCast]
      cases x <;> simp
    have hw : Np.sumI (Np.takeI v (slotsWith c)) = ((((x.drop 1).take c).sum : ℕ) : Int) := by
      rw [← hv]
      have : slotsWith c = (List.range c).map (fun (k : ℕ) => ((1 + k : ℕ) : Int)) := by
        unfold slotsWith; apply List.map_congr_left; intro k _; congr 1; omega
      rw [this, takeI_slots, sumI_cast, range_getD_eq_take_drop x c 1 (by omega)]
    have hwo : Np.sumI (Np.takeI v (slotsWithout c)) = ((((x.drop (1 + c)).take c).sum : ℕ) : Int) := by
      rw [← hv]
      have : slotsWithout c = (List.range c).map (fun (k : ℕ) => ((1 + c + k : ℕ) : Int)) := by
        unfold slotsWithout; apply List.map_congr_left; intro k _; congr 1; omega
      rw [this, takeI_slots, sumI_cast, range_getD_eq_take_drop x c (1 + c) (by omega)]
    rw [h0, hw, hwo]
    unfold AVal.clip
    by_cases hok : Dom.ok (Dom.tally n K c) x = true
    · have hok2 := hok
      unfold Dom.ok at hok2
      simp only [hxl, beq_self_eq_true, Bool.true_and, Bool.and_eq_true, decide_eq_true_eq] at hok2
      obtain ⟨⟨h1, h2⟩, h3⟩ := hok2
      have hc : ¬ ((decide (((x.headD 0 : ℕ) : Int) > (n : Int)) || decide (((((x.drop 1).take c).sum : ℕ) : Int) > (K : Int))
          || decide (((((x.drop (1 + c)).take c).sum : ℕ) : Int) > (K : Int))) = true) := by
        simp only [Bool.or_eq_true, decide_eq_true_eq, not_or, not_lt, gt_iff_lt]
        omega
      rw [if_neg hc, dif_pos hok]
      simp only [AVal.raw]
      exact hv.symm
    · have hok2 := hok
      unfold Dom.ok at hok2
      simp only [hxl, beq_self_eq_true, Bool.true_and, Bool.and_eq_true, decide_eq_true_eq, not_and] at hok2
      have hc : ((decide (((x.headD 0 : ℕ) : Int) > (n : Int)) || decide (((((x.drop 1).take c).sum : ℕ) : Int) > (K : Int))
          || decide (((((x.drop (1 + c)).take c).sum : ℕ) : Int) > (K : Int))) = true) := by
        simp only [Bool.or_eq_true, decide_eq_true_eq, gt_iff_lt]
        by_cases a1 : x.headD 0 ≤ n
        · by_cases a2 : ((x.drop 1).take c).sum ≤ K
          · have := hok2 ⟨a1, a2⟩
            right; omega
          · left; right; omega
        · left; left; omega
      rw [if_pos hc, dif_neg hok]
      rfl

end Ds.GenValue

namespace Ds.GenValue

/-- domains with at least one component (`AValue[()]` is rejected by the constructor; tallies always have the size component) -/
def NonDeg : Dom → Prop
  | .box m => m ≠ []
  | .tally _ _ _ => True

theorem cast_any_neg (x : List ℕ) : (x.map (fun (k : ℕ) => (k : Int))).any (· < 0) = false := by
  induction x with
  | nil => rfl
  | cons a t ih => simp [ih]

theorem toNat_cast (x : List ℕ) : (x.map (fun (k : ℕ) => (k : Int))).map Int.toNat = x := by
  induction x with
  | nil => rfl
  | cons a t ih => simp [ih]

theorem clipI_cast (D : Dom) (x : List ℕ) : AVal.clipI D (x.map (fun (k : ℕ) => (k : Int))) = AVal.clip D x := by
  unfold AVal.clipI
  rw [cast_any_neg, toNat_cast]
  simp

/-- a vector whose first component exceeds the first bound is outside the domain -/
theorem not_ok_of_head (D : Dom) (hD : NonDeg D) (x : List ℕ) (h : D.maxv.headD 0 < x.headD 0) : Dom.ok D x = false := by
  cases D with
  | box m =>
    cases m with
    | nil => exact absurd rfl hD
    | cons b ms =>
      cases x with
      | nil => simp [Dom.ok]
      | cons a t =>
        simp only [Dom.maxv, List.headD_cons] at h
        simp only [Dom.ok, List.zipWith_cons_cons, List.all_cons, id]
        have : decide (a ≤ b) = false := by simp; omega
        simp [this]
  | tally n K c =>
    simp only [Dom.maxv, List.headD_cons] at h
    have hd : decide (x.headD 0 ≤ n) = false := decide_eq_false (by omega)
    show (x.length == 1 + 2 * c && decide (x.headD 0 ≤ n) && decide ((List.take c (List.drop 1 x)).sum ≤ K) &&
        decide ((List.take c (List.drop (1 + c) x)).sum ≤ K)) = false
    rw [hd]
    simp

theorem maxv_ne_nil (D : Dom) (hD : NonDeg D) : D.maxv ≠ [] := by
  cases D with
  | box m => exact hD
  | tally n K c => simp [Dom.maxv]

theorem clipI_raw (D : Dom) (hD : NonDeg D) (a : AVal D) : AVal.clipI D (AVal.raw a) = a := by
  cases a with
  | some x =>
    obtain ⟨x, hx⟩ := x
    simp only [AVal.raw]
    have : (x.map Int.ofNat) = x.map (fun (k : ℕ) => (k : Int)) := rfl
    rw [this, clipI_cast]
    unfold AVal.clip
    rw [dif_pos hx]
  | none =>
    simp only [AVal.raw]
    have : D.maxv.map (fun m => Int.ofNat (m + 1)) = (D.maxv.map (· + 1)).map (fun (k : ℕ) => (k : Int)) := by
      simp [List.map_map, Function.comp_def]
    rw [this, clipI_cast]
    unfold AVal.clip
    rw [dif_neg]
    rw [not_ok_of_head D hD]
    · simp
    · have := maxv_ne_nil D hD
      cases hm : D.maxv with
      | nil => exact absurd hm this
      | cons b ms => simp

theorem raw_nonneg_head (D : Dom) (a : AVal D) : ∃ x : List ℕ, AVal.raw a = x.map (fun (k : ℕ) => (k : Int)) := by
  cases a with
  | some x => exact ⟨x.1, rfl⟩
  | none => exact ⟨D.maxv.map (· + 1), by simp [AVal.raw, List.map_map, Function.comp_def]⟩

theorem zipWith_cast (f : ℕ → ℕ → ℕ) (g : Int → Int → Int) (h : ∀ a b, ((f a b : ℕ) : Int) = g (a : Int) (b : Int)) (l1 l2 : List ℕ) :
    List.zipWith g (l1.map (fun (k : ℕ) => (k : Int))) (l2.map (fun (k : ℕ) => (k : Int))) = (List.zipWith f l1 l2).map (fun (k : ℕ) => (k : Int)) := by
  induction l1 generalizing l2 with
  | nil => simp
  | cons a t ih =>
    cases l2 with
    | nil => simp
    | cons b u => simp [ih, h]

theorem raw_none_cast (D : Dom) : AVal.raw (none : AVal D) = (D.maxv.map (· + 1)).map (fun (k : ℕ) => (k : Int)) := by
  simp [AVal.raw, List.map_map, Function.comp_def]

theorem raw_some_cast (D : Dom) (a : {x : List ℕ // D.ok x = true}) : AVal.raw (some a : AVal D) = a.1.map (fun (k : ℕ) => (k : Int)) := rfl

/-- an empty vector is not a value of a non-degenerate domain -/
theorem ok_nil_false (D : Dom) (hD : NonDeg D) : Dom.ok D [] = false := by
  cases D with
  | box m => cases m with
    | nil => exact absurd rfl hD
    | cons b ms => simp [Dom.ok]
  | tally n K c =>
    show ((([] : List ℕ).length == 1 + 2 * c) && decide (([] : List ℕ).headD 0 ≤ n) && decide ((List.take c (List.drop 1 ([] : List ℕ))).sum ≤ K) &&
        decide ((List.take c (List.drop (1 + c) ([] : List ℕ))).sum ≤ K)) = false
    have : (([] : List ℕ).length == 1 + 2 * c) = false := by
      simp only [List.length_nil, beq_eq_false_iff_ne, ne_eq]; omega
    rw [this]
    simp

/-- adding anything non-negative to the invalid value's array leaves the domain -/
theorem clip_add_inf (D : Dom) (hD : NonDeg D) (b : List ℕ) (f : ℕ → ℕ → ℕ) (hf : ∀ q p, q + 1 ≤ f (q + 1) p) :
    AVal.clip D (List.zipWith f (D.maxv.map (· + 1)) b) = none := by
  unfold AVal.clip
  rw [dif_neg]
  have hm := maxv_ne_nil D hD
  cases hmm : D.maxv with
  | nil => exact absurd hmm hm
  | cons q ms =>
    cases b with
    | nil => simp [ok_nil_false D hD]
    | cons b0 t =>
      rw [not_ok_of_head D hD]
      · simp
      · simp only [hmm, List.map_cons, List.zipWith_cons_cons, List.headD_cons]
        have := hf q b0
        omega

/-- the translated `__add__` on the arrays of two values -/
theorem add_eq (D : Dom) (hD : NonDeg D) (x y : AVal D) :
    GenV.avalue_add (AVal.raw x) (AVal.raw y) (fun v => AVal.raw (AVal.clipI D v)) (fun v => AVal.raw (AVal.clipI D v))
      = AVal.raw (AVal.add x y) := by
  unfold GenV.avalue_add
  simp only [clipI_raw D hD]
  congr 1
  cases x with
  | some a =>
    cases y with
    | some b =>
      rw [raw_some_cast, raw_some_cast, zipWith_cast (· + ·) (fun x_ y_ => x_ + y_) (by intros; push_cast; rfl), clipI_cast]
      rfl
    | none =>
      rw [raw_some_cast, raw_none_cast, zipWith_cast (· + ·) (fun x_ y_ => x_ + y_) (by intros; push_cast; rfl), clipI_cast]
      simp only [AVal.add]
      have hcomm : List.zipWith (· + ·) a.1 (D.maxv.map (· + 1)) = List.zipWith (fun q p => q + p) (D.maxv.map (· + 1)) a.1 := by
        rw [List.zipWith_comm]
        apply congrFun; apply congrFun; apply congrArg
        funext p q; omega
      rw [hcomm]
      exact clip_add_inf D hD a.1 (fun q p => q + p) (by intros; omega)
  | none =>
    obtain ⟨b, hb⟩ := raw_nonneg_head D y
    rw [hb, raw_none_cast, zipWith_cast (· + ·) (fun x_ y_ => x_ + y_) (by intros; push_cast; rfl), clipI_cast]
    simp only [AVal.add]
    exact clip_add_inf D hD b (fun q p => q + p) (by intros; omega)

/-- the translated `__sub__` on the arrays of two values -/
theorem sub_eq (D : Dom) (hD : NonDeg D) (x y : AVal D) :
    GenV.avalue_sub (AVal.raw x) (AVal.raw y) (fun v => AVal.raw (AVal.clipI D v)) (fun v => AVal.raw (AVal.clipI D v))
      = AVal.raw (AVal.sub x y) := by
  unfold GenV.avalue_sub AVal.sub
  simp only [clipI_raw D hD]

end Ds.GenValue

namespace Ds.GenValue

theorem slice1_drop {β : Type} (l : List β) (k : ℕ) : Np.slice1 l (some (k : Int)) none = l.drop k := by
  unfold Np.slice1
  simp only []
  have h1 : ¬ ((k : Int) < 0) := by omega
  rw [if_neg h1]
  by_cases hk : k ≤ l.length
  · have : (min (k : Int) (l.length : Int)).toNat = k := by omega
    rw [this]; simp
  · have : (min (k : Int) (l.length : Int)).toNat = l.length := by omega
    rw [this]
    simp only [List.take_length]
    rw [List.drop_eq_nil_of_le (show l.length ≤ k by omega), List.drop_eq_nil_of_le (le_refl _)]

theorem prodI_cast (l : List ℕ) : Np.prodI (l.map (fun (k : ℕ) => (k : Int))) = ((l.foldl (· * ·) 1 : ℕ) : Int) := by
  unfold Np.prodI
  have : ∀ (init : ℕ), List.foldl (· * ·) ((init : ℕ) : Int) (l.map (fun (k : ℕ) => (k : Int))) = ((l.foldl (· * ·) init : ℕ) : Int) := by
    induction l with
    | nil => intro init; rfl
    | cons a t ih =>
      intro init
      simp only [List.map_cons, List.foldl_cons]
      have : ((init : ℕ) : Int) * ((a : ℕ) : Int) = ((init * a : ℕ) : Int) := by push_cast; rfl
      rw [this, ih]
  exact this 1

/-- the index sum of `AValue.__index__` over naturals: `Σ_i x[i] · Π mp[i+1:]` -/
def gsum (x mp : List ℕ) : ℕ := ((List.range mp.length).map (fun i => x.getD i 0 * (mp.drop (i + 1)).foldl (· * ·) 1)).sum

/-- the translated sum is `gsum` -/
theorem gen_sum_cast (x mp : List ℕ) :
    Np.sumI ((Np.range 0 (Np.len1 (mp.map (fun (k : ℕ) => (k : Int)))) 1).map (fun (i : Int) =>
        Np.get1 (x.map (fun (k : ℕ) => (k : Int))) i * Np.prodI (Np.slice1 (mp.map (fun (k : ℕ) => (k : Int))) (some (i + 1)) none)))
      = ((gsum x mp : ℕ) : Int) := by
  have hlen : Np.len1 (mp.map (fun (k : ℕ) => (k : Int))) = ((mp.length : ℕ) : Int) := by simp [Np.len1]
  rw [hlen, Np.range_up, List.map_map]
  unfold gsum
  rw [← sumI_cast, List.map_map]
  congr 1
  apply List.map_congr_left
  intro i _
  simp only [Function.comp]
  have e1 : (((i : ℕ) : Int) + 1) = ((i + 1 : ℕ) : Int) := by push_cast; ring
  rw [Np.get1_natCast, e1, slice1_drop, ← List.map_drop, prodI_cast]
  have : (x.map (fun (k : ℕ) => (k : Int))).getD i default = ((x.getD i 0 : ℕ) : Int) := by
    simp only [List.getD_eq_getElem?_getD, List.getElem?_map]
    cases x[i]? <;> rfl
  rw [this]
  push_cast; rfl

theorem gsum_cons (x : List ℕ) (b : ℕ) (mp : List ℕ) :
    gsum x (b :: mp) = x.headD 0 * mp.foldl (· * ·) 1 + gsum x.tail mp := by
  unfold gsum
  simp only [List.length_cons, List.range_succ_eq_map, List.map_cons, List.sum_cons, List.map_map, Function.comp_def]
  congr 1
  · cases x <;> simp
  · congr 1
    apply List.map_congr_left
    intro i _
    cases x with
    | nil => simp
    | cons a t => simp

theorem gsum_eq_weights (x m : List ℕ) :
    gsum x (m.map (· + 1)) = (List.zipWith (fun v (w : ℕ) => v * w) x (Dom.boxIndex.weights m)).sum := by
  induction m generalizing x with
  | nil => simp [gsum, Dom.boxIndex.weights]
  | cons b ms ih =>
    rw [List.map_cons, gsum_cons, ih]
    cases x with
    | nil => simp [Dom.boxIndex.weights]
    | cons a t => simp [Dom.boxIndex.weights]

/-- the translated `AValue.__index__` on the array of a value of a box domain -/
theorem index_eq (m : List ℕ) (hm : m ≠ []) (a : AVal (Dom.box m)) :
    GenV.avalue_index (AVal.raw a) (infI (Dom.box m)) (((Dom.domainsize (Dom.box m) : ℕ)) : Int) (maxI (Dom.box m))
      = (((Dom.boxIndex m (AVal.toList a) : ℕ)) : Int) := by
  unfold GenV.avalue_index
  cases a with
  | none =>
    have : decide (AVal.raw (none : AVal (Dom.box m)) = infI (Dom.box m)) = true := by simp [raw_none]
    rw [this]
    simp [Dom.domainsize, Dom.boxIndex, AVal.toList]
  | some x =>
    obtain ⟨x, hx⟩ := x
    have hne : decide (AVal.raw (some ⟨x, hx⟩ : AVal (Dom.box m)) = infI (Dom.box m)) = false := by
      apply decide_eq_false
      intro heq
      -- the first component of a valid vector is at most the bound, that of the invalid array exceeds it
      cases m with
      | nil => exact hm rfl
      | cons b ms =>
        cases x with
        | nil => simp [Dom.ok] at hx
        | cons a0 t =>
          simp only [AVal.raw, infI, Dom.maxv, List.map_cons, List.cons.injEq] at heq
          simp only [Dom.ok, List.zipWith_cons_cons, List.all_cons, id, Bool.and_eq_true, decide_eq_true_eq] at hx
          have := heq.1
          simp at this
          omega
    rw [hne]
    simp only [Bool.false_eq_true, if_false]
    have hmx : List.map (fun x_ => x_ + (1 : Int)) (maxI (Dom.box m)) = (m.map (· + 1)).map (fun (k : ℕ) => (k : Int)) := by
      simp [maxI, Dom.maxv, List.map_map, Function.comp_def]
    rw [hmx]
    have hraw : AVal.raw (some ⟨x, hx⟩ : AVal (Dom.box m)) = x.map (fun (k : ℕ) => (k : Int)) := rfl
    rw [hraw, gen_sum_cast, gsum_eq_weights]
    rfl

end Ds.GenValue
