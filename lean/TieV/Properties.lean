import TieV.ValueProofs
/-!
# TIEV — theorems about the saturating value arithmetic AS IT IS WRITTEN NOW (`GenV/Value.lean`, regenerated from /repo by `harness/translate_aval.py`)

Values are compared through `AVal.raw`, the integer array a value object holds (`_value`; the invalid value is stored as `maxvalue + 1`).

* `TIEV_avalue_clip`: the translated `AValue._clip`, given the class attributes of `AValue[m₀, m₁, …]`, maps every integer vector of the class's shape to the
  array of `AVal.clipI (box m)` — the vector itself when every component is within `0 … mᵢ`, the invalid value otherwise.
* `TIEV_atally_clip`: the translated `ATally._clip`, given the class attributes of `ATally[n, K, c]` (`slots_with = 1…c`, `slots_without = c+1…2c`), is
  `AVal.clipI (tally n K c)` — valid iff non-negative, first component ≤ n and each block of `c` label tallies sums to ≤ K.
* `TIEV_add`, `TIEV_sub`: the translated `__add__` / `__sub__` (with `self._clip` and the constructor being that clipping) compute `AVal.add` / `AVal.sub` on the
  arrays of any two values of a domain with at least one component — the objects `C10_add_spec`, `C10_sub_spec`, `C10_aval_laws` are about.
* `TIEV_index`: the translated `AValue.__index__` is the model's mixed-radix `boxIndex`, the invalid value last.
-/
open Ds Ds.GenValue

namespace DsProofs.TieV

theorem TIEV_avalue_clip (m : List ℕ) (v : List Int) (hlen : v.length = m.length) :
    GenV.avalue_clip (maxI (Dom.box m)) (infI (Dom.box m)) v = AVal.raw (AVal.clipI (Dom.box m) v) :=
  avalue_clip_eq m v hlen

theorem TIEV_atally_clip (n K c : ℕ) (v : List Int) (hlen : v.length = 1 + 2 * c) :
    GenV.atally_clip (n : Int) (slotsWith c) (K : Int) (slotsWithout c) (infI (Dom.tally n K c)) v
      = AVal.raw (AVal.clipI (Dom.tally n K c) v) :=
  atally_clip_eq n K c v hlen

/-- with the translated `_clip` of the class plugged in for `self._clip` and the constructor (box domains) -/
theorem TIEV_add_box (m : List ℕ) (hm : m ≠ []) (x y : AVal (Dom.box m)) (hx : (AVal.raw x).length = m.length) (hy : (AVal.raw y).length = m.length) :
    GenV.avalue_add (AVal.raw x) (AVal.raw y) (GenV.avalue_clip (maxI (Dom.box m)) (infI (Dom.box m))) (fun v => AVal.raw (AVal.clipI (Dom.box m) v))
      = AVal.raw (AVal.add x y) := by
  have h := add_eq (Dom.box m) hm x y
  unfold GenV.avalue_add at h ⊢
  rw [avalue_clip_eq m _ (by simp [List.length_zipWith, hx, hy])]
  exact h

theorem TIEV_add (D : Dom) (hD : NonDeg D) (x y : AVal D) :
    GenV.avalue_add (AVal.raw x) (AVal.raw y) (fun v => AVal.raw (AVal.clipI D v)) (fun v => AVal.raw (AVal.clipI D v)) = AVal.raw (AVal.add x y) :=
  add_eq D hD x y

theorem TIEV_sub (D : Dom) (hD : NonDeg D) (x y : AVal D) :
    GenV.avalue_sub (AVal.raw x) (AVal.raw y) (fun v => AVal.raw (AVal.clipI D v)) (fun v => AVal.raw (AVal.clipI D v)) = AVal.raw (AVal.sub x y) :=
  sub_eq D hD x y

theorem TIEV_index (m : List ℕ) (hm : m ≠ []) (a : AVal (Dom.box m)) :
    GenV.avalue_index (AVal.raw a) (infI (Dom.box m)) (((Dom.domainsize (Dom.box m) : ℕ)) : Int) (maxI (Dom.box m))
      = (((Dom.boxIndex m (AVal.toList a) : ℕ)) : Int) :=
  index_eq m hm a

/-! ### non-vacuity -/
example : GenV.avalue_clip [2, 3] [3, 4] [2, 1] = [2, 1] ∧ GenV.avalue_clip [2, 3] [3, 4] [3, 1] = [3, 4] ∧ GenV.avalue_clip [2, 3] [3, 4] [0, -1] = [3, 4] := by decide
example : GenV.atally_clip 3 [1, 2, 3] 1 [4, 5, 6] [4, 2, 2, 2, 2, 2, 2] [2, 0, 0, 1, 1, 0, 0] = [2, 0, 0, 1, 1, 0, 0]
    ∧ GenV.atally_clip 3 [1, 2, 3] 1 [4, 5, 6] [4, 2, 2, 2, 2, 2, 2] [2, 1, 0, 1, 0, 0, 0] = [4, 2, 2, 2, 2, 2, 2] := by decide
example : GenV.avalue_index [1, 2] [3, 4] 13 [2, 3] = 6 ∧ GenV.avalue_index [3, 4] [3, 4] 13 [2, 3] = 12 := by decide

end DsProofs.TieV
