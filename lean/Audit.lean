import DsProofs
/-!
Axiom audit: `#print axioms` of every property theorem.  The harness reads the lines
`-- @Cxx name name …` to know which theorems serve which property, and this file's output to know
what each one depends on.
-/
