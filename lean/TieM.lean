import TieM.Properties
