import TieN.Defs
import Tie.NpProofs
import Mathlib.Tactic.FieldSimp
import Mathlib.Tactic.Ring
/-!
# TieN.LoopProofs — the loop over validation batches of `_shapley_neighbor` (translated: `GenN.shapley_neighbor_loop`)
-/
open Ds Ds.GenNbr

namespace DsProofs.TieN

/-- what one batch contributes: the scores of the batch (1-NN map/fork routine when `k = 1` and every row has one unit, the decision-diagram routine otherwise),
each weighted by the share of the batch in the validation set.  NB the element-wise utilities receive the UNSLICED `y_test` (observation F13). -/
def batchTerm (distance : List ℤ → Np.A2 ℚ) (escore : List ℤ → List ℤ → Np.A2 ℚ) (enull : List ℤ → List ℤ → List ℚ) (maxConj : ℤ)
    (mapfork : Np.A2 ℚ → Np.A2 ℚ → List ℚ → List ℚ) (sadd : Np.A2 ℚ → Np.A2 ℚ → ℤ → ℤ → List ℚ → List ℚ)
    (yTest : List ℤ) (nTest k nc : ℤ) (batch : List ℤ) : List ℚ :=
  let cur := if k = 1 ∧ maxConj = 1 then mapfork (distance batch) (escore batch yTest) (enull batch yTest)
             else sadd (distance batch) (escore batch yTest) k nc (enull batch yTest)
  cur.map (fun x => x * ((Np.ofInt (batch.length : ℤ) : ℚ) / Np.ofInt nTest))

/-- the translated loop is the fold, over the batch starts `range(0, n_test, batch_size)`, of element-wise addition of the batch terms -/
theorem loop_eq_fold (bsOf : ℤ → ℤ → ℤ) (distance : List ℤ → Np.A2 ℚ) (escore : List ℤ → List ℤ → Np.A2 ℚ) (enull : List ℤ → List ℤ → List ℚ) (maxConj : ℤ)
    (mapfork : Np.A2 ℚ → Np.A2 ℚ → List ℚ → List ℚ) (sadd : Np.A2 ℚ → Np.A2 ℚ → ℤ → ℤ → List ℚ → List ℚ)
    (units yTest : List ℤ) (nTrain nTest k nc : ℤ) :
    GenN.shapley_neighbor_loop bsOf distance escore enull maxConj mapfork sadd units yTest nTrain nTest k nc
      = (Np.range 0 nTest (bsOf nTrain nTest)).foldl (fun acc start =>
          List.zipWith (· + ·) acc (batchTerm distance escore enull maxConj mapfork sadd yTest nTest k nc
            (Np.slice1 (Np.range 0 nTest 1) (some start) (some (start + bsOf nTrain nTest)))))
          (Np.zeros1 (Np.len1 units)) := by
  unfold GenN.shapley_neighbor_loop batchTerm
  simp only [Np.len1, Bool.and_eq_true, decide_eq_true_eq]

theorem range_single (n : ℕ) (hn : 0 < n) : Np.range 0 (n : ℤ) (n : ℤ) = [0] := by
  unfold Np.range
  have h1 : (0 : ℤ) < (n : ℤ) := by exact_mod_cast hn
  simp only [h1, if_true]
  have : (((n : ℤ) - 0 + (n : ℤ) - 1) / (n : ℤ)).toNat = 1 := by
    have h2 : ((n : ℤ) - 0 + (n : ℤ) - 1) / (n : ℤ) = 1 := by
      have e : (n : ℤ) - 0 + (n : ℤ) - 1 = ((n : ℤ) - 1) + (n : ℤ) * 1 := by ring
      rw [e, Int.add_mul_ediv_left _ _ (by omega), Int.ediv_eq_zero_of_lt (by omega) (by omega)]
      rfl
    rw [h2]; rfl
  rw [this]
  simp

theorem slice_all (n : ℕ) : Np.slice1 (Np.range 0 (n : ℤ) 1) (some 0) (some (0 + (n : ℤ))) = Np.range 0 (n : ℤ) 1 := by
  rw [Np.range_up]
  unfold Np.slice1
  have h : ¬ ((n : ℤ) < 0) := by omega
  simp [h]

/-- with the batch size the code computes (`get_test_batch_size` returns `n_test`: `TIE_batch_size`) there is exactly one batch, the whole validation set with
weight 1: the translated `_shapley_neighbor` tail returns what the scoring routine returns for the whole validation set -/
theorem loop_single_batch (bsOf : ℤ → ℤ → ℤ) (distance : List ℤ → Np.A2 ℚ) (escore : List ℤ → List ℤ → Np.A2 ℚ) (enull : List ℤ → List ℤ → List ℚ) (maxConj : ℤ)
    (mapfork : Np.A2 ℚ → Np.A2 ℚ → List ℚ → List ℚ) (sadd : Np.A2 ℚ → Np.A2 ℚ → ℤ → ℤ → List ℚ → List ℚ)
    (units yTest : List ℤ) (nTrain : ℤ) (nTest : ℕ) (k nc : ℤ) (hn : 0 < nTest) (hbs : bsOf nTrain (nTest : ℤ) = (nTest : ℤ))
    (cur : List ℚ)
    (hcur : cur = (if k = 1 ∧ maxConj = 1 then mapfork (distance (Np.range 0 nTest 1)) (escore (Np.range 0 nTest 1) yTest) (enull (Np.range 0 nTest 1) yTest)
                   else sadd (distance (Np.range 0 nTest 1)) (escore (Np.range 0 nTest 1) yTest) k nc (enull (Np.range 0 nTest 1) yTest)))
    (hlen : cur.length = units.length) :
    GenN.shapley_neighbor_loop bsOf distance escore enull maxConj mapfork sadd units yTest nTrain (nTest : ℤ) k nc = cur := by
  rw [loop_eq_fold, hbs, range_single nTest hn]
  simp only [List.foldl_cons, List.foldl_nil, slice_all]
  unfold batchTerm
  simp only [← hcur]
  have hlr : ((Np.range 0 (nTest : ℤ) 1).length : ℤ) = (nTest : ℤ) := by
    rw [Np.range_up]; simp
  have hw : (Np.ofInt ((Np.range 0 (nTest : ℤ) 1).length : ℤ) : ℚ) / Np.ofInt (nTest : ℤ) = 1 := by
    rw [hlr]
    have : (Np.ofInt (nTest : ℤ) : ℚ) = (nTest : ℚ) := by
      unfold Np.ofInt; simp
    rw [this]
    have : (nTest : ℚ) ≠ 0 := by exact_mod_cast (Nat.pos_iff_ne_zero.mp hn)
    field_simp
  rw [hw]
  simp only [mul_one, List.map_id']
  unfold Np.zeros1 Np.len1
  simp only [Int.toNat_natCast]
  apply List.ext_getElem
  · simp [hlen]
  · intro i h1 h2
    simp

end DsProofs.TieN
