import GenN.Neighbor
import Ds.Oracle
import Ds.Neighbor
/-!
# TieN.Defs — how the parameters of the translated neighbor-path code (`GenN/Neighbor.lean`) are instantiated with the model's objects
-/
open Ds

namespace Ds.GenNbr

/-- an `ATally[n, K, c]` value with tally vector `vec = size :: with ++ without` as the loop of `compute_shapley_add` reads it -/
def tallyOf (c : Nat) (vec : List Nat) : Np.Tally :=
  ⟨false, ((vec.headD 0 : Nat) : Int), ((vec.drop 1).take c).map (fun k : Nat => (k : Int)), ((vec.drop (1 + c)).take c).map (fun k : Nat => (k : Int))⟩

/-- the invalid value (`atype(None)`) -/
def infTally : Np.Tally := ⟨true, 0, [], []⟩

/-- the dictionary `ShapleyOracle.query` returns, as the list of its items in insertion order: the valid values of the domain in `domain()` order
with their counts, then the invalid value with the last count -/
def itemsOf (D : Dom) (c : Nat) (counts : List Int) : List (Np.Tally × Int) :=
  (D.vecs.zip counts).map (fun vc => (tallyOf c vc.1, vc.2)) ++ (counts.drop D.vecs.length).map (fun x => (infTally, x))

/-- `units = np.arange(n)` -/
def unitsOf (n : Nat) : List Int := (List.range n).map (fun k : Nat => (k : Int))

/-- the oracle parameter built from a table of counts `q j unit t1 t2`; it answers only for the tally type `ATally[n-1, K, c]` the code must construct -/
def oracleOf (n K c : Nat) (q : Nat → Nat → Nat → Option Nat → List Int) :
    (Int × Int × Int) → Int → Int → Int → Option Int → List (Np.Tally × Int) :=
  fun at_ j u t1 t2 =>
    if at_ = ((((n - 1 : Nat)) : Int), ((K : Nat) : Int), ((c : Nat) : Int)) then itemsOf (Dom.tally (n - 1) K c) c (q j.toNat u.toNat t1.toNat (t2.map Int.toNat))
    else []

/-- the triple sum `compute_shapley_add` forms for unit `i`: validation points × boundary pairs × tallies, each summand the model's `Oracle.term` -/
def addSum (n R nTest K c : Nat) (q : Nat → Nat → Nat → Option Nat → List Int) (util : List (List Rat)) (nulls : List Rat) (i : Nat) : Rat :=
  ((List.range nTest).map (fun j =>
    ((Oracle.boundaryPairs R).map (fun tp =>
      (((Dom.tally (n - 1) K c).vecs.zip (q j i tp.1 tp.2)).map (fun vc =>
        Oracle.term n K c (util.map (·.getD j 0)) (nulls.getD j 0) tp.2 vc.1 vc.2)).sum)).sum)).sum

/-- row mask → ascending row indices -/
def idxOfMask (m : List Bool) : List Nat := (List.range m.length).filter (fun r => m.getD r false)

/-- query vector with only unit `u` switched on (`query[unit] = world[i]` with `world = 1`) -/
def oneHot (n u : Nat) : List Int := (List.replicate n (0 : Int)).set u 1

end Ds.GenNbr
