import TieN.Defs
import DsProofs.AddPathProofs
import TieN.AddLemmas
/-!
# TieN.AddProofs — the translated `compute_shapley_add` is the model's sum of `Oracle.term`s
-/
open Ds Ds.Oracle Ds.GenNbr

namespace DsProofs.TieN

/-- the translated loop nest, on an oracle that returns the model's items, computes for every unit the triple sum of `Oracle.term` divided by `n · nTest`;
`mc` is the `max_cardinality` argument: `None` or any value `≥ n` (the default path of `_shapley_neighbor`) -/
theorem add_eq_sums (n R nTest K c : ℕ) (q : ℕ → ℕ → ℕ → Option ℕ → List ℤ) (util : List (List ℚ)) (nulls : List ℚ) (mc : Option ℤ)
    (hmc : ∀ m, mc = some m → (n : ℤ) ≤ m) :
    GenN.compute_shapley_add (oracleOf n K c q) (unitsOf n) (R : ℤ) (nTest : ℤ) ⟨c, nTest, util⟩ nulls mc (K : ℤ) (c : ℤ)
      = (List.range n).map (fun i => addSum n R nTest K c q util nulls i / (((n * nTest : ℕ)) : ℚ)) := by
  -- no hypothesis on the length of the count lists: code and model both read `vecs.zip counts`, and every further item is the skipped invalid value
  unfold GenN.compute_shapley_add
  simp only []
  rw [len1_unitsOf, atype_eq n mc hmc, Np.range_up, Np.range_up, productChainNone_eq, enumerateFrom_unitsOf, Np.zeros1_natCast]
  simp only [List.foldl_map]
  have hz : List.replicate n (0 : ℚ) = (List.range n).map (fun _ => (0 : ℚ)) := by
    apply List.ext_getElem <;> simp
  rw [hz]
  -- the four accumulation levels
  rw [foldl_tab n (List.range nTest) _
    (fun j k => ((boundaryPairs R).map (fun tp => ((List.range n).map (fun i =>
      if k = i then unitSum n K c q util nulls j tp i else 0)).sum)).sum)]
  · unfold Np.divS
    rw [List.map_map]
    apply List.map_congr_left
    intro k hk
    have hk' : k < n := List.mem_range.mp hk
    simp only [Function.comp, zero_add, sum_range_single n k _ hk', Ds.GenBrute.ofInt_eq_cast]
    unfold addSum unitSum
    push_cast
    rfl
  · intro a j _
    refine (foldl_tab n (boundaryPairs R) _ (fun tp k => ((List.range n).map (fun i =>
      if k = i then unitSum n K c q util nulls j tp i else 0)).sum) ?_ a)
    intro a tp _
    refine (foldl_tab n (List.range n) _ (fun i k =>
      if k = i then unitSum n K c q util nulls j tp i else 0) ?_ a)
    intro a i hi
    have hi' : i < n := List.mem_range.mp hi
    rw [oracleOf_eq]
    refine (foldl_tab n _ _ (fun kv k => if k = i then itemVal n K c nTest util nulls j tp.2 kv else 0)
      (fun a kv _ => item_step n K c nTest util nulls j i tp.2 hi' a kv) a).trans ?_
    apply List.map_congr_left
    intro k _
    rw [sum_ite_const, items_sum _ _ _ _ _ _ _ _ _ _ (by omega)]
    rfl

/-- when the model's `Oracle.scores` succeeds, it is that same triple sum over the model's own oracle answers -/
theorem scores_eq_sums (p : Prov.P) (labels : List ℕ) (dist util : List (List ℚ)) (nulls : List ℚ) (K c : ℕ) (L : List ℚ)
    (h : Oracle.scores p labels dist util nulls K c = .ok L) :
    ∃ q : ℕ → ℕ → ℕ → Option ℕ → List ℤ,
      (∀ j < nulls.length, ∃ b : Built (Dom.tally (p.nUnits - 1) K c),
          build (Dom.tally (p.nUnits - 1) K c) c p labels (dist.map (·.getD j 0)) = .ok b ∧
          ∀ i < p.nUnits, ∀ tp ∈ boundaryPairs p.data.length, query c b p.data.length i (some tp.1) tp.2 = .ok (q j i tp.1 tp.2)) ∧
      L = (List.range p.nUnits).map (fun i => addSum p.nUnits p.data.length nulls.length K c q util nulls i / (((p.nUnits * nulls.length : ℕ)) : ℚ)) := by
  simp only [scores] at h
  obtain ⟨per, hper, hL⟩ := bind_ok_inv _ _ _ h
  obtain ⟨h1, h2⟩ := mapM_ok_get _ _ _ hper
  have key : ∀ j < nulls.length, ∃ b : Built (Dom.tally (p.nUnits - 1) K c),
      build (Dom.tally (p.nUnits - 1) K c) c p labels (dist.map (·.getD j 0)) = .ok b ∧
      (∀ i < p.nUnits, ∀ tp ∈ boundaryPairs p.data.length,
        query c b p.data.length i (some tp.1) tp.2 = .ok (qOf p labels dist K c j i tp.1 tp.2)) ∧
      ∀ i < p.nUnits, (per.getD j []).getD i 0 = ((boundaryPairs p.data.length).map (fun tp =>
        (((Dom.tally (p.nUnits - 1) K c).vecs.zip (qOf p labels dist K c j i tp.1 tp.2)).map (fun vc =>
          term p.nUnits K c (util.map (·.getD j 0)) (nulls.getD j 0) tp.2 vc.1 vc.2)).sum)).sum := by
    intro j hj
    obtain ⟨b, hb, hv⟩ := bind_ok_inv _ _ _ (h1 j (List.mem_range.mpr hj))
    obtain ⟨g1, g2⟩ := mapM_ok_get _ _ _ hv
    refine ⟨b, hb, ?_, ?_⟩
    · intro i hi tp htp
      rw [qOf_eq p labels dist K c j i tp.1 tp.2 b hb]
      exact (pointUnit_inv _ _ _ _ _ _ _ _ _ (g1 i (List.mem_range.mpr hi))).1 tp htp
    · intro i hi
      have hperj : per.getD j [] = getOk (do
          let b : Built (Dom.tally (p.nUnits - 1) K c) ← build (Dom.tally (p.nUnits - 1) K c) c p labels (dist.map (·.getD j 0))
          (List.range p.nUnits).mapM (pointUnit p.nUnits K c p.data.length b (util.map (·.getD j 0)) (nulls.getD j 0))) := by
        rw [h2]
        simp [List.getD_eq_getElem?_getD, hj]
      rw [hperj, hb]
      show (getOk ((List.range p.nUnits).mapM (pointUnit p.nUnits K c p.data.length b (util.map (·.getD j 0)) (nulls.getD j 0)))).getD i 0 = _
      rw [hv, getOk_ok, g2]
      rw [AddPath.getD_range_map' _ hi]
      rw [(pointUnit_inv _ _ _ _ _ _ _ _ _ (g1 i (List.mem_range.mpr hi))).2]
      congr 1
      apply List.map_congr_left
      intro tp _
      rw [qOf_eq p labels dist K c j i tp.1 tp.2 b hb]
  refine ⟨qOf p labels dist K c, fun j hj => ?_, ?_⟩
  · obtain ⟨b, hb, hq, _⟩ := key j hj
    exact ⟨b, hb, hq⟩
  · simp only [pure, Except.pure, Except.ok.injEq] at hL
    rw [← hL]
    apply List.map_congr_left
    intro i hi
    have hi' : i < p.nUnits := List.mem_range.mp hi
    congr 1
    unfold addSum
    have hlen : per.length = nulls.length := by rw [h2]; simp
    have : per.map (·.getD i 0) = (List.range nulls.length).map (fun j => (per.getD j []).getD i 0) := by
      apply List.ext_getElem
      · simp [hlen]
      · intro k k1 k2
        have hk : k < per.length := by simpa using k1
        simp [List.getD_eq_getElem?_getD, List.getElem?_eq_getElem hk]
    rw [this]
    congr 1
    apply List.map_congr_left
    intro j hj
    obtain ⟨b, _, _, hs⟩ := key j (List.mem_range.mp hj)
    exact hs i hi'


/-! ### non-vacuity: a concrete oracle table (`n = 2`, `R = 1`, `nTest = 1`, `K = 1`, `c = 2`) -/

/-- the answers of the model's `Oracle.query` for two units and one row that needs unit 0 (label 0, `K = 1`, two classes):
one count per tally of `ATally[1, 1, 2]` (18 valid ones) and the count of the invalid value -/
def exQ : ℕ → ℕ → ℕ → Option ℕ → List ℤ := fun _ i _ t2 =>
  match i, t2 with
  | 0, some _ => List.replicate 18 0 ++ [2]
  | 0, none => [0, 0, 0, 0, 0, 0, 1, 0, 0, 0, 0, 0, 0, 0, 0, 1, 0, 0, 0]
  | _, _ => List.replicate 17 0 ++ [1, 1]

/-- the translated code, run on that table (utility 1 for class 0, 0 for class 1, null score 0): unit 0 gets 1, unit 1 gets 0 -/
example : GenN.compute_shapley_add (α := ℚ) (oracleOf 2 1 2 exQ) (unitsOf 2) 1 1 ⟨2, 1, [[1], [0]]⟩ [0] none 1 2 = [1, 0] := by
  decide +kernel

/-- the hypotheses of `add_eq_sums` hold for that table, so the model's sums have the same value -/
example : (List.range 2).map (fun i => addSum 2 1 1 1 2 exQ [[1], [0]] [0] i / (((2 * 1 : ℕ)) : ℚ)) = [1, 0] := by
  rw [← add_eq_sums 2 1 1 1 2 exQ [[1], [0]] [0] none (by simp)]
  decide +kernel

end DsProofs.TieN

#print axioms DsProofs.TieN.add_eq_sums
#print axioms DsProofs.TieN.scores_eq_sums
