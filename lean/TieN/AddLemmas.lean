import TieN.Defs
import DsProofs.AddPathProofs
import TieB.BruteProofs
/-!
# TieN.AddLemmas — helper lemmas for `TieN.AddProofs`
-/
open Ds Ds.Oracle Ds.GenNbr

namespace DsProofs.TieN

/-! ### generic list facts -/

/-- adding `v` at position `i` of a tabulated list -/
theorem set_tab (n : ℕ) (a : ℕ → ℚ) (i : ℕ) (v : ℚ) (hi : i < n) :
    ((List.range n).map a).set i (((List.range n).map a).getD i 0 + v)
      = (List.range n).map (fun k => a k + if k = i then v else 0) := by
  apply List.ext_getElem
  · simp
  · intro k h1 h2
    have hk : k < n := by simpa using h2
    simp only [List.getElem_set, List.getElem_map, List.getElem_range, List.getD_eq_getElem?_getD,
      List.length_map, List.length_range, hi, List.getElem?_eq_getElem, Option.getD_some]
    by_cases h : i = k
    · subst h; simp
    · have h' : ¬ k = i := fun e => h e.symm
      simp [h, h']

/-- the accumulation lemma: a fold whose every step adds `S x k` at position `k` adds the sums -/
theorem foldl_tab {β : Type} (n : ℕ) (l : List β) (step : List ℚ → β → List ℚ) (S : β → ℕ → ℚ)
    (hstep : ∀ (a : ℕ → ℚ) x, x ∈ l → step ((List.range n).map a) x = (List.range n).map (fun k => a k + S x k))
    (a : ℕ → ℚ) :
    l.foldl step ((List.range n).map a) = (List.range n).map (fun k => a k + (l.map (fun x => S x k)).sum) := by
  induction l generalizing a with
  | nil => simp
  | cons x xs ih =>
    rw [List.foldl_cons, hstep a x List.mem_cons_self, ih (fun a y hy => hstep a y (List.mem_cons_of_mem _ hy))]
    apply List.map_congr_left
    intro k _
    simp only [List.map_cons, List.sum_cons]
    ring

theorem sum_range_single (n k : ℕ) (T : ℕ → ℚ) (hk : k < n) :
    ((List.range n).map (fun i => if k = i then T i else 0)).sum = T k := by
  induction n with
  | zero => omega
  | succ n ih =>
    rw [List.range_succ, List.map_append, List.sum_append]
    by_cases h : k < n
    · rw [ih h]
      have : ¬ k = n := by omega
      simp [this]
    · have hkn : k = n := by omega
      subst hkn
      have : ((List.range k).map (fun i => if k = i then T i else 0)).sum = 0 := by
        apply List.sum_eq_zero
        intro x hx
        simp only [List.mem_map, List.mem_range] at hx
        obtain ⟨i, hi, rfl⟩ := hx
        have : ¬ k = i := by omega
        simp [this]
      rw [this]; simp

/-! ### the vocabulary at the arguments the loop nest produces -/

theorem len1_unitsOf (n : ℕ) : Np.len1 (unitsOf n) = (n : ℤ) := by
  simp [Np.len1, unitsOf]

theorem atype_eq (n : ℕ) (mc : Option ℤ) (hmc : ∀ m, mc = some m → (n : ℤ) ≤ m) :
    (if (mc.isNone || decide (mc.getD 0 ≥ (n : ℤ))) = true then Np.imax ((n : ℤ) - 1) 0 else mc.getD 0)
      = (((n - 1 : ℕ)) : ℤ) := by
  have hc : (mc.isNone || decide (mc.getD 0 ≥ (n : ℤ))) = true := by
    cases mc with
    | none => rfl
    | some m => simpa using hmc m rfl
  rw [if_pos hc]
  unfold Np.imax
  split_ifs <;> omega

theorem productChainNone_eq (R : ℕ) :
    Np.productChainNone ((List.range R).map (fun k : ℕ => (k : ℤ))) ((List.range R).map (fun k : ℕ => (k : ℤ)))
      = (boundaryPairs R).map (fun tp => ((tp.1 : ℤ), tp.2.map (fun k : ℕ => (k : ℤ)))) := by
  unfold Np.productChainNone boundaryPairs
  simp [List.flatMap_map, List.map_flatMap, Function.comp_def]

theorem enumerateFrom_range' (s m : ℕ) :
    Np.enumerateFrom (s : ℤ) ((List.range' s m).map (fun k : ℕ => (k : ℤ)))
      = (List.range' s m).map (fun k : ℕ => ((k : ℤ), (k : ℤ))) := by
  induction m generalizing s with
  | zero => simp [Np.enumerateFrom]
  | succ m ih =>
    simp only [List.range'_succ, List.map_cons, Np.enumerateFrom]
    have := ih (s + 1)
    push_cast at this
    rw [this]

theorem enumerateFrom_unitsOf (n : ℕ) :
    Np.enumerateFrom 0 (unitsOf n) = (List.range n).map (fun k : ℕ => ((k : ℤ), (k : ℤ))) := by
  have := enumerateFrom_range' 0 n
  simpa [unitsOf, List.range_eq_range'] using this

theorem oracleOf_eq (n K c : ℕ) (q : ℕ → ℕ → ℕ → Option ℕ → List ℤ) (j i t1 : ℕ) (t2 : Option ℕ) :
    oracleOf n K c q ((((n - 1 : ℕ)) : ℤ), (K : ℤ), (c : ℤ)) (j : ℤ) (i : ℤ) (t1 : ℤ) (t2.map (fun k : ℕ => (k : ℤ)))
      = itemsOf (Dom.tally (n - 1) K c) c (q j i t1 t2) := by
  unfold oracleOf
  rw [if_pos rfl]
  cases t2 <;> simp

/-! ### `np.argmax` on the integer image of a natural vector -/

theorem argmax_go (ys pre : List ℕ) (best bi : ℕ) (h1 : pre.idxOf best = bi) (h2 : best ∈ pre)
    (h3 : ∀ x ∈ pre, x ≤ best) :
    Np.argmaxI.go (best : ℤ) bi pre.length (ys.map (fun k : ℕ => (k : ℤ))) = (pre ++ ys).idxOf (ys.foldl max best) := by
  induction ys generalizing pre best bi with
  | nil => simp [Np.argmaxI.go, h1]
  | cons y ys ih =>
    simp only [List.map_cons, Np.argmaxI.go, List.foldl_cons]
    by_cases hy : best < y
    · have hy' : ((y : ℤ) > (best : ℤ)) := by exact_mod_cast hy
      rw [if_pos hy']
      have hnm : y ∉ pre := fun hm => by have := h3 y hm; omega
      have := ih (pre ++ [y]) y pre.length
        (by rw [List.idxOf_append_of_notMem hnm]; simp) (by simp)
        (by intro x hx; rcases List.mem_append.mp hx with hx | hx
            · have := h3 x hx; omega
            · simp at hx; omega)
      rw [List.length_append, List.length_singleton] at this
      rw [this, max_eq_right (le_of_lt hy)]
      simp
    · have hy' : ¬ ((y : ℤ) > (best : ℤ)) := by
        intro h; apply hy; exact_mod_cast h
      rw [if_neg hy']
      have := ih (pre ++ [y]) best bi
        (by rw [List.idxOf_append_of_mem h2]; exact h1) (by simp [h2])
        (by intro x hx; rcases List.mem_append.mp hx with hx | hx
            · exact h3 x hx
            · simp at hx; omega)
      rw [List.length_append, List.length_singleton] at this
      rw [this, max_eq_left (by omega)]
      simp

theorem argmaxI_cast (l : List ℕ) : Np.argmaxI (l.map (fun k : ℕ => (k : ℤ))) = ((argmaxFirst l : ℕ) : ℤ) := by
  cases l with
  | nil => simp [Np.argmaxI, argmaxFirst]
  | cons x xs =>
    simp only [List.map_cons, Np.argmaxI, argmaxFirst, List.foldl_cons]
    have := argmax_go xs [x] x 0 (by simp) (by simp) (by simp)
    simp only [List.length_singleton, List.singleton_append] at this
    rw [this, Nat.zero_max]

/-! ### one dictionary item -/

/-- what one dictionary item adds (the branch of the innermost loop body, verbatim, with `0` for a skipped item) -/
def itemVal (n K c nTest : ℕ) (util : List (List ℚ)) (nulls : List ℚ) (j : ℕ) (t2 : Option ℕ) (kv : Np.Tally × ℤ) : ℚ :=
  if (kv.1.is_inf || decide (kv.2 ≤ 0) || decide (Np.sumI kv.1.labeltally_with ≠ (K : ℤ)) && true ||
        decide (Np.sumI kv.1.labeltally_without ≠ (K : ℤ)) && (t2.map (fun k : ℕ => (k : ℤ))).isSome ||
      decide (Np.sumI kv.1.labeltally_without ≥ (K : ℤ)) && (t2.map (fun k : ℕ => (k : ℤ))).isNone) = true then 0
  else
    Np.ofInt 1 / Np.comb ((n : ℤ) - 1) kv.1.tupletally * Np.ofInt kv.2 *
      if (t2.map (fun k : ℕ => (k : ℤ))).isSome = true then
        Np.get2 { r := c, c := nTest, d := util } (Np.argmaxI kv.1.labeltally_with) (j : ℤ) -
          Np.get2 { r := c, c := nTest, d := util } (Np.argmaxI kv.1.labeltally_without) (j : ℤ)
      else
        Np.get2 { r := c, c := nTest, d := util } (Np.argmaxI kv.1.labeltally_with) (j : ℤ) -
          Np.get1 nulls (j : ℤ)

theorem itemVal_inf (n K c nTest : ℕ) (util : List (List ℚ)) (nulls : List ℚ) (j : ℕ) (t2 : Option ℕ) (x : ℤ) :
    itemVal n K c nTest util nulls j t2 (infTally, x) = 0 := by
  simp [itemVal, infTally]

theorem get2_util (c nTest : ℕ) (util : List (List ℚ)) (l j : ℕ) :
    Np.get2 ({ r := c, c := nTest, d := util } : Np.A2 ℚ) (l : ℤ) (j : ℤ) = (util.map (·.getD j 0)).getD l 0 := by
  rw [Np.get2_natCast]
  simp only [List.getD_eq_getElem?_getD, List.getElem?_map]
  cases h : util[l]? with
  | none => simp; rfl
  | some row => simp; rfl

theorem itemVal_tallyOf (n K c nTest : ℕ) (util : List (List ℚ)) (nulls : List ℚ) (j : ℕ) (t2 : Option ℕ)
    (vec : List ℕ) (cnt : ℤ) (hn : 0 < n) :
    itemVal n K c nTest util nulls j t2 (tallyOf c vec, cnt)
      = term n K c (util.map (·.getD j 0)) (nulls.getD j 0) t2 vec cnt := by
  have hn1 : ((n : ℤ) - 1) = (((n - 1 : ℕ)) : ℤ) := by omega
  unfold itemVal term tallyOf
  simp only [Ds.GenBrute.sumI_cast, argmaxI_cast, hn1, Ds.GenBrute.comb_cast, Ds.GenBrute.ofInt_eq_cast, get2_util,
    Np.get1_natCast]
  have hdef : (default : ℚ) = 0 := rfl
  generalize (List.take c (List.drop 1 vec)).sum = sw
  generalize (List.take c (List.drop (1 + c) vec)).sum = swo
  have hcond : (false || decide (cnt ≤ 0) || decide (((sw : ℕ) : ℤ) ≠ (K : ℤ)) && true ||
        decide (((swo : ℕ) : ℤ) ≠ (K : ℤ)) && (t2.map (fun k : ℕ => (k : ℤ))).isSome ||
      decide (((swo : ℕ) : ℤ) ≥ (K : ℤ)) && (t2.map (fun k : ℕ => (k : ℤ))).isNone)
      = (decide (cnt ≤ 0) || sw != K || (t2.isSome && swo != K) || (t2.isNone && decide (swo ≥ K))) := by
    cases t2 <;> simp [bne, beq_eq_decide]
  rw [hcond]
  refine ite_congr rfl (fun _ => rfl) (fun _ => ?_)
  cases t2 with
  | none => simp [hdef]
  | some t => simp

/-- the innermost loop body on a tabulated accumulator -/
theorem item_step (n K c nTest : ℕ) (util : List (List ℚ)) (nulls : List ℚ) (j i : ℕ) (t2 : Option ℕ) (hi : i < n)
    (a : ℕ → ℚ) (kv : Np.Tally × ℤ) :
    (if (kv.1.is_inf || decide (kv.2 ≤ 0) || decide (Np.sumI kv.1.labeltally_with ≠ (K : ℤ)) && true ||
          decide (Np.sumI kv.1.labeltally_without ≠ (K : ℤ)) && (t2.map (fun k : ℕ => (k : ℤ))).isSome ||
        decide (Np.sumI kv.1.labeltally_without ≥ (K : ℤ)) && (t2.map (fun k : ℕ => (k : ℤ))).isNone) = true then
      (List.range n).map a
    else
      Np.set1 ((List.range n).map a) (i : ℤ)
        (Np.get1 ((List.range n).map a) (i : ℤ) +
          Np.ofInt 1 / Np.comb ((n : ℤ) - 1) kv.1.tupletally * Np.ofInt kv.2 *
            if (t2.map (fun k : ℕ => (k : ℤ))).isSome = true then
              Np.get2 { r := c, c := nTest, d := util } (Np.argmaxI kv.1.labeltally_with) (j : ℤ) -
                Np.get2 { r := c, c := nTest, d := util } (Np.argmaxI kv.1.labeltally_without) (j : ℤ)
            else
              Np.get2 { r := c, c := nTest, d := util } (Np.argmaxI kv.1.labeltally_with) (j : ℤ) -
                Np.get1 nulls (j : ℤ)))
      = (List.range n).map (fun k => a k + if k = i then itemVal n K c nTest util nulls j t2 kv else 0) := by
  unfold itemVal
  by_cases h : (kv.1.is_inf || decide (kv.2 ≤ 0) || decide (Np.sumI kv.1.labeltally_with ≠ (K : ℤ)) && true ||
          decide (Np.sumI kv.1.labeltally_without ≠ (K : ℤ)) && (t2.map (fun k : ℕ => (k : ℤ))).isSome ||
        decide (Np.sumI kv.1.labeltally_without ≥ (K : ℤ)) && (t2.map (fun k : ℕ => (k : ℤ))).isNone) = true
  · rw [if_pos h, if_pos h]
    simp
  · rw [if_neg h, if_neg h, Np.set1_natCast, Np.get1_natCast]
    exact set_tab n a i _ hi

/-! ### sums over the dictionary items -/

theorem items_sum (n K c nTest : ℕ) (util : List (List ℚ)) (nulls : List ℚ) (j : ℕ) (t2 : Option ℕ) (D : Dom)
    (counts : List ℤ) (hn : 0 < n) :
    ((itemsOf D c counts).map (itemVal n K c nTest util nulls j t2)).sum
      = ((D.vecs.zip counts).map (fun vc => term n K c (util.map (·.getD j 0)) (nulls.getD j 0) t2 vc.1 vc.2)).sum := by
  unfold itemsOf
  rw [List.map_append, List.sum_append, List.map_map, List.map_map]
  have h0 : (List.map (itemVal n K c nTest util nulls j t2 ∘ fun x => (infTally, x)) (List.drop D.vecs.length counts)).sum = 0 := by
    apply List.sum_eq_zero
    intro x hx
    simp only [List.mem_map, Function.comp] at hx
    obtain ⟨y, _, rfl⟩ := hx
    exact itemVal_inf ..
  rw [h0, add_zero]
  congr 1
  apply List.map_congr_left
  intro vc _
  exact itemVal_tallyOf n K c nTest util nulls j t2 vc.1 vc.2 hn

theorem sum_ite_const {β : Type} (l : List β) (f : β → ℚ) (P : Prop) [Decidable P] :
    (l.map (fun x => if P then f x else 0)).sum = if P then (l.map f).sum else 0 := by
  by_cases h : P <;> simp [h]

/-- the innermost sum of `addSum` -/
def unitSum (n K c : ℕ) (q : ℕ → ℕ → ℕ → Option ℕ → List ℤ) (util : List (List ℚ)) (nulls : List ℚ) (j : ℕ)
    (tp : ℕ × Option ℕ) (i : ℕ) : ℚ :=
  (((Dom.tally (n - 1) K c).vecs.zip (q j i tp.1 tp.2)).map (fun vc =>
    term n K c (util.map (·.getD j 0)) (nulls.getD j 0) tp.2 vc.1 vc.2)).sum

/-! ### inversion of the model's `Except` computations -/

/-- the value of a successful computation (`default` otherwise) -/
def getOk {β : Type} [Inhabited β] : Except Err β → β
  | .ok y => y
  | .error _ => default

theorem getOk_ok {β : Type} [Inhabited β] (y : β) : getOk (Except.ok y : Except Err β) = y := rfl

theorem mapM_ok_get {α β : Type} [Inhabited β] (f : α → Except Err β) (l : List α) (m : List β) (h : l.mapM f = .ok m) :
    (∀ x ∈ l, f x = .ok (getOk (f x))) ∧ m = l.map (fun x => getOk (f x)) := by
  rw [Prov.mapM_ok_iff] at h
  have h1 : ∀ x ∈ l, f x = .ok (getOk (f x)) := by
    intro x hx
    have : f x ∈ m.map Except.ok := by rw [← h]; exact List.mem_map_of_mem hx
    obtain ⟨y, _, hy⟩ := List.mem_map.mp this
    rw [← hy]; rfl
  refine ⟨h1, ?_⟩
  apply Prov.map_ok_inj
  rw [← h, List.map_map]
  apply List.map_congr_left
  intro x hx
  exact h1 x hx

theorem bind_ok_inv {α β : Type} (x : Except Err α) (f : α → Except Err β) (y : β) (h : (x >>= f) = .ok y) :
    ∃ a, x = .ok a ∧ f a = .ok y := by
  cases x with
  | error e => cases h
  | ok a => exact ⟨a, rfl, h⟩

theorem pointUnit_inv {D : Dom} (n K c R : ℕ) (b : Built D) (utilJ : List ℚ) (nullJ : ℚ) (i : ℕ) (x : ℚ)
    (h : pointUnit n K c R b utilJ nullJ i = .ok x) :
    (∀ tp ∈ boundaryPairs R, query c b R i (some tp.1) tp.2 = .ok (getOk (query c b R i (some tp.1) tp.2))) ∧
    x = ((boundaryPairs R).map (fun tp =>
      ((D.vecs.zip (getOk (query c b R i (some tp.1) tp.2))).map (fun vc => term n K c utilJ nullJ tp.2 vc.1 vc.2)).sum)).sum := by
  unfold pointUnit at h
  obtain ⟨parts, hp, hx⟩ := bind_ok_inv _ _ _ h
  obtain ⟨h1, h2⟩ := mapM_ok_get _ _ _ hp
  have hq : ∀ tp ∈ boundaryPairs R, query c b R i (some tp.1) tp.2 = .ok (getOk (query c b R i (some tp.1) tp.2)) := by
    intro tp htp
    obtain ⟨cs, hcs, _⟩ := bind_ok_inv _ _ _ (h1 tp htp)
    rw [hcs]; rfl
  refine ⟨hq, ?_⟩
  have hx' : x = parts.sum := by
    simp only [pure, Except.pure, Except.ok.injEq] at hx
    exact hx.symm
  rw [hx', h2]
  congr 1
  apply List.map_congr_left
  intro tp htp
  rw [hq tp htp]
  rfl

/-- the table of the model's own oracle answers -/
def qOf (p : Prov.P) (labels : List ℕ) (dist : List (List ℚ)) (K c : ℕ) (j i t1 : ℕ) (t2 : Option ℕ) : List ℤ :=
  match build (Dom.tally (p.nUnits - 1) K c) c p labels (dist.map (·.getD j 0)) with
  | .ok b => getOk (query c b p.data.length i (some t1) t2)
  | .error _ => []

theorem qOf_eq (p : Prov.P) (labels : List ℕ) (dist : List (List ℚ)) (K c : ℕ) (j i t1 : ℕ) (t2 : Option ℕ)
    (b : Built (Dom.tally (p.nUnits - 1) K c))
    (hb : build (Dom.tally (p.nUnits - 1) K c) c p labels (dist.map (·.getD j 0)) = .ok b) :
    qOf p labels dist K c j i t1 t2 = getOk (query c b p.data.length i (some t1) t2) := by
  unfold qOf
  rw [hb]

end DsProofs.TieN
