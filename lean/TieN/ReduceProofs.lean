import TieN.Defs
import DsProofs.KernelProofs
import Tie.NpProofs
/-!
# TieN.ReduceProofs — the translated `get_unit_labels_and_distances` is the model's `Kernel.unitReduce`

Helper lemmas first (folds of `set` / `Np.set2` over a range, `Np.maskSel` as a map over `idxOfMask`, `Np.argminF` = `Kernel.argminFirst`,
the model cell by cell), then the loop body `unitStep` (the lambda of the generated code, restated; `gen_unfold` is `rfl`), its closed form
`unitStep_eq`, the outer invariant `outer_eq`, and the two theorems.
-/
open Ds Ds.Kernel Ds.GenNbr

namespace DsProofs.TieN

theorem foldl_pair {σ τ ι : Type} (F : σ → ι → σ) (G : τ → ι → τ) (l : List ι) (a : σ) (b : τ) :
    l.foldl (fun st j => (F st.1 j, G st.2 j)) (a, b) = (l.foldl F a, l.foldl G b) := by
  induction l generalizing a b with
  | nil => rfl
  | cons x t ih => simp only [List.foldl_cons]; exact ih _ _

theorem foldl_set_range {β : Type} (f : ℕ → β) (m : ℕ) (d : List β) (hm : m ≤ d.length) :
    (List.range m).foldl (fun d k => d.set k (f k)) d = (List.range m).map f ++ d.drop m := by
  induction m with
  | zero => simp
  | succ m ih =>
    rw [List.range_succ, List.foldl_append, ih (by omega)]
    simp only [List.foldl_cons, List.foldl_nil, List.map_append, List.map_cons, List.map_nil]
    rw [List.set_append_right _ _ (by simp)]
    simp only [List.length_map, List.length_range, Nat.sub_self]
    rw [List.append_assoc]; congr 1
    have : m < d.length := by omega
    rw [List.drop_eq_getElem_cons this]; rfl

theorem set2_natCast {β : Type} (a : Np.A2 β) (k j : ℕ) (x : β) (hk : k < a.d.length) :
    Np.set2 a (k : ℤ) (j : ℤ) x = ⟨a.r, a.c, a.d.set k ((a.d.getD k []).set j x)⟩ := by
  unfold Np.set2
  rw [Np.pyIdx_natCast, if_pos hk]
  simp only [Np.set1_natCast]

theorem set2_foldl {β : Type} (k : ℕ) (f : ℕ → β) (l : List ℕ) (a : Np.A2 β) (hk : k < a.d.length) :
    l.foldl (fun (a : Np.A2 β) (j : ℕ) => Np.set2 a (k : ℤ) (j : ℤ) (f j)) a
      = ⟨a.r, a.c, a.d.set k (l.foldl (fun row j => row.set j (f j)) (a.d.getD k []))⟩ := by
  induction l generalizing a with
  | nil =>
    obtain ⟨r, c, d⟩ := a
    simp only [List.foldl_nil, Np.A2.mk.injEq, true_and]
    apply List.ext_getElem
    · simp
    · intro i h1 h2
      simp only [List.getElem_set]
      split_ifs with h
      · subst h; simp [List.getD_eq_getElem?_getD, List.getElem?_eq_getElem hk]
      · rfl
  | cons x t ih =>
    rw [List.foldl_cons, set2_natCast _ _ _ _ hk, ih _ (by simpa using hk)]
    simp [List.getD_eq_getElem?_getD, hk]

theorem set2_fold_range {β : Type} (a : Np.A2 β) (k m : ℕ) (f : ℕ → β) (hk : k < a.d.length) (hrow : (a.d.getD k []).length = m) :
    (List.range m).foldl (fun (a : Np.A2 β) (j : ℕ) => Np.set2 a (k : ℤ) (j : ℤ) (f j)) a = ⟨a.r, a.c, a.d.set k ((List.range m).map f)⟩ := by
  rw [set2_foldl _ _ _ _ hk, foldl_set_range _ _ _ (by omega), List.drop_of_length_le (by omega), List.append_nil]

theorem idxOfMask_cons (b : Bool) (m : List Bool) :
    idxOfMask (b :: m) = (if b then [0] else []) ++ (idxOfMask m).map Nat.succ := by
  unfold idxOfMask
  rw [List.length_cons, List.range_succ_eq_map, List.filter_cons, List.filter_map]
  cases b <;> simp [Function.comp_def]

theorem idxOfMask_nil_of_any (m : List Bool) (h : m.any id = false) : idxOfMask m = [] := by
  induction m with
  | nil => rfl
  | cons b t ih =>
    rw [List.any_cons, Bool.or_eq_false_iff] at h
    rw [idxOfMask_cons, ih h.2]
    have : b = false := h.1
    subst this; rfl

theorem idxOfMask_ne_nil_of_any (m : List Bool) (h : m.any id = true) : idxOfMask m ≠ [] := by
  induction m with
  | nil => simp at h
  | cons b t ih =>
    rw [idxOfMask_cons]
    cases b with
    | true => simp
    | false =>
      simp only [List.any_cons, id, Bool.false_or] at h
      simpa using ih h

theorem maskSel_eq {β : Type} (d : β) (l : List β) (m : List Bool) (h : l.length = m.length) :
    Np.maskSel l m = (idxOfMask m).map (fun r => l.getD r d) := by
  induction l generalizing m with
  | nil =>
    cases m with
    | nil => rfl
    | cons b t => simp at h
  | cons x xs ih =>
    cases m with
    | nil => simp at h
    | cons b t =>
      have h' : xs.length = t.length := by simpa using h
      have ih' := ih t h'
      unfold Np.maskSel at ih' ⊢
      rw [idxOfMask_cons, List.zip_cons_cons, List.filter_cons]
      cases b with
      | true => simp [ih', Function.comp_def]
      | false => simp [ih', Function.comp_def]

theorem argminF_go_eq (best : ℚ) (bi i : ℕ) (l : List ℚ) :
    Np.argminF.go best bi i l = argminFirst.go best bi i l := by
  induction l generalizing best bi i with
  | nil => rfl
  | cons y ys ih =>
    unfold Np.argminF.go argminFirst.go
    by_cases h : y < best
    · rw [if_pos h, if_pos h]; exact ih _ _ _
    · rw [if_neg h, if_neg h]; exact ih _ _ _

theorem argminFirst_go_lt (best : ℚ) (bi i : ℕ) (l : List ℚ) (h : bi < i) :
    argminFirst.go best bi i l < i + l.length := by
  induction l generalizing best bi i with
  | nil => simpa [argminFirst.go] using h
  | cons y ys ih =>
    unfold argminFirst.go
    split_ifs
    · have := ih y i (i + 1) (by omega); simp only [List.length_cons]; omega
    · have := ih best bi (i + 1) (by omega); simp only [List.length_cons]; omega

/-- a non-empty scan: both `argmin`s return the same in-range position -/
theorem argmin_cons (x : ℚ) (xs : List ℚ) :
    ∃ k, argminFirst (x :: xs) = some k ∧ Np.argminF (x :: xs) = (k : ℤ) ∧ k < (x :: xs).length := by
  refine ⟨argminFirst.go x 0 1 xs, rfl, ?_, ?_⟩
  · show ((Np.argminF.go x 0 1 xs : ℕ) : ℤ) = _
    rw [argminF_go_eq]
  · have := argminFirst_go_lt x 0 1 xs (by omega); simp only [List.length_cons]; omega


/-! ### the model side, cell by cell -/

/-- column `j` of the distance rows `rows` -/
def gdOf (dist : List (List ℚ)) (rows : List ℕ) (j : ℕ) : List ℚ := rows.map (fun r => (dist.getD r []).getD j 0)

/-- label and distance the model stores for a unit with rows `rows` at validation point `j` -/
def ucell (labels : List ℕ) (dist : List (List ℚ)) (c : ℕ) (big : ℚ) (rows : List ℕ) (j : ℕ) : ℕ × ℚ :=
  match argminFirst (gdOf dist rows j) with
  | none => (c, big)
  | some k => (labels.getD (rows.getD k 0) 0, (gdOf dist rows j).getD k 0)

theorem unitReduce_eq (ro : List (List ℕ)) (labels : List ℕ) (dist : List (List ℚ)) (nTest c : ℕ) :
    unitReduce ro labels dist nTest c
      = (ro.map (fun rows => (List.range nTest).map (fun j => (ucell labels dist c ((dist.flatten.foldl max 0) + 1) rows j).1)),
         ro.map (fun rows => (List.range nTest).map (fun j => (ucell labels dist c ((dist.flatten.foldl max 0) + 1) rows j).2))) := by
  unfold unitReduce
  simp only [List.map_map, Function.comp_def]
  rfl

theorem ucell_nil (labels : List ℕ) (dist : List (List ℚ)) (c : ℕ) (big : ℚ) (j : ℕ) : ucell labels dist c big [] j = (c, big) := rfl

theorem getD_map_lt {β γ : Type} (f : β → γ) (l : List β) (k : ℕ) (d : γ) (d' : β) (h : k < l.length) :
    (l.map f).getD k d = f (l.getD k d') := by
  simp [List.getD_eq_getElem?_getD, List.getElem?_eq_getElem h]

theorem argmin_rows (dist : List (List ℚ)) (rows : List ℕ) (j : ℕ) (hne : rows ≠ []) :
    ∃ k0, argminFirst (gdOf dist rows j) = some k0 ∧ Np.argminF (gdOf dist rows j) = (k0 : ℤ) ∧ k0 < rows.length := by
  obtain ⟨r0, rs, rfl⟩ := List.exists_cons_of_ne_nil hne
  obtain ⟨k0, h1, h2, h3⟩ := argmin_cons ((dist.getD r0 []).getD j 0) (gdOf dist rs j)
  refine ⟨k0, h1, h2, ?_⟩
  simpa [gdOf] using h3

theorem ucell_code (labels : List ℕ) (dist : List (List ℚ)) (c : ℕ) (big : ℚ) (rows : List ℕ) (nTest j : ℕ) (hne : rows ≠ []) :
    Np.get1 (rows.map (fun r => (labels.map (fun k : ℕ => (k : ℤ))).getD r 0)) (Np.argminF (gdOf dist rows j))
        = ((ucell labels dist c big rows j).1 : ℤ)
    ∧ Np.get2 (⟨rows.length, nTest, rows.map (fun r => dist.getD r [])⟩ : Np.A2 ℚ) (Np.argminF (gdOf dist rows j)) (j : ℤ)
        = (ucell labels dist c big rows j).2 := by
  obtain ⟨k0, h1, h2, h3⟩ := argmin_rows dist rows j hne
  unfold ucell
  rw [h1, h2]
  simp only []
  constructor
  · rw [Np.get1_natCast, getD_map_lt _ _ _ _ 0 h3]
    simp only [List.getD_eq_getElem?_getD, List.getElem?_map]
    cases labels[rows[k0]?.getD 0]? <;> rfl
  · rw [Np.get2_natCast]
    unfold gdOf
    rw [getD_map_lt _ _ _ _ 0 h3, getD_map_lt _ _ _ _ 0 h3]
    rfl


/-! ### the translated loop -/

/-- body of the inner loop over validation points -/
def pointStep (i : ℤ) (glabels : List ℤ) (gd : Np.A2 ℚ) (gmin : List ℤ) (st : Np.A2 ℤ × Np.A2 ℚ) (j : ℤ) : Np.A2 ℤ × Np.A2 ℚ :=
  (Np.set2 st.1 i j (Np.get1 glabels (Np.get1 gmin j)), Np.set2 st.2 i j (Np.get2 gd (Np.get1 gmin j) j))

/-- body of the loop over units (the lambda of `GenN.get_unit_labels_and_distances`, restated) -/
def unitStep (pq : List ℤ → List Bool) (inf : ℚ) (labels : List ℤ) (distances : Np.A2 ℚ) (units world : List ℤ) (nl : ℤ) (n_test : ℤ)
    (st : List ℤ × Np.A2 ℤ × Np.A2 ℚ) (i : ℤ) : List ℤ × Np.A2 ℤ × Np.A2 ℚ :=
  let unit := Np.get1 units i
  let q1 := Np.set1 st.1 unit (Np.get1 world i)
  let gidx := pq q1
  let q2 := Np.set1 q1 unit 0
  if (!(gidx.any id)) then (q2, Np.setRowConst st.2.1 i nl, Np.setRowConst st.2.2 i inf)
  else
    let r := (Np.range 0 n_test 1).foldl
      (pointStep i (Np.maskSel labels gidx) (Np.maskRows distances gidx) (Np.argmin0 (Np.maskRows distances gidx))) (st.2.1, st.2.2)
    (q2, r.1, r.2)

theorem gen_unfold (pn : ℤ) (pq : List ℤ → List Bool) (inf : ℚ) (labels : List ℤ) (distances : Np.A2 ℚ) (units world : List ℤ) (nl : ℤ) :
    GenN.get_unit_labels_and_distances false pn pq inf labels distances units world nl
      = (((Np.range 0 (Np.len1 units) 1).foldl (unitStep pq inf labels distances units world nl (Np.shape1 distances))
          (Np.rep 0 pn, Np.full2 (Np.len1 units) (Np.shape1 distances) 0, Np.full2 (Np.len1 units) (Np.shape1 distances) (Np.ofInt 0))).2.1,
         ((Np.range 0 (Np.len1 units) 1).foldl (unitStep pq inf labels distances units world nl (Np.shape1 distances))
          (Np.rep 0 pn, Np.full2 (Np.len1 units) (Np.shape1 distances) 0, Np.full2 (Np.len1 units) (Np.shape1 distances) (Np.ofInt 0))).2.2) := rfl

theorem inner_eq (k nTest : ℕ) (gl : List ℤ) (gd : Np.A2 ℚ) (gmin : List ℤ) (a : Np.A2 ℤ) (b : Np.A2 ℚ)
    (hka : k < a.d.length) (hra : (a.d.getD k []).length = nTest) (hkb : k < b.d.length) (hrb : (b.d.getD k []).length = nTest) :
    (Np.range 0 (nTest : ℤ) 1).foldl (pointStep (k : ℤ) gl gd gmin) (a, b)
      = (⟨a.r, a.c, a.d.set k ((List.range nTest).map (fun j : ℕ => Np.get1 gl (Np.get1 gmin (j : ℤ))))⟩,
         ⟨b.r, b.c, b.d.set k ((List.range nTest).map (fun j : ℕ => Np.get2 gd (Np.get1 gmin (j : ℤ)) (j : ℤ)))⟩) := by
  rw [Np.range_up, List.foldl_map]
  refine Eq.trans (foldl_pair (fun (a : Np.A2 ℤ) (j : ℕ) => Np.set2 a (k : ℤ) (j : ℤ) (Np.get1 gl (Np.get1 gmin (j : ℤ))))
    (fun (b : Np.A2 ℚ) (j : ℕ) => Np.set2 b (k : ℤ) (j : ℤ) (Np.get2 gd (Np.get1 gmin (j : ℤ)) (j : ℤ))) (List.range nTest) a b) ?_
  rw [set2_fold_range _ _ _ _ hka hra, set2_fold_range _ _ _ _ hkb hrb]


theorem get1_unitsOf (n k : ℕ) (hk : k < n) : Np.get1 (unitsOf n) (k : ℤ) = (k : ℤ) := by
  rw [Np.get1_natCast]; unfold unitsOf
  rw [getD_map_lt _ _ _ _ 0 (by simpa using hk)]
  simp [List.getD_eq_getElem?_getD, List.getElem?_range hk]

theorem get1_ones (n k : ℕ) (hk : k < n) : Np.get1 (List.replicate n (1 : ℤ)) (k : ℤ) = 1 := by
  rw [Np.get1_natCast]
  simp [List.getD_eq_getElem?_getD, hk]

theorem set1_zero_oneHot (n k : ℕ) : Np.set1 (List.replicate n (0 : ℤ)) (k : ℤ) 1 = oneHot n k := by
  rw [Np.set1_natCast]; rfl

theorem set1_oneHot_back (n k : ℕ) : Np.set1 (oneHot n k) (k : ℤ) 0 = List.replicate n (0 : ℤ) := by
  rw [Np.set1_natCast]; unfold oneHot
  rw [List.set_set]
  apply List.ext_getElem
  · simp
  · intro i h1 h2
    simp

theorem maskRows_eq (R nTest : ℕ) (dist : List (List ℚ)) (m : List Bool) (h : dist.length = m.length) :
    Np.maskRows (⟨R, nTest, dist⟩ : Np.A2 ℚ) m
      = ⟨(idxOfMask m).length, nTest, (idxOfMask m).map (fun r => dist.getD r [])⟩ := by
  unfold Np.maskRows
  simp only [maskSel_eq [] dist m h, List.length_map]

theorem col_maskRows (nTest : ℕ) (dist : List (List ℚ)) (rows : List ℕ) (j : ℕ) :
    Np.col (⟨rows.length, nTest, rows.map (fun r => dist.getD r [])⟩ : Np.A2 ℚ) (j : ℤ) = gdOf dist rows j := by
  rw [Np.col_natCast]
  unfold gdOf
  simp only [List.map_map, Function.comp_def]
  rfl

theorem get1_argmin0 (nTest : ℕ) (dist : List (List ℚ)) (rows : List ℕ) (j : ℕ) (hj : j < nTest) :
    Np.get1 (Np.argmin0 (⟨rows.length, nTest, rows.map (fun r => dist.getD r [])⟩ : Np.A2 ℚ)) (j : ℤ) = Np.argminF (gdOf dist rows j) := by
  unfold Np.argmin0
  rw [Np.get1_natCast, getD_map_lt _ _ _ _ 0 (by simpa using hj)]
  have hr : (List.range nTest).getD j 0 = j := by
    simp only [List.getD_eq_getElem?_getD, List.getElem?_range hj, Option.getD_some]
  rw [hr, col_maskRows]

theorem unitStep_eq (n R nTest c k : ℕ) (pq : List ℤ → List Bool) (inf : ℚ) (labels : List ℕ) (dist : List (List ℚ))
    (hR : dist.length = R) (hlab : labels.length = R) (hk : k < n) (hpq : (pq (oneHot n k)).length = R)
    (dL : List (List ℤ)) (dD : List (List ℚ))
    (hL : k < dL.length) (hLr : (dL.getD k []).length = nTest) (hD : k < dD.length) (hDr : (dD.getD k []).length = nTest) :
    unitStep pq inf (labels.map (fun k : ℕ => (k : ℤ))) ⟨R, nTest, dist⟩ (unitsOf n) (List.replicate n (1 : ℤ)) (c : ℤ) (nTest : ℤ)
        (List.replicate n (0 : ℤ), ⟨n, nTest, dL⟩, ⟨n, nTest, dD⟩) (k : ℤ)
      = (List.replicate n (0 : ℤ),
          ⟨n, nTest, dL.set k ((List.range nTest).map (fun j => ((ucell labels dist c inf (idxOfMask (pq (oneHot n k))) j).1 : ℤ)))⟩,
          ⟨n, nTest, dD.set k ((List.range nTest).map (fun j => (ucell labels dist c inf (idxOfMask (pq (oneHot n k))) j).2))⟩) := by
  unfold unitStep
  simp only [get1_unitsOf n k hk, get1_ones n k hk, set1_zero_oneHot, set1_oneHot_back]
  generalize hm : pq (oneHot n k) = m at hpq ⊢
  cases hany : m.any id with
  | false =>
    simp only [Bool.not_false, if_true]
    rw [idxOfMask_nil_of_any m hany]
    simp only [ucell_nil, Np.setRowConst, Np.set1_natCast]
    simp
  | true =>
    simp only [Bool.not_true, Bool.false_eq_true, if_false]
    have hne := idxOfMask_ne_nil_of_any m hany
    rw [inner_eq k nTest _ _ _ _ _ hL hLr hD hDr]
    have hml : (labels.map (fun k : ℕ => (k : ℤ))).length = m.length := by rw [List.length_map, hlab, hpq]
    rw [maskRows_eq R nTest dist m (by rw [hR, hpq]), maskSel_eq 0 _ m hml]
    simp only [Prod.mk.injEq, Np.A2.mk.injEq, true_and]
    constructor
    · congr 1
      apply List.map_congr_left
      intro j hj
      rw [get1_argmin0 _ _ _ _ (List.mem_range.mp hj)]
      exact (ucell_code labels dist c inf (idxOfMask m) nTest j hne).1
    · congr 1
      apply List.map_congr_left
      intro j hj
      rw [get1_argmin0 _ _ _ _ (List.mem_range.mp hj)]
      exact (ucell_code labels dist c inf (idxOfMask m) nTest j hne).2


theorem set_prefix_fill {β : Type} (f : ℕ → β) (z : β) (n m : ℕ) (hm : m < n) :
    ((List.range m).map f ++ List.replicate (n - m) z).set m (f m) = (List.range (m + 1)).map f ++ List.replicate (n - (m + 1)) z := by
  rw [List.set_append_right _ _ (by simp)]
  simp only [List.length_map, List.length_range, Nat.sub_self]
  have : n - m = (n - (m + 1)) + 1 := by omega
  rw [this, List.replicate_succ, List.set_cons_zero, List.range_succ, List.map_append, List.append_assoc]
  rfl

theorem getD_prefix_fill {β : Type} (f : ℕ → β) (z d : β) (n m : ℕ) (hm : m < n) :
    ((List.range m).map f ++ List.replicate (n - m) z).getD m d = z := by
  rw [List.getD_eq_getElem?_getD, List.getElem?_append_right (by simp)]
  simp only [List.length_map, List.length_range, Nat.sub_self]
  rw [List.getElem?_replicate, if_pos (by omega)]; rfl

theorem outer_eq (n R nTest c : ℕ) (pq : List ℤ → List Bool) (inf : ℚ) (labels : List ℕ) (dist : List (List ℚ))
    (hR : dist.length = R) (hlab : labels.length = R) (hpq : ∀ u < n, (pq (oneHot n u)).length = R) (m : ℕ) (hm : m ≤ n) :
    (List.range m).foldl (fun st (k : ℕ) =>
        unitStep pq inf (labels.map (fun k : ℕ => (k : ℤ))) ⟨R, nTest, dist⟩ (unitsOf n) (List.replicate n (1 : ℤ)) (c : ℤ) (nTest : ℤ) st (k : ℤ))
        (List.replicate n (0 : ℤ), ⟨n, nTest, List.replicate n (List.replicate nTest (0 : ℤ))⟩,
          ⟨n, nTest, List.replicate n (List.replicate nTest (0 : ℚ))⟩)
      = (List.replicate n (0 : ℤ),
          ⟨n, nTest, (List.range m).map (fun k => (List.range nTest).map (fun j => ((ucell labels dist c inf (idxOfMask (pq (oneHot n k))) j).1 : ℤ)))
              ++ List.replicate (n - m) (List.replicate nTest (0 : ℤ))⟩,
          ⟨n, nTest, (List.range m).map (fun k => (List.range nTest).map (fun j => (ucell labels dist c inf (idxOfMask (pq (oneHot n k))) j).2))
              ++ List.replicate (n - m) (List.replicate nTest (0 : ℚ))⟩) := by
  induction m with
  | zero => simp
  | succ m ih =>
    rw [List.range_succ, List.foldl_append, ih (by omega), List.foldl_cons, List.foldl_nil]
    rw [unitStep_eq n R nTest c m pq inf labels dist hR hlab (by omega) (hpq m (by omega)) _ _
      (by simp; omega) (by rw [getD_prefix_fill _ _ _ _ _ (by omega)]; simp)
      (by simp; omega) (by rw [getD_prefix_fill _ _ _ _ _ (by omega)]; simp)]
    rw [set_prefix_fill _ _ _ _ (by omega), set_prefix_fill _ _ _ _ (by omega), List.range_succ]

/-- simple provenance: labels broadcast over the validation points, distances handed on unchanged -/
theorem reduce_simple (n : ℤ) (pq : List ℤ → List Bool) (inf : ℚ) (labels : List ℤ) (dist : Np.A2 ℚ) (units world : List ℤ) (nl : ℤ) :
    GenN.get_unit_labels_and_distances true n pq inf labels dist units world nl
      = (⟨dist.r, dist.c, labels.map (fun l => List.replicate dist.c l)⟩, dist) := by
  unfold GenN.get_unit_labels_and_distances
  simp [Np.broadcastCols, Np.shape0, Np.shape1]

theorem reduce_eq_model (n R nTest c : ℕ) (pq : List ℤ → List Bool) (labels : List ℕ) (dist : List (List ℚ)) (ro : List (List ℕ))
    (hR : dist.length = R) (hlab : labels.length = R) (hrect : ∀ row ∈ dist, row.length = nTest)
    (hpq : ∀ u < n, (pq (oneHot n u)).length = R) (hro : ro = (List.range n).map (fun u => idxOfMask (pq (oneHot n u)))) :
    GenN.get_unit_labels_and_distances false (n : ℤ) pq ((dist.flatten.foldl max 0) + 1) (labels.map (fun k : ℕ => (k : ℤ))) ⟨R, nTest, dist⟩
        (unitsOf n) (List.replicate n (1 : ℤ)) (c : ℤ)
      = (⟨n, nTest, (unitReduce ro labels dist nTest c).1.map (fun row => row.map (fun k : ℕ => (k : ℤ)))⟩,
         ⟨n, nTest, (unitReduce ro labels dist nTest c).2⟩) := by
  have _ := hrect  -- not needed: every read of `dist` goes through `getD` on both sides
  have hlen : Np.len1 (unitsOf n) = (n : ℤ) := by unfold Np.len1 unitsOf; simp
  have hsh : Np.shape1 (⟨R, nTest, dist⟩ : Np.A2 ℚ) = (nTest : ℤ) := rfl
  have hof : (Np.ofInt (0 : ℤ) : ℚ) = 0 := by unfold Np.ofInt; simp
  have hfL : Np.full2 (n : ℤ) (nTest : ℤ) (0 : ℤ) = ⟨n, nTest, List.replicate n (List.replicate nTest (0 : ℤ))⟩ := by
    unfold Np.full2; simp
  have hfD : Np.full2 (n : ℤ) (nTest : ℤ) (0 : ℚ) = ⟨n, nTest, List.replicate n (List.replicate nTest (0 : ℚ))⟩ := by
    unfold Np.full2; simp
  rw [gen_unfold, hlen, hsh, hof, hfL, hfD, Np.rep_natCast, Np.range_up, List.foldl_map,
    outer_eq n R nTest c pq _ labels dist hR hlab hpq n (le_refl n), unitReduce_eq, hro]
  simp [List.map_map, Function.comp_def]

/-! ### non-vacuity: 3 rows, 3 units (unit 0 owns rows 0 and 2, unit 1 owns none, unit 2 owns row 1), 2 validation points;
rows 0 and 2 tie at validation point 0 (the first one, row 0, wins), row 2 wins at validation point 1 -/

/-- `provenance.query` of the example -/
def pqEx : List ℤ → List Bool := fun q => [q.getD 0 0 == 1, q.getD 2 0 == 1, q.getD 0 0 == 1]

example :
    GenN.get_unit_labels_and_distances false 3 pqEx (6 : ℚ) [0, 1, 1] ⟨3, 2, [[1, 5], [2, 4], [1, 3]]⟩ [0, 1, 2] [1, 1, 1] 2
      = (⟨3, 2, [[0, 1], [2, 2], [1, 1]]⟩, ⟨3, 2, [[1, 3], [6, 6], [2, 4]]⟩) := by
  rfl

/-- the hypotheses of `reduce_eq_model` are satisfiable: the theorem applies to that input, and the model's value is the one above -/
example :
    GenN.get_unit_labels_and_distances false ((3 : ℕ) : ℤ) pqEx (([[1, 5], [2, 4], [1, 3]] : List (List ℚ)).flatten.foldl max 0 + 1)
        (([0, 1, 1] : List ℕ).map (fun k : ℕ => (k : ℤ))) ⟨3, 2, [[1, 5], [2, 4], [1, 3]]⟩ (unitsOf 3) (List.replicate 3 (1 : ℤ)) ((2 : ℕ) : ℤ)
      = (⟨3, 2, (unitReduce [[0, 2], [], [1]] [0, 1, 1] [[1, 5], [2, 4], [1, 3]] 2 2).1.map (fun row => row.map (fun k : ℕ => (k : ℤ)))⟩,
         ⟨3, 2, (unitReduce [[0, 2], [], [1]] [0, 1, 1] [[1, 5], [2, 4], [1, 3]] 2 2).2⟩) :=
  reduce_eq_model 3 3 2 2 pqEx [0, 1, 1] [[1, 5], [2, 4], [1, 3]] [[0, 2], [], [1]] rfl rfl (by decide) (fun _ _ => rfl) (by decide +kernel)

example : unitReduce [[0, 2], [], [1]] [0, 1, 1] [[1, 5], [2, 4], [1, 3]] 2 2 = ([[0, 1], [2, 2], [1, 1]], [[1, 3], [6, 6], [2, 4]]) := by
  decide +kernel

end DsProofs.TieN

#print axioms DsProofs.TieN.reduce_simple
#print axioms DsProofs.TieN.reduce_eq_model
