import TieN.AddProofs
import TieN.ReduceProofs
import TieN.LoopProofs
import Tie.Properties
import DsProofs.Properties.C02Oracle
/-!
# TIEN — the code of the 'neighbor' method around the kernels AS IT IS WRITTEN NOW
(`GenN/Neighbor.lean`, regenerated from `/repo/datascope/importance/shapley.py` on every run by `harness/translate_nbr.py`)

`compute_shapley_add` — library objects are parameters: `oracle_query atype j unit t1 t2` is the dictionary `ShapleyOracle(provenance, labels,
distances[:, j], atype).query(target=provenance.units[unit], boundary_with=t1, boundary_without=t2)` as the list of its items.

* `TIEN_add_sums`: on an oracle that answers (only for the tally type `ATally[n-1, K, c]` — the code must construct exactly that type: the F2 clause) with the
  domain of that type zipped with a table of counts `q`, the translated loop nest returns for every unit `i` the triple sum over validation points, boundary pairs
  `(t1, t2 ∈ rows ∪ {None})` and tallies of the model's summand `Oracle.term` (the skip conditions, `argmax`, utility difference or `− null_scores[j]`, weight
  `1 / C(n-1, size)`), divided by `n · n_test` — for every table `q`, every size.
* `TIEN_add_model`: when the model `Oracle.scores` succeeds with `L`, the translated code run on the model's own oracle answers returns `L`.
* `TIEN_C02`: hence, under the hypotheses of `C02_exact` (conjunctive provenance, ≥ 2 units, distinct distances …), the translated `compute_shapley_add`
  returns the Shapley value `Sh.phiM` of the mean K-NN game.

`get_unit_labels_and_distances` — `provenance.query` is the parameter `pq` (its tie to the model is `TIEQ_mask`).
* `TIEN_reduce_simple`: a simple provenance hands the distances on unchanged and broadcasts the labels.
* `TIEN_reduce`: otherwise the translated reduction returns, array for array, the model's `Kernel.unitReduce` of the rows each unit owns (`idxOfMask` of the query
  with only that unit switched on): per unit and validation point the label and distance of the FIRST row of minimal distance, the null label at `inf` for a unit
  without rows (the F12 clause).
The tail of `_shapley_neighbor` (`GenN.shapley_neighbor_loop`: from the batch size to `return`; the validation set is the list of its row positions; the distance
callable, the two element-wise utility methods, the two scoring routines and `get_test_batch_size` are parameters).
* `TIEN_loop`: the translated loop is the fold over the batch starts `range(0, n_test, batch_size)` of the element-wise sum of the batch terms — each batch scored by
  the 1-NN map/fork routine iff `k == 1 and provenance.max_conjunctions == 1`, by the decision-diagram routine otherwise (`num_neighbors = k`), weighted by
  `len(batch) / n_test`; the element-wise utilities are handed the UNSLICED `y_test` (observation F13).
* `TIEN_one_batch`: with the batch size the translated `get_test_batch_size` computes (= `n_test` for every budget: `TIE_batch_size`) there is exactly one batch, the
  whole validation set with weight 1, so the tail returns exactly what the selected scoring routine returns for the whole validation set — for every value of
  `BATCH_DISTANCE_MATRIX_SIZE` (C07's batch clause for the source as written).
* `TIEN_mapfork`: `compute_shapley_1nn_mapfork` hands exactly those arrays, the utilities and the null scores to the kernel (tied in `Tie/`), with the null label
  `label_utilities.shape[0]`.
-/
open Ds Ds.Oracle Ds.Kernel Ds.GenNbr AddPath

namespace DsProofs.TieN

theorem TIEN_add_sums (n R nTest K c : ℕ) (q : ℕ → ℕ → ℕ → Option ℕ → List ℤ) (util : List (List ℚ)) (nulls : List ℚ) (mc : Option ℤ)
    (hmc : ∀ m, mc = some m → (n : ℤ) ≤ m) :
    GenN.compute_shapley_add (oracleOf n K c q) (unitsOf n) (R : ℤ) (nTest : ℤ) ⟨c, nTest, util⟩ nulls mc (K : ℤ) (c : ℤ)
      = (List.range n).map (fun i => addSum n R nTest K c q util nulls i / (((n * nTest : ℕ)) : ℚ)) :=
  add_eq_sums n R nTest K c q util nulls mc hmc

/-- the translated code, given the model's oracle answers, returns what the model `Oracle.scores` returns -/
theorem TIEN_add_model (p : Prov.P) (labels : List ℕ) (dist util : List (List ℚ)) (nulls : List ℚ) (K c : ℕ) (L : List ℚ)
    (h : Oracle.scores p labels dist util nulls K c = .ok L) :
    ∃ q : ℕ → ℕ → ℕ → Option ℕ → List ℤ,
      (∀ j < nulls.length, ∃ b : Built (Dom.tally (p.nUnits - 1) K c),
          build (Dom.tally (p.nUnits - 1) K c) c p labels (dist.map (·.getD j 0)) = .ok b ∧
          ∀ i < p.nUnits, ∀ tp ∈ boundaryPairs p.data.length, query c b p.data.length i (some tp.1) tp.2 = .ok (q j i tp.1 tp.2)) ∧
      GenN.compute_shapley_add (oracleOf p.nUnits K c q) (unitsOf p.nUnits) (p.data.length : ℤ) (nulls.length : ℤ) ⟨c, nulls.length, util⟩ nulls none (K : ℤ) (c : ℤ)
        = L := by
  obtain ⟨q, hq, hL⟩ := scores_eq_sums p labels dist util nulls K c L h
  refine ⟨q, hq, ?_⟩
  rw [hL]
  exact add_eq_sums p.nUnits p.data.length nulls.length K c q util nulls none (by intro m hm; cases hm)

/-- **C02 for the translated source**: the Shapley value of the mean K-NN game -/
theorem TIEN_C02 (p : Prov.P) (labels : List ℕ) (dist util : List (List ℚ)) (nulls : List ℚ) (K c : ℕ)
    (orders : ℕ → List ℕ) (hK : 1 ≤ K)
    (hconj : Ds.Oracle.Conjunctive p) (hcands : p.nCands = 2) (hn : 2 ≤ p.nUnits)
    (hshape : p.nConj = 1 → OneUnit p)
    (cmp : Compiled (AVal (Dom.tally (p.nUnits - 1) K c))) (hcmp : compile p = .ok cmp)
    (hperm : ∀ j < nulls.length, (orders j).Perm (List.range p.data.length))
    (hsort : ∀ j < nulls.length,
      (orders j).Pairwise (fun r s => (dist.map (·.getD j 0)).getD r 0 < (dist.map (·.getD j 0)).getD s 0))
    (hlab : ∀ r < p.data.length, labels.getD r 0 < c) :
    ∃ (q : ℕ → ℕ → ℕ → Option ℕ → List ℤ) (L : List ℚ),
      (∀ j < nulls.length, ∃ b : Built (Dom.tally (p.nUnits - 1) K c),
          build (Dom.tally (p.nUnits - 1) K c) c p labels (dist.map (·.getD j 0)) = .ok b ∧
          ∀ i < p.nUnits, ∀ tp ∈ boundaryPairs p.data.length, query c b p.data.length i (some tp.1) tp.2 = .ok (q j i tp.1 tp.2)) ∧
      GenN.compute_shapley_add (oracleOf p.nUnits K c q) (unitsOf p.nUnits) (p.data.length : ℤ) (nulls.length : ℤ) ⟨c, nulls.length, util⟩ nulls none (K : ℤ) (c : ℤ)
        = L ∧ L.length = p.nUnits ∧
      ∀ i : Fin p.nUnits, L.getD i.val 0
        = Sh.phiM (fun S => (∑ j ∈ Finset.range nulls.length,
            knnGame p labels (orders j) (util.map (·.getD j 0)) (nulls.getD j 0) K c S)
              / (nulls.length : ℚ)) i := by
  obtain ⟨L, hs, hlen, hphi⟩ := C02_exact p labels dist util nulls K c orders hK hconj hcands hn hshape cmp hcmp hperm hsort hlab
  obtain ⟨q, hq, hgen⟩ := TIEN_add_model p labels dist util nulls K c L hs
  exact ⟨q, L, hq, hgen, hlen, hphi⟩

theorem TIEN_reduce_simple (n : ℤ) (pq : List ℤ → List Bool) (inf : ℚ) (labels : List ℤ) (dist : Np.A2 ℚ) (units world : List ℤ) (nl : ℤ) :
    GenN.get_unit_labels_and_distances true n pq inf labels dist units world nl
      = (⟨dist.r, dist.c, labels.map (fun l => List.replicate dist.c l)⟩, dist) :=
  reduce_simple n pq inf labels dist units world nl

theorem TIEN_reduce (n R nTest c : ℕ) (pq : List ℤ → List Bool) (labels : List ℕ) (dist : List (List ℚ)) (ro : List (List ℕ))
    (hR : dist.length = R) (hlab : labels.length = R) (hrect : ∀ row ∈ dist, row.length = nTest)
    (hpq : ∀ u < n, (pq (oneHot n u)).length = R) (hro : ro = (List.range n).map (fun u => idxOfMask (pq (oneHot n u)))) :
    GenN.get_unit_labels_and_distances false (n : ℤ) pq ((dist.flatten.foldl max 0) + 1) (labels.map (fun k : ℕ => (k : ℤ))) ⟨R, nTest, dist⟩
        (unitsOf n) (List.replicate n (1 : ℤ)) (c : ℤ)
      = (⟨n, nTest, (unitReduce ro labels dist nTest c).1.map (fun row => row.map (fun k : ℕ => (k : ℤ)))⟩,
         ⟨n, nTest, (unitReduce ro labels dist nTest c).2⟩) :=
  reduce_eq_model n R nTest c pq labels dist ro hR hlab hrect hpq hro

/-- `compute_shapley_1nn_mapfork`: the kernel receives the model's reduction, with the null label = number of classes (rows of the utility table) -/
theorem TIEN_mapfork {β : Type} (kernel : Np.A2 ℤ → Np.A2 ℚ → Np.A2 ℚ → List ℚ → β)
    (n R nTest : ℕ) (pq : List ℤ → List Bool) (labels : List ℕ) (dist : List (List ℚ)) (ro : List (List ℕ)) (util : Np.A2 ℚ) (nulls : List ℚ)
    (hR : dist.length = R) (hlab : labels.length = R) (hrect : ∀ row ∈ dist, row.length = nTest)
    (hpq : ∀ u < n, (pq (oneHot n u)).length = R) (hro : ro = (List.range n).map (fun u => idxOfMask (pq (oneHot n u)))) :
    GenN.compute_shapley_1nn_mapfork kernel false (n : ℤ) pq ((dist.flatten.foldl max 0) + 1) (labels.map (fun k : ℕ => (k : ℤ))) ⟨R, nTest, dist⟩
        (unitsOf n) (List.replicate n (1 : ℤ)) util nulls
      = kernel ⟨n, nTest, (unitReduce ro labels dist nTest util.r).1.map (fun row => row.map (fun k : ℕ => (k : ℤ)))⟩
          ⟨n, nTest, (unitReduce ro labels dist nTest util.r).2⟩ util nulls := by
  unfold GenN.compute_shapley_1nn_mapfork
  have h := reduce_eq_model n R nTest util.r pq labels dist ro hR hlab hrect hpq hro
  simp only [Np.shape0]
  rw [h]

theorem TIEN_loop (bsOf : ℤ → ℤ → ℤ) (distance : List ℤ → Np.A2 ℚ) (escore : List ℤ → List ℤ → Np.A2 ℚ) (enull : List ℤ → List ℤ → List ℚ) (maxConj : ℤ)
    (mapfork : Np.A2 ℚ → Np.A2 ℚ → List ℚ → List ℚ) (sadd : Np.A2 ℚ → Np.A2 ℚ → ℤ → ℤ → List ℚ → List ℚ)
    (units yTest : List ℤ) (nTrain nTest k nc : ℤ) :
    GenN.shapley_neighbor_loop bsOf distance escore enull maxConj mapfork sadd units yTest nTrain nTest k nc
      = (Np.range 0 nTest (bsOf nTrain nTest)).foldl (fun acc start =>
          List.zipWith (· + ·) acc (batchTerm distance escore enull maxConj mapfork sadd yTest nTest k nc
            (Np.slice1 (Np.range 0 nTest 1) (some start) (some (start + bsOf nTrain nTest)))))
          (Np.zeros1 (Np.len1 units)) :=
  loop_eq_fold bsOf distance escore enull maxConj mapfork sadd units yTest nTrain nTest k nc

/-- the batch size is the TRANSLATED `get_test_batch_size` with any budget `B`: one batch, the scoring routine's own result -/
theorem TIEN_one_batch (B nTrain nTest : ℕ) (distance : List ℤ → Np.A2 ℚ) (escore : List ℤ → List ℤ → Np.A2 ℚ) (enull : List ℤ → List ℤ → List ℚ) (maxConj : ℤ)
    (mapfork : Np.A2 ℚ → Np.A2 ℚ → List ℚ → List ℚ) (sadd : Np.A2 ℚ → Np.A2 ℚ → ℤ → ℤ → List ℚ → List ℚ)
    (units yTest : List ℤ) (k nc : ℤ) (hn : 0 < nTest) (cur : List ℚ)
    (hcur : cur = (if k = 1 ∧ maxConj = 1 then mapfork (distance (Np.range 0 nTest 1)) (escore (Np.range 0 nTest 1) yTest) (enull (Np.range 0 nTest 1) yTest)
                   else sadd (distance (Np.range 0 nTest 1)) (escore (Np.range 0 nTest 1) yTest) k nc (enull (Np.range 0 nTest 1) yTest)))
    (hlen : cur.length = units.length) :
    GenN.shapley_neighbor_loop (Gen.get_test_batch_size (B : ℤ)) distance escore enull maxConj mapfork sadd units yTest (nTrain : ℤ) (nTest : ℤ) k nc = cur :=
  loop_single_batch (Gen.get_test_batch_size (B : ℤ)) distance escore enull maxConj mapfork sadd units yTest (nTrain : ℤ) nTest k nc hn
    (DsProofs.Tie.TIE_batch_size B nTrain nTest) cur hcur hlen

end DsProofs.TieN
