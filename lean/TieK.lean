import TieK.Properties
