import TieN.Properties
