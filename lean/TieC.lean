import TieC.Properties
