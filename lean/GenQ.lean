import GenQ.Query
