import GenI.Init
