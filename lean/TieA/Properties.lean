import TieA.CallProofs
import DsProofs.Properties.C10
/-!
# TIEA — `ADD.__call__` AS IT IS WRITTEN NOW (`GenA/Call.lean`, regenerated from /repo by `harness/translate_add.py`)

* `TIEA_call`: for every diagram (any value type with `+` and `0`, `self.adder` / `self.child` being the arrays of its levels) and every assignment whose
  entries are candidate indices, the translated `__call__` returns what the model's `Diagram.call` returns — `ValueError` for an assignment of the wrong
  length, otherwise the left-to-right accumulation `evalAcc` along the path from the root — the function `C10_call` is about.
  (An entry ≥ the number of candidates raises IndexError in NumPy; the translated indexing reads a default there, so such entries are excluded.)
-/
open Ds Ds.Dd Ds.GenCall

namespace DsProofs.TieA

theorem TIEA_call {V : Type} [Add V] [Zero V] (d : Diagram V) (args : List ℕ) (hlev : d.levels.length = d.units.length) (hC : ∀ a ∈ args, a < d.C) :
    letI : Inhabited V := ⟨0⟩
    GenA.add_call (· + ·) (0 : V) (d.units.length : Int) (d.root : Int) (adderOf d.levels) (childOf d.levels) (args.map (fun (k : ℕ) => (k : Int)))
      = (d.call args).mapError Err.name :=
  call_eq d args hlev hC

/-! ### non-vacuity: a two-level chain over ℕ with edge values 1,2 / 10,20 -/
example : GenA.add_call (· + ·) (0 : ℕ) 2 0 [[[1, 2]], [[10, 20]]] [[[0, 0]], [[0, 0]]] [1, 0] = .ok 12 := by decide
example : GenA.add_call (· + ·) (0 : ℕ) 2 0 [[[1, 2]], [[10, 20]]] [[[0, 0]], [[0, 0]]] [1] = .error "ValueError" := by decide

end DsProofs.TieA
