import GenA.Call
import Ds.Add
import Tie.NpProofs
/-!
# The translated `ADD.__call__` (`GenA/Call.lean`, regenerated from /repo) equals the model `Ds.Dd.Diagram.call`
-/
open Ds Ds.Dd

namespace Ds.GenCall
variable {V : Type} [Add V] [Zero V]

/-- the arrays `self.adder`, `self.child` of a diagram -/
def adderOf (levels : List (Level V)) : List (List (List V)) := levels.map (fun lv => lv.map (fun nd => nd.adder))
def childOf (levels : List (Level V)) : List (List (List Int)) := levels.map (fun lv => lv.map (fun nd => nd.child.map (fun (k : ℕ) => (k : Int))))

theorem get3_adder (levels : List (Level V)) (i j a : ℕ) :
    letI : Inhabited V := ⟨0⟩
    Np.get3 (adderOf levels) (i : Int) (j : Int) (a : Int) = (nodeAt (levels.getD i []) j).ad a := by
  unfold Np.get3 adderOf nodeAt Node.ad
  simp only [Np.get1_natCast, List.getD_eq_getElem?_getD, List.getElem?_map]
  cases levels[i]? with
  | none => rfl
  | some lv =>
    simp only [Option.map_some, Option.getD_some, List.getElem?_map]
    cases lv[j]? <;> rfl

theorem get3_child (levels : List (Level V)) (i j a : ℕ) :
    Np.get3 (childOf levels) (i : Int) (j : Int) (a : Int) = (((nodeAt (levels.getD i []) j).ch a : ℕ) : Int) := by
  unfold Np.get3 childOf nodeAt Node.ch
  simp only [Np.get1_natCast, List.getD_eq_getElem?_getD, List.getElem?_map]
  cases levels[i]? with
  | none => rfl
  | some lv =>
    simp only [Option.map_some, Option.getD_some, List.getElem?_map]
    cases lv[j]? with
    | none => rfl
    | some nd =>
      simp only [Option.map_some, Option.getD_some, List.getElem?_map]
      cases nd.child[a]? <;> rfl

/-- the loop of the translated `__call__`, started at level `i0` -/
theorem fold_eq (levels : List (Level V)) (args : List ℕ) (i0 : ℕ) (j : ℕ) (acc : V)
    (hlen : args.length = (levels.drop i0).length) :
    letI : Inhabited V := ⟨0⟩
    ((Np.enumerateFrom (i0 : Int) (args.map (fun (k : ℕ) => (k : Int)))).foldl (fun (st_ : V × Int) (ia_ : Int × Int) =>
        ((st_.1 + Np.get3 (adderOf levels) ia_.1 st_.2 ia_.2), Np.get3 (childOf levels) ia_.1 st_.2 ia_.2)) (acc, (j : Int))).1
      = evalAcc (levels.drop i0) j args acc := by
  induction args generalizing i0 j acc with
  | nil =>
    simp only [List.map_nil, Np.enumerateFrom, List.foldl_nil]
    cases levels.drop i0 <;> rfl
  | cons a t ih =>
    cases hd : levels.drop i0 with
    | nil => rw [hd] at hlen; simp at hlen
    | cons lv rest =>
      have hi : i0 < levels.length := by
        by_contra hc
        rw [List.drop_eq_nil_of_le (by omega)] at hd
        exact absurd hd (by simp)
      have hlv : levels.getD i0 [] = lv := by
        have := List.getElem_cons_drop_succ_eq_drop hi
        rw [hd] at this
        simp only [List.getD_eq_getElem?_getD, List.getElem?_eq_getElem hi, Option.getD_some]
        exact (List.cons.inj this).1
      have hrest : levels.drop (i0 + 1) = rest := by
        have := List.getElem_cons_drop_succ_eq_drop hi
        rw [hd] at this
        exact (List.cons.inj this).2
      simp only [List.map_cons, Np.enumerateFrom, List.foldl_cons, evalAcc]
      have e1 : ((i0 : Int) + 1) = ((i0 + 1 : ℕ) : Int) := by push_cast; ring
      rw [get3_adder levels i0 j a, get3_child levels i0 j a, hlv, e1]
      rw [hd] at hlen
      have := ih (i0 + 1) ((nodeAt lv j).ch a) (acc + (nodeAt lv j).ad a) (by rw [hrest]; simpa using hlen)
      rw [hrest] at this
      exact this

/-- **The translated `ADD.__call__` is the model's `call`** (assignment entries below the number of candidates). -/
theorem call_eq (d : Diagram V) (args : List ℕ) (hlev : d.levels.length = d.units.length) (hC : ∀ a ∈ args, a < d.C) :
    letI : Inhabited V := ⟨0⟩
    GenA.add_call (· + ·) (0 : V) (d.units.length : Int) (d.root : Int) (adderOf d.levels) (childOf d.levels) (args.map (fun (k : ℕ) => (k : Int)))
      = (d.call args).mapError Err.name := by
  unfold GenA.add_call Diagram.call
  by_cases hlen : args.length = d.units.length
  · have h1 : ¬ ¬ (Np.len1 (args.map (fun (k : ℕ) => (k : Int))) = (d.units.length : Int)) := by simp [Np.len1, hlen]
    have h2 : (args.length != d.units.length) = false := by simp [hlen]
    have h3 : args.any (· ≥ d.C) = false := by
      rw [List.any_eq_false]
      intro a ha
      have := hC a ha
      simp; omega
    simp only [h1, if_false, h2, Bool.false_eq_true, h3]
    have := fold_eq d.levels args 0 d.root (0 : V) (by simp [hlen, hlev])
    simp only [List.drop_zero, Nat.cast_zero] at this
    simp only [bind, Except.bind, pure, Except.pure, Except.mapError]
    congr 1
  · have h1 : ¬ (Np.len1 (args.map (fun (k : ℕ) => (k : Int))) = (d.units.length : Int)) := by
      simp [Np.len1]; exact_mod_cast hlen
    have h2 : (args.length != d.units.length) = true := by simp [hlen]
    simp only [h1, not_false_eq_true, if_true, h2]
    rfl

end Ds.GenCall
