import GenE.Ops
import GenE.Data
