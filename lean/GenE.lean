import GenE.Ops
