import TieD.Properties
import TieD.Reach
