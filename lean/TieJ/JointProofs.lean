import GenJ.Joint
import Ds.Util
import DsProofs.UtilProofs
import Mathlib.Algebra.BigOperators.Group.List.Basic
import Mathlib.Tactic.Ring
/-!
# The translated methods of `JointUtility` (`GenJ/Joint.lean`, regenerated from /repo) equal the model (`Ds.Util.jointScalar`, `jointElem`, `jointCall`)
Helper lemmas; property-level statements in `TieJ/Properties.lean`.
-/
open Ds.Util

namespace Ds.GenJoint

theorem foldl_add_eq (l : List ℚ) (a : ℚ) : l.foldl (· + ·) a = a + l.sum := by
  induction l generalizing a with
  | nil => simp
  | cons x xs ih => simp only [List.foldl_cons, List.sum_cons]; rw [ih]; ring

theorem sumGen_eq_sum (l : List ℚ) : Np.sumGen l = l.sum := by
  unfold Np.sumGen
  rw [foldl_add_eq]; simp

theorem zipWith_mul {υ : Type} (f : υ → ℚ) (ws : List ℚ) (us : List υ) :
    List.zipWith (fun w u => w * f u) ws us = (ws.zip (us.map f)).map (fun p => p.1 * p.2) := by
  induction ws generalizing us with
  | nil => simp
  | cons w ws ih =>
    cases us with
    | nil => simp
    | cons u us => simp [ih]

/-- the weighted sum written with a generator expression is `jointScalar` -/
theorem sumGen_zipWith {υ : Type} (f : υ → ℚ) (ws : List ℚ) (us : List υ) :
    Np.sumGen (List.zipWith (fun w u => w * f u) ws us) = jointScalar ws (us.map f) := by
  rw [sumGen_eq_sum, zipWith_mul]; rfl

/-! ### element-wise sums of stacked arrays -/

theorem foldl_zipWith_spec (nb : ℕ) (rest : List (List ℚ)) (acc : List ℚ) (hacc : acc.length = nb)
    (h : ∀ v ∈ rest, v.length = nb) :
    (rest.foldl (fun acc x => List.zipWith (· + ·) acc x) acc).length = nb ∧
    ∀ j, j < nb → (rest.foldl (fun acc x => List.zipWith (· + ·) acc x) acc).getD j 0
        = acc.getD j 0 + (rest.map (·.getD j 0)).sum := by
  induction rest generalizing acc with
  | nil => simp [hacc]
  | cons v rest ih =>
    have hv := h v List.mem_cons_self
    have hz : (List.zipWith (· + ·) acc v).length = nb := by simp [hacc, hv]
    obtain ⟨h1, h2⟩ := ih (List.zipWith (· + ·) acc v) hz (fun x hx => h x (List.mem_cons_of_mem _ hx))
    refine ⟨h1, fun j hj => ?_⟩
    simp only [List.foldl_cons, List.map_cons, List.sum_cons]
    rw [h2 j hj]
    have : (List.zipWith (· + ·) acc v).getD j 0 = acc.getD j 0 + v.getD j 0 := by
      simp [List.getD_eq_getElem?_getD, List.getElem?_zipWith, List.getElem?_eq_getElem (hacc ▸ hj : j < acc.length),
        List.getElem?_eq_getElem (hv ▸ hj : j < v.length)]
    rw [this]; ring

theorem sumAxis0V_spec (nb : ℕ) (vs : List (List ℚ)) (hne : vs ≠ []) (h : ∀ v ∈ vs, v.length = nb) :
    (Np.sumAxis0V vs).length = nb ∧ ∀ j, j < nb → (Np.sumAxis0V vs).getD j 0 = (vs.map (·.getD j 0)).sum := by
  cases vs with
  | nil => exact absurd rfl hne
  | cons v rest =>
    obtain ⟨h1, h2⟩ := foldl_zipWith_spec nb rest v (h v List.mem_cons_self) (fun x hx => h x (List.mem_cons_of_mem _ hx))
    exact ⟨h1, fun j hj => by simp only [Np.sumAxis0V, List.map_cons, List.sum_cons]; exact h2 j hj⟩

theorem foldl_zipWith2_spec (C : ℕ) (rest : List (List (List ℚ))) (acc : List (List ℚ)) (hacc : acc.length = C)
    (h : ∀ m ∈ rest, m.length = C) :
    (rest.foldl (fun acc x => List.zipWith (fun r s => List.zipWith (· + ·) r s) acc x) acc).length = C ∧
    ∀ c, c < C → (rest.foldl (fun acc x => List.zipWith (fun r s => List.zipWith (· + ·) r s) acc x) acc).getD c []
        = (rest.map (·.getD c [])).foldl (fun a x => List.zipWith (· + ·) a x) (acc.getD c []) := by
  induction rest generalizing acc with
  | nil => simp [hacc]
  | cons m rest ih =>
    have hm := h m List.mem_cons_self
    have hz : (List.zipWith (fun r s => List.zipWith (· + ·) r s) acc m).length = C := by simp [hacc, hm]
    obtain ⟨h1, h2⟩ := ih _ hz (fun x hx => h x (List.mem_cons_of_mem _ hx))
    refine ⟨h1, fun c hc => ?_⟩
    simp only [List.foldl_cons, List.map_cons]
    rw [h2 c hc]
    congr 1
    simp [List.getD_eq_getElem?_getD, List.getElem?_zipWith, List.getElem?_eq_getElem (hacc ▸ hc : c < acc.length),
      List.getElem?_eq_getElem (hm ▸ hc : c < m.length)]

theorem sumAxis0M_row (C : ℕ) (ms : List (List (List ℚ))) (hne : ms ≠ []) (h : ∀ m ∈ ms, m.length = C) :
    (Np.sumAxis0M ms).length = C ∧ ∀ c, c < C → (Np.sumAxis0M ms).getD c [] = Np.sumAxis0V (ms.map (·.getD c [])) := by
  cases ms with
  | nil => exact absurd rfl hne
  | cons m rest =>
    obtain ⟨h1, h2⟩ := foldl_zipWith2_spec C rest m (h m List.mem_cons_self) (fun x hx => h x (List.mem_cons_of_mem _ hx))
    exact ⟨h1, fun c hc => by simp only [Np.sumAxis0M, Np.sumAxis0V, List.map_cons]; exact h2 c hc⟩

theorem getD_smul1 (w : ℚ) (v : List ℚ) (j : ℕ) : (Np.smul1 w v).getD j 0 = w * v.getD j 0 := by
  unfold Np.smul1
  simp only [List.getD_eq_getElem?_getD, List.getElem?_map]
  cases v[j]? <;> simp

theorem map_getD_zipWith_smul1 {υ : Type} (f : υ → List ℚ) (ws : List ℚ) (us : List υ) (j : ℕ) :
    (List.zipWith (fun w u => Np.smul1 w (f u)) ws us).map (·.getD j 0)
      = List.zipWith (fun w u => w * (f u).getD j 0) ws us := by
  induction ws generalizing us with
  | nil => simp
  | cons w ws ih =>
    cases us with
    | nil => simp
    | cons u us =>
      simp only [List.zipWith_cons_cons, List.map_cons]
      rw [ih us, getD_smul1]

theorem ext_getD' {l₁ l₂ : List ℚ} {n : ℕ} (h₁ : l₁.length = n) (h₂ : l₂.length = n)
    (h : ∀ u, u < n → l₁.getD u 0 = l₂.getD u 0) : l₁ = l₂ := by
  apply List.ext_getElem (by rw [h₁, h₂])
  intro i hi₁ hi₂
  have := h i (by omega)
  simpa [List.getD_eq_getElem?_getD, List.getElem?_eq_getElem hi₁, List.getElem?_eq_getElem hi₂] using this

/-- the stacked weighted vectors summed along axis 0: entry `j` is `jointScalar` of the components' entries `j` -/
theorem sumAxis0V_zipWith {υ : Type} (f : υ → List ℚ) (nb : ℕ) (ws : List ℚ) (us : List υ)
    (hw : ws.length = us.length) (hne : us ≠ []) (hf : ∀ u ∈ us, (f u).length = nb) :
    Np.sumAxis0V (List.zipWith (fun w u => Np.smul1 w (f u)) ws us)
      = (List.range nb).map (fun j => jointScalar ws (us.map (fun u => (f u).getD j 0))) := by
  have hne' : List.zipWith (fun w u => Np.smul1 w (f u)) ws us ≠ [] := by
    cases ws with
    | nil => cases us with
      | nil => exact absurd rfl hne
      | cons u us => simp at hw
    | cons w ws => cases us with
      | nil => exact absurd rfl hne
      | cons u us => simp
  have hlen : ∀ v ∈ List.zipWith (fun w u => Np.smul1 w (f u)) ws us, v.length = nb := by
    intro v hv
    rw [List.mem_iff_getElem] at hv
    obtain ⟨i, hi, rfl⟩ := hv
    simp only [List.getElem_zipWith, Np.smul1, List.length_map]
    exact hf _ (List.getElem_mem _)
  obtain ⟨h1, h2⟩ := sumAxis0V_spec nb _ hne' hlen
  apply ext_getD' h1 (by simp)
  intro j hj
  rw [h2 j hj, map_getD_zipWith_smul1, ← sumGen_eq_sum, sumGen_zipWith]
  simp [List.getD_eq_getElem?_getD, hj]

end Ds.GenJoint

namespace Ds.GenJoint

theorem getD_smul2 (w : ℚ) (m : List (List ℚ)) (c : ℕ) : (Np.smul2 w m).getD c [] = Np.smul1 w (m.getD c []) := by
  unfold Np.smul2 Np.smul1
  simp only [List.getD_eq_getElem?_getD, List.getElem?_map]
  cases m[c]? <;> simp

theorem map_getD_zipWith_smul2 {υ : Type} (f : υ → List (List ℚ)) (ws : List ℚ) (us : List υ) (c : ℕ) :
    (List.zipWith (fun w u => Np.smul2 w (f u)) ws us).map (·.getD c [])
      = List.zipWith (fun w u => Np.smul1 w ((f u).getD c [])) ws us := by
  induction ws generalizing us with
  | nil => simp
  | cons w ws ih =>
    cases us with
    | nil => simp
    | cons u us =>
      simp only [List.zipWith_cons_cons, List.map_cons]
      rw [ih us, getD_smul2]

/-- the stacked weighted tables summed along axis 0 are `jointElem` -/
theorem sumAxis0M_zipWith {υ : Type} (f : υ → List (List ℚ)) (C nb : ℕ) (ws : List ℚ) (us : List υ)
    (hw : ws.length = us.length) (hne : us ≠ []) (hf : ∀ u ∈ us, (f u).length = C ∧ ∀ row ∈ f u, row.length = nb) :
    Np.sumAxis0M (List.zipWith (fun w u => Np.smul2 w (f u)) ws us) = jointElem ws (us.map f) := by
  have hne' : List.zipWith (fun w u => Np.smul2 w (f u)) ws us ≠ [] := by
    cases ws with
    | nil => cases us with
      | nil => exact absurd rfl hne
      | cons u us => simp at hw
    | cons w ws => cases us with
      | nil => exact absurd rfl hne
      | cons u us => simp
  have hlen : ∀ m ∈ List.zipWith (fun w u => Np.smul2 w (f u)) ws us, m.length = C := by
    intro m hm
    rw [List.mem_iff_getElem] at hm
    obtain ⟨i, hi, rfl⟩ := hm
    simp only [List.getElem_zipWith, Np.smul2, List.length_map]
    exact (hf _ (List.getElem_mem _)).1
  obtain ⟨h1, h2⟩ := sumAxis0M_row C _ hne' hlen
  -- the model side, spelled out
  have hmodel : jointElem ws (us.map f)
      = (List.range C).map (fun c => (List.range nb).map (fun j => jointScalar ws (us.map (fun u => ((f u).getD c []).getD j 0)))) := by
    cases us with
    | nil => exact absurd rfl hne
    | cons u0 us' =>
      obtain ⟨hC, hrow⟩ := hf u0 List.mem_cons_self
      simp only [List.map_cons, jointElem, hC]
      apply List.map_congr_left
      intro c hc
      have hc' : c < C := List.mem_range.mp hc
      have hr : ((f u0).getD c []).length = nb := by
        apply hrow
        simp only [List.getD_eq_getElem?_getD, List.getElem?_eq_getElem (hC ▸ hc' : c < (f u0).length), Option.getD_some]
        exact List.getElem_mem _
      rw [hr]
      apply List.map_congr_left
      intro j _
      simp [List.map_map, Function.comp_def]
  rw [hmodel]
  apply List.ext_getElem
  · simp [h1]
  · intro c hc1 hc2
    have hc : c < C := by simpa using hc2
    have e1 : (Np.sumAxis0M (List.zipWith (fun w u => Np.smul2 w (f u)) ws us))[c]
        = (Np.sumAxis0M (List.zipWith (fun w u => Np.smul2 w (f u)) ws us)).getD c [] := by
      simp [List.getD_eq_getElem?_getD, List.getElem?_eq_getElem hc1]
    rw [e1, h2 c hc, map_getD_zipWith_smul2,
      sumAxis0V_zipWith (fun u => (f u).getD c []) nb ws us hw hne]
    · simp
    · intro u hu
      obtain ⟨hC, hrow⟩ := hf u hu
      apply hrow
      simp only [List.getD_eq_getElem?_getD, List.getElem?_eq_getElem (hC ▸ hc : c < (f u).length), Option.getD_some]
      exact List.getElem_mem _

end Ds.GenJoint
