import TieJ.JointProofs
import DsProofs.Properties.C08Joint
/-!
# TIEJ — theorems about `JointUtility` AS IT IS WRITTEN NOW (`GenJ/Joint.lean`, regenerated from /repo by `harness/translate_joint.py`)

Component utilities are opaque: `call_m u args` is what calling method `m` of component `u` with the forwarded arguments `args`
(position / keyword ↦ opaque value) returns.

* `TIEJ_null_score`, `TIEJ_mean_score`: the translated methods are `jointScalar weights (components' values)`, every component being called
  with exactly the arguments the joint method received (positions 0–3, `metadata_train`, `metadata_test`, and for `mean_score` also
  `maxiter` and `seed`) — so all of `C08_joint_scalar_*` (linearity, no normalisation) hold of the source.
* `TIEJ_elementwise_score`, `TIEJ_elementwise_null_score`: the translated methods are `jointElem` / the weighted vector sum `combVec`
  (for ≥ 1 component, tables of one shape) — the objects `C08_joint_elem`, `C08_joint_kernel` are about.
* `TIEJ_call`: the translated `__call__` calls every component with `null_score = NaN` and the caller's `seed`, and returns
  `jointCall`: the supplied null score when some component's score is NaN, the weighted sum otherwise (`C08_joint_call`).
-/
open Ds.Util Ds.GenJoint

namespace DsProofs.TieJ
variable {υ R Arg : Type}

theorem TIEJ_null_score (ws : List ℚ) (us : List υ) (call : υ → List (String × Arg) → ℚ) (a0 a1 a2 a3 mtr mte : Arg) :
    GenJ.null_score (R := R) ws us call a0 a1 a2 a3 mtr mte
      = jointScalar ws (us.map (fun u => call u [("0", a0), ("1", a1), ("2", a2), ("3", a3), ("metadata_train", mtr), ("metadata_test", mte)])) := by
  unfold GenJ.null_score
  exact sumGen_zipWith _ ws us

theorem TIEJ_mean_score (ws : List ℚ) (us : List υ) (call : υ → List (String × Arg) → ℚ) (a0 a1 a2 a3 mtr mte maxiter seed : Arg) :
    GenJ.mean_score (R := R) ws us call a0 a1 a2 a3 mtr mte maxiter seed
      = jointScalar ws (us.map (fun u => call u [("0", a0), ("1", a1), ("2", a2), ("3", a3), ("metadata_train", mtr), ("metadata_test", mte),
          ("maxiter", maxiter), ("seed", seed)])) := by
  unfold GenJ.mean_score
  exact sumGen_zipWith _ ws us

theorem TIEJ_elementwise_score (C nb : ℕ) (ws : List ℚ) (us : List υ) (call : υ → List (String × Arg) → List (List ℚ))
    (a0 a1 a2 a3 mtr mte : Arg) (hw : ws.length = us.length) (hne : us ≠ [])
    (hshape : ∀ u ∈ us, ∀ args, (call u args).length = C ∧ ∀ row ∈ call u args, row.length = nb) :
    GenJ.elementwise_score (R := R) ws us call a0 a1 a2 a3 mtr mte
      = jointElem ws (us.map (fun u => call u [("0", a0), ("1", a1), ("2", a2), ("3", a3), ("metadata_train", mtr), ("metadata_test", mte)])) := by
  unfold GenJ.elementwise_score
  exact sumAxis0M_zipWith _ C nb ws us hw hne (fun u hu => hshape u hu _)

theorem TIEJ_elementwise_null_score (nb : ℕ) (ws : List ℚ) (us : List υ) (call : υ → List (String × Arg) → List ℚ)
    (a0 a1 a2 a3 mtr mte : Arg) (hw : ws.length = us.length) (hne : us ≠ [])
    (hshape : ∀ u ∈ us, ∀ args, (call u args).length = nb) :
    GenJ.elementwise_null_score (R := R) ws us call a0 a1 a2 a3 mtr mte
      = combVec nb ws (us.map (fun u => call u [("0", a0), ("1", a1), ("2", a2), ("3", a3), ("metadata_train", mtr), ("metadata_test", mte)])) := by
  unfold GenJ.elementwise_null_score combVec
  rw [sumAxis0V_zipWith _ nb ws us hw hne (fun u hu => hshape u hu _)]
  simp [List.map_map, Function.comp_def]

/-- a component result as the model sees it: `none` = its score is NaN -/
def optScore (score_of : R → ℚ) (isnan : ℚ → Bool) (r : R) : Option ℚ := if isnan (score_of r) then none else some (score_of r)

theorem TIEJ_call (ws : List ℚ) (us : List υ) (comp : υ → List (String × Arg) → R) (score_of : R → ℚ) (isnan : ℚ → Bool)
    (selfNull : List (String × Arg) → ℚ) (cnan a0 a1 a2 a3 mtr mte seed : Arg) (null : ℚ) :
    GenJ.call ws us comp score_of isnan selfNull cnan a0 a1 a2 a3 mtr mte (some null) seed
      = jointCall ws ((us.map (fun u => comp u [("0", a0), ("1", a1), ("2", a2), ("3", a3), ("metadata_train", mtr), ("metadata_test", mte),
          ("null_score", cnan), ("seed", seed)])).map (optScore score_of isnan)) null := by
  unfold GenJ.call jointCall
  simp only []
  generalize us.map (fun u => comp u [("0", a0), ("1", a1), ("2", a2), ("3", a3), ("metadata_train", mtr), ("metadata_test", mte),
          ("null_score", cnan), ("seed", seed)]) = rs
  have hany : (List.any (List.map (fun x => isnan (score_of x)) rs) id) = (rs.map (optScore score_of isnan)).any Option.isNone := by
    simp only [List.any_map]
    congr 1
    funext r
    simp only [Function.comp, id, optScore]
    split_ifs with h <;> simp [h]
  rw [hany]
  split_ifs with h
  · rfl
  · rw [sumGen_zipWith]
    congr 1
    rw [List.map_map]
    apply List.map_congr_left
    intro r hr
    have : isnan (score_of r) = false := by
      by_contra hc
      apply h
      rw [List.any_eq_true]
      refine ⟨optScore score_of isnan r, List.mem_map_of_mem hr, ?_⟩
      simp only [optScore]
      simp at hc
      simp [hc]
    simp [optScore, this]

/-- without a supplied null score the translated `__call__` falls back to the joint utility's own `null_score` with the caller's data arguments -/
theorem TIEJ_call_none (ws : List ℚ) (us : List υ) (comp : υ → List (String × Arg) → R) (score_of : R → ℚ) (isnan : ℚ → Bool)
    (selfNull : List (String × Arg) → ℚ) (cnan a0 a1 a2 a3 mtr mte seed : Arg)
    (h : ∃ u ∈ us, isnan (score_of (comp u [("0", a0), ("1", a1), ("2", a2), ("3", a3), ("metadata_train", mtr), ("metadata_test", mte),
          ("null_score", cnan), ("seed", seed)])) = true) :
    GenJ.call ws us comp score_of isnan selfNull cnan a0 a1 a2 a3 mtr mte none seed
      = selfNull [("0", a0), ("1", a1), ("2", a2), ("3", a3), ("metadata_train", mtr), ("metadata_test", mte)] := by
  unfold GenJ.call
  simp only []
  obtain ⟨u, hu, hnan⟩ := h
  rw [if_pos]
  rw [List.any_eq_true]
  exact ⟨true, by simp only [List.mem_map]; exact ⟨_, ⟨u, hu, rfl⟩, hnan⟩, rfl⟩

/-! ### non-vacuity: two components, weights 2 and -1/2 (not normalised) -/
example : GenJ.null_score (R := Unit) (Arg := Unit) [2, -1/2] [3, 4] (fun (u : ℚ) _ => u) () () () () () () = 4 := by
  decide +kernel

example : GenJ.elementwise_score (R := Unit) (Arg := Unit) [2, -1/2] [1, 4] (fun (u : ℚ) _ => [[u, 0], [0, u]]) () () () () () ()
    = [[0, 0], [0, 0]] := by decide +kernel

example : GenJ.call (Arg := Unit) [2, -1/2] [3, 4] (fun (u : ℚ) _ => u) id (fun x => x == 4) (fun _ => 7) () () () () () () () (some 9) () = 9 := by
  decide +kernel

end DsProofs.TieJ
