import GenN.Neighbor
