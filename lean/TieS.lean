import TieS.Properties
