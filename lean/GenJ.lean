import GenJ.Joint
