import TieB.Properties
