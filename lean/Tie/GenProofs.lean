import Gen.Kernel
import Tie.GenLoop
/-!
# The translated kernels (`Gen/Kernel.lean`, regenerated from /repo on every run) equal the hand-written model

`shape` is the common form the two generated definitions reduce to after unfolding; `shape_eq_model` proves that form equal to
`Ds.Kernel.importances`; `py_eq_model` / `cy_eq_model` instantiate it for the generated text.  Helper lemmas; the property-level
statements are in `DsProofs/Properties/Tie.lean`.
-/
open Finset
namespace Ds.GenKernel
open Ds.Kernel Ds.GenLoop

/-- the common shape of the two translated kernels: `idx i j` = unit of rank `i` for point `j` (rank `n` = the sentinel),
`lab u j` = label of unit `u` (the sentinel's label is the null class), `ut l j` = utility of class `l` (null class: null score) -/
def shape {α : Type} [Inhabited α] [Add α] [Sub α] [Mul α] [Div α] [Neg α] [NatCast α]
    (n m : ℕ) (idx lab : Int → Int → Int) (ut : Int → Int → α) : List α :=
  Np.divS
    (Np.slice1
      (List.foldl
        (fun st_ j =>
          (List.foldl
            (fun st_ i =>
              (st_.1 + (ut (lab (idx i j) j) j - ut (lab (idx (i + 1) j) j) j) / Np.ofInt (i + 1),
                Np.set1 st_.2 (idx i j)
                  (Np.get1 st_.2 (idx i j) + (st_.1 + (ut (lab (idx i j) j) j - ut (lab (idx (i + 1) j) j) j) / Np.ofInt (i + 1)))))
            (Np.ofInt 0, st_) (Np.range ((n : Int) - 1) (-1) (-1))).2)
        (Np.zeros1 ((n : Int) + 1)) (Np.range 0 (m : Int) 1))
      none (some (-1)))
    (Np.ofInt (m : Int))

/-- the shape only looks at `idx` at ranks `0 … n` and points `0 … m-1` (any scalar type, no algebraic law used) -/
theorem shape_congr {α : Type} [Inhabited α] [Add α] [Sub α] [Mul α] [Div α] [Neg α] [NatCast α]
    (n m : ℕ) (idx idx' lab : Int → Int → Int) (ut : Int → Int → α)
    (h : ∀ j, j < m → ∀ k, k ≤ n → idx (k : Int) (j : Int) = idx' (k : Int) (j : Int)) :
    shape n m idx lab ut = shape n m idx' lab ut := by
  unfold shape
  rw [Np.range_up, Np.range_down, List.foldl_map, List.foldl_map]
  congr 2
  apply List.foldl_ext
  intro st j hj
  have hj' := List.mem_range.mp hj
  rw [List.foldl_map, List.foldl_map]
  congr 1
  apply List.foldl_ext
  intro s k hk
  have hk' : k < n := by simpa using hk
  have e1 : ((k : Int) + 1) = ((k + 1 : ℕ) : Int) := by push_cast; ring
  rw [e1, h j hj' k (by omega), h j hj' (k + 1) (by omega)]

theorem set_getD_eq_modify (l : List ℚ) (k : ℕ) (c : ℚ) : l.set k (l.getD k default + c) = l.modify k (· + c) := by
  apply List.ext_getElem?
  intro i
  rw [List.getElem?_set, List.getElem?_modify]
  by_cases h : k = i
  · subst h
    simp only [if_true]
    by_cases hk : k < l.length
    · simp [hk, List.getD_eq_getElem?_getD]
    · simp [hk]
  · simp [h]

theorem getD_append_lt {β : Type} (l r : List β) (k : ℕ) (d : β) (h : k < l.length) : (l ++ r).getD k d = l.getD k d := by
  simp only [List.getD_eq_getElem?_getD, List.getElem?_append_left h]

theorem getD_append_len {β : Type} (l : List β) (x d : β) : (l ++ [x]).getD l.length d = x := by
  simp [List.getD_eq_getElem?_getD]

theorem cols_eq_map (m : ℕ) (fl fo : ℕ → List ℕ) (fu : ℕ → List ℚ) (nulls : List ℚ) (hn : nulls.length = m) :
    cols ((List.range m).map fl) ((List.range m).map fo) ((List.range m).map fu) nulls
      = (List.range m).map (fun j => (fl j, fo j, fu j, nulls.getD j 0)) := by
  apply List.ext_getElem
  · simp [cols, List.length_zip, hn]
  · intro i h1 h2
    simp only [List.length_map, List.length_range] at h2
    simp [cols, List.getD_eq_getElem?_getD, List.getElem?_eq_getElem (hn ▸ h2 : i < nulls.length)]

theorem shape_eq_model (n m C : ℕ) (idx lab : Int → Int → Int) (ut : Int → Int → ℚ)
    (fl fo : ℕ → List ℕ) (fu : ℕ → List ℚ) (nulls : List ℚ) (hn : nulls.length = m)
    (hperm : ∀ j, j < m → isPerm n (fo j) = true)
    (hfl : ∀ j, j < m → (fl j).length = n ∧ ∀ l ∈ fl j, l ≤ C)
    (hfu : ∀ j, j < m → (fu j).length = C)
    (hidx : ∀ j, j < m → ∀ k, k ≤ n → idx (k : Int) (j : Int) = (((fo j ++ [n]).getD k 0 : ℕ) : Int))
    (hlab : ∀ j, j < m → ∀ u, u ≤ n → lab (u : Int) (j : Int) = (((fl j ++ [C]).getD u 0 : ℕ) : Int))
    (hut : ∀ j, j < m → ∀ l, l ≤ C → ut (l : Int) (j : Int) = (fu j).getD l (nulls.getD j 0)) :
    shape n m idx lab ut = importances n ((List.range m).map fl) ((List.range m).map fo) ((List.range m).map fu) nulls := by
  unfold shape
  rw [Np.range_up, Np.range_down, List.foldl_map]
  -- the body of the outer loop is `pointAccum`
  have hbody : ∀ (st : List ℚ), ∀ j ∈ List.range m,
      (List.foldl
            (fun st_ i =>
              (st_.1 + (ut (lab (idx i j) j) j - ut (lab (idx (i + 1) j) j) j) / Np.ofInt (i + 1),
                Np.set1 st_.2 (idx i j)
                  (Np.get1 st_.2 (idx i j) + (st_.1 + (ut (lab (idx i j) j) j - ut (lab (idx (i + 1) j) j) j) / Np.ofInt (i + 1)))))
            ((Np.ofInt 0 : ℚ), st) ((List.range n).reverse.map (fun k : ℕ => (k : Int)))).2
        = pointAccum st (fl j) (fo j) (fu j) (nulls.getD j 0) := by
    intro st j hj
    have hj' := List.mem_range.mp hj
    have hlen := isPerm_length (hperm j hj')
    rw [List.foldl_map]
    set w : ℕ → ℚ := fun t => ut (lab (idx (t : Int) (j : Int)) (j : Int)) (j : Int) with hw
    set o : ℕ → ℕ := fun t => (fo j ++ [n]).getD t 0 with ho
    have hstep : ∀ (s : ℚ × List ℚ), ∀ k ∈ (List.range n).reverse,
        (s.1 + (ut (lab (idx (k : Int) j) j) j - ut (lab (idx ((k : Int) + 1) j) j) j) / Np.ofInt ((k : Int) + 1),
                Np.set1 s.2 (idx (k : Int) j)
                  (Np.get1 s.2 (idx (k : Int) j) + (s.1 + (ut (lab (idx (k : Int) j) j) j - ut (lab (idx ((k : Int) + 1) j) j) j) / Np.ofInt ((k : Int) + 1))))
          = revBody w o s k := by
      intro s k hk
      have hk' : k < n := by simpa using hk
      have e1 : ((k : Int) + 1) = ((k + 1 : ℕ) : Int) := by push_cast; ring
      unfold revBody
      simp only [hw, ho]
      rw [hidx j hj' k (by omega), Np.ofInt_natCast_succ, Np.set1_natCast, Np.get1_natCast, set_getD_eq_modify, e1]
    have hz : (Np.ofInt 0 : ℚ) = 0 := by simp [Np.ofInt]
    rw [List.foldl_ext _ _ _ hstep, hz, ← hlen]
    apply revLoop_pointAccum
    · intro t ht
      rw [hlen] at ht
      simp only [hw]
      rw [hidx j hj' t ht]
      by_cases htn : t < n
      · have hmem : (fo j).getD t 0 < n := by
          rw [← isPerm_mem (hperm j hj')]; exact getD_mem (by omega)
        have e2 : (fo j ++ [n]).getD t 0 = (fo j).getD t 0 := getD_append_lt _ _ _ _ (by omega)
        rw [e2, hlab j hj' _ (by omega)]
        have e3 : (fl j ++ [C]).getD ((fo j).getD t 0) 0 = (fl j).getD ((fo j).getD t 0) 0 :=
          getD_append_lt _ _ _ _ (by rw [(hfl j hj').1]; exact hmem)
        have hle : (fl j).getD ((fo j).getD t 0) 0 ≤ C :=
          (hfl j hj').2 _ (getD_mem' _ _ (by rw [(hfl j hj').1]; exact hmem))
        rw [e3, hut j hj' _ hle]
        have e4 : (usOf (fl j) (fo j) (fu j) (nulls.getD j 0) ++ [nulls.getD j 0]).getD t 0
            = (fu j).getD ((fl j).getD ((fo j).getD t 0) 0) (nulls.getD j 0) := by
          rw [usOf_append_getD _ _ _ _ _ (by omega)]
        rw [e4]
      · have htn' : t = n := by omega
        subst htn'
        have e2 : (fo j ++ [t]).getD t 0 = t := by
          have := getD_append_len (fo j) t 0
          rwa [hlen] at this
        rw [e2, hlab j hj' t (le_refl _)]
        have e3 : (fl j ++ [C]).getD t 0 = C := by
          have := getD_append_len (fl j) C 0
          rwa [(hfl j hj').1] at this
        rw [e3, hut j hj' C (le_refl _)]
        have e4 := usOf_append_getD_last (fl j) (fo j) (fu j) (nulls.getD j 0)
        rw [hlen] at e4
        rw [e4]
        simp [List.getD_eq_getElem?_getD, List.getElem?_eq_none (by rw [hfu j hj'] : (fu j).length ≤ C)]
    · intro t ht
      simp only [ho]
      exact getD_append_lt _ _ _ _ ht
  rw [List.foldl_ext _ _ _ hbody]
  -- both sides slot by slot
  have hfold : ∀ (init : List ℚ),
      List.foldl (fun st j => pointAccum st (fl j) (fo j) (fu j) (nulls.getD j 0)) init (List.range m)
        = List.foldl (fun a (c : Col) => pointAccum a c.1 c.2.1 c.2.2.1 c.2.2.2) init
            (cols ((List.range m).map fl) ((List.range m).map fo) ((List.range m).map fu) nulls) := by
    intro init
    rw [cols_eq_map _ _ _ _ _ hn, List.foldl_map]
  rw [hfold]
  have e5 : ((n : Int) + 1) = ((n + 1 : ℕ) : Int) := by push_cast; ring
  rw [e5, Np.zeros1_natCast, Np.slice1_dropLast, Np.ofInt_natCast]
  apply ext_getD (n := n)
  · simp [Np.divS, foldl_pointAccum_length]
  · exact importances_length _ _ _ _ _
  · intro u hu
    rw [importances_getD_list _ _ _ _ _ _ hu]
    unfold Np.divS
    rw [getD_map_div]
    have hdl : ∀ (l : List ℚ), l.length = n + 1 → l.dropLast.getD u 0 = l.getD u 0 := by
      intro l hl
      simp only [List.getD_eq_getElem?_getD, List.getElem?_dropLast]
      rw [if_pos (by omega)]
    rw [hdl _ (by rw [foldl_pointAccum_length]; simp),
      foldl_pointAccum_getD _ _ _ (by simp; omega), getD_replicate_zero, zero_add,
      cols_length_eq (m := m) (by simp) (by simp) (by simp) hn]


/-- the kernel's arguments at the level of naturals (what the calling code guarantees: labels are class indices, the null class
`C` for a unit without rows) -/
structure In where
  n : ℕ
  m : ℕ
  C : ℕ
  labels : List (List ℕ)
  dist : List (List ℚ)
  util : List (List ℚ)
  nulls : List ℚ

def In.L (x : In) : Np.A2 Int := ⟨x.n, x.m, x.labels.map (fun row => row.map (fun k : ℕ => (k : Int)))⟩
def In.D (x : In) : Np.A2 ℚ := ⟨x.n, x.m, x.dist⟩
def In.U (x : In) : Np.A2 ℚ := ⟨x.C, x.m, x.util⟩
/-- column `j` of the label / utility matrices: what the hand-written model is given for validation point `j` -/
def In.labelCol (x : In) (j : ℕ) : List ℕ := x.labels.map (fun row => row.getD j 0)
def In.utilCol (x : In) (j : ℕ) : List ℚ := x.util.map (fun row => row.getD j 0)

structure In.WF (x : In) (sorter : List ℚ → List Int) (ord : ℕ → List ℕ) : Prop where
  hl : x.labels.length = x.n
  hlr : ∀ row ∈ x.labels, row.length = x.m
  hu : x.util.length = x.C
  hn : x.nulls.length = x.m
  hlab : ∀ row ∈ x.labels, ∀ l ∈ row, l ≤ x.C
  /-- `argsort` of column `j` of the distances returned the permutation `ord j` (any permutation: ties are whatever it chose) -/
  hsort : ∀ j, j < x.m → sorter (Np.col x.D (j : Int)) = (ord j).map (fun k : ℕ => (k : Int)) ∧ isPerm x.n (ord j) = true

theorem getD_map_cast (l : List ℕ) (k : ℕ) : (l.map (fun k : ℕ => (k : Int))).getD k default = ((l.getD k 0 : ℕ) : Int) := by
  simp only [List.getD_eq_getElem?_getD, List.getElem?_map]
  cases l[k]? <;> rfl

theorem In.hlab_spec (x : In) {sorter ord} (h : x.WF sorter ord) (j : ℕ) (hj : j < x.m) (u : ℕ) (hu : u ≤ x.n) :
    Np.get2 (Np.vstack1 x.L (Np.rep (x.C : Int) (x.m : Int))) (u : Int) (j : Int)
      = (((x.labelCol j ++ [x.C]).getD u 0 : ℕ) : Int) := by
  rw [Np.get2_natCast]
  simp only [Np.vstack1, In.L, Np.rep_natCast]
  by_cases hun : u < x.n
  · rw [getD_append_lt _ _ _ _ (by simp [h.hl, hun]), getD_append_lt _ _ _ _ (by simp [In.labelCol, h.hl, hun])]
    simp only [In.labelCol, List.getD_eq_getElem?_getD, List.getElem?_map]
    have : u < x.labels.length := by rw [h.hl]; exact hun
    rw [List.getElem?_eq_getElem this]
    simp only [Option.map_some, Option.getD_some, List.getElem?_map]
    cases (x.labels[u])[j]? <;> rfl
  · have hu' : u = x.n := by omega
    subst hu'
    have e1 := getD_append_len (x.labels.map (fun row => row.map (fun k : ℕ => (k : Int)))) (List.replicate x.m (x.C : Int)) []
    rw [List.length_map, h.hl] at e1
    have e2 := getD_append_len (x.labelCol j) x.C 0
    simp only [In.labelCol, List.length_map, h.hl] at e2
    simp only [In.labelCol]
    rw [e1, e2]
    simp [List.getD_eq_getElem?_getD, hj]

theorem In.hut_spec (x : In) {sorter ord} (h : x.WF sorter ord) (j : ℕ) (l : ℕ) (hl : l ≤ x.C) :
    Np.get2 (Np.vstack1 x.U x.nulls) (l : Int) (j : Int) = (x.utilCol j).getD l (x.nulls.getD j 0) := by
  rw [Np.get2_natCast]
  simp only [Np.vstack1, In.U]
  by_cases hlc : l < x.C
  · rw [getD_append_lt _ _ _ _ (by rw [h.hu]; exact hlc)]
    simp only [In.utilCol, List.getD_eq_getElem?_getD, List.getElem?_map]
    have : l < x.util.length := by rw [h.hu]; exact hlc
    rw [List.getElem?_eq_getElem this]
    simp only [Option.map_some, Option.getD_some]
    cases (x.util[l])[j]? <;> rfl
  · have hl' : l = x.C := by omega
    subst hl'
    have e1 := getD_append_len x.util x.nulls []
    rw [h.hu] at e1
    rw [e1]
    have : (x.utilCol j).length ≤ x.C := by simp [In.utilCol, h.hu]
    simp only [List.getD_eq_getElem?_getD]
    rw [List.getElem?_eq_none this]
    rfl

/-- **The translated reference kernel (`shapley.py:compute_all_importances`) is the model.** -/
theorem py_eq_model (x : In) (sorter : List ℚ → List Int) (narrow : ℚ → ℚ) (ord : ℕ → List ℕ) (h : x.WF sorter ord) :
    Gen.compute_all_importances sorter narrow x.L x.D x.U x.nulls
      = importances x.n ((List.range x.m).map x.labelCol) ((List.range x.m).map ord) ((List.range x.m).map x.utilCol) x.nulls := by
  unfold Gen.compute_all_importances
  simp only [Np.shape0, Np.shape1]
  show shape x.n x.m (fun i j => Np.get1 (Np.append1 (sorter (Np.col x.D j)) [(x.n : Int)]) i)
      (fun u j => Np.get2 (Np.vstack1 x.L (Np.rep (x.C : Int) (x.m : Int))) u j)
      (fun l j => Np.get2 (Np.vstack1 x.U x.nulls) l j) = _
  apply shape_eq_model x.n x.m x.C _ _ _ _ _ _ _ h.hn (fun j hj => (h.hsort j hj).2)
  · intro j hj
    refine ⟨by simp [In.labelCol, h.hl], ?_⟩
    intro l hl
    simp only [In.labelCol, List.mem_map] at hl
    obtain ⟨row, hrow, rfl⟩ := hl
    by_cases hjr : j < row.length
    · exact h.hlab row hrow _ (getD_mem' _ _ hjr)
    · simp [List.getD_eq_getElem?_getD, List.getElem?_eq_none (Nat.le_of_not_lt hjr)]
  · intro j _
    simp [In.utilCol, h.hu]
  · intro j hj k _
    rw [(h.hsort j hj).1, Np.get1_natCast]
    have : Np.append1 ((ord j).map (fun k : ℕ => (k : Int))) [(x.n : Int)] = (ord j ++ [x.n]).map (fun k : ℕ => (k : Int)) := by
      simp [Np.append1]
    rw [this, getD_map_cast]
  · intro j hj u hu
    exact x.hlab_spec h j hj u hu
  · intro j _ l hl
    exact x.hut_spec h j l hl

theorem argsort0_get2 (x : In) (sorter : List ℚ → List Int) (ord : ℕ → List ℕ) (h : x.WF sorter ord)
    (j : ℕ) (hj : j < x.m) (k : ℕ) (hk : k ≤ x.n) :
    Np.get2 (Np.vstack2 (Np.argsort0 sorter x.D) (Np.full2 1 (x.m : Int) (x.n : Int))) (k : Int) (j : Int)
      = (((ord j ++ [x.n]).getD k 0 : ℕ) : Int) := by
  rw [Np.get2_natCast]
  simp only [Np.vstack2, Np.argsort0, Np.transpose, Np.full2, In.D]
  have hlenT : ((List.range x.n).map (fun j_1 =>
      ((List.range x.m).map (fun (j : ℕ) => sorter (Np.col { r := x.n, c := x.m, d := x.dist } (j : Int)))).map
        (fun row => row.getD j_1 default))).length = x.n := by simp
  by_cases hkn : k < x.n
  · rw [getD_append_lt _ _ _ _ (by rw [hlenT]; exact hkn), getD_append_lt _ _ _ _ (by rw [isPerm_length (h.hsort j hj).2]; exact hkn)]
    simp only [List.getD_eq_getElem?_getD, List.getElem?_map, List.getElem?_range hkn, List.getElem?_range hj,
      Option.map_some, Option.getD_some]
    have := (h.hsort j hj).1
    simp only [In.D] at this
    rw [this]
    have := getD_map_cast (ord j) k
    simp only [List.getD_eq_getElem?_getD] at this
    exact this
  · have hk' : k = x.n := by omega
    subst hk'
    have e1 := getD_append_len ((List.range x.n).map (fun j_1 =>
      ((List.range x.m).map (fun (j : ℕ) => sorter (Np.col { r := x.n, c := x.m, d := x.dist } (j : Int)))).map
        (fun row => row.getD j_1 default))) (List.replicate (x.m : Int).toNat (x.n : Int)) []
    rw [hlenT] at e1
    have e2 := getD_append_len (ord j) x.n 0
    rw [isPerm_length (h.hsort j hj).2] at e2
    have e3 : (List.replicate (1 : Int).toNat (List.replicate (x.m : Int).toNat (x.n : Int))) = [List.replicate (x.m : Int).toNat (x.n : Int)] := by
      simp
    rw [e3, e1, e2]
    simp [List.getD_eq_getElem?_getD, hj]

/-- **The translated Cython kernel (`shapley_cy.pyx:compute_all_importances_cy`) is the model.** -/
theorem cy_eq_model (x : In) (sorter : List ℚ → List Int) (narrow : ℚ → ℚ) (ord : ℕ → List ℕ) (h : x.WF sorter ord) :
    Gen.compute_all_importances_cy sorter narrow x.L x.D x.U x.nulls
      = importances x.n ((List.range x.m).map x.labelCol) ((List.range x.m).map ord) ((List.range x.m).map x.utilCol) x.nulls := by
  unfold Gen.compute_all_importances_cy
  simp only [Np.shape0, Np.shape1]
  show shape x.n x.m (fun i j => Np.get2 (Np.vstack2 (Np.argsort0 sorter x.D) (Np.full2 1 (x.m : Int) (x.n : Int))) i j)
      (fun u j => Np.get2 (Np.vstack1 x.L (Np.rep (x.C : Int) (x.m : Int))) u j)
      (fun l j => Np.get2 (Np.vstack1 x.U x.nulls) l j) = _
  apply shape_eq_model x.n x.m x.C _ _ _ _ _ _ _ h.hn (fun j hj => (h.hsort j hj).2)
  · intro j hj
    refine ⟨by simp [In.labelCol, h.hl], ?_⟩
    intro l hl
    simp only [In.labelCol, List.mem_map] at hl
    obtain ⟨row, hrow, rfl⟩ := hl
    by_cases hjr : j < row.length
    · exact h.hlab row hrow _ (getD_mem' _ _ hjr)
    · simp [List.getD_eq_getElem?_getD, List.getElem?_eq_none (Nat.le_of_not_lt hjr)]
  · intro j _
    simp [In.utilCol, h.hu]
  · intro j hj k hk
    exact argsort0_get2 x sorter ord h j hj k hk
  · intro j hj u hu
    exact x.hlab_spec h j hj u hu
  · intro j _ l hl
    exact x.hut_spec h j l hl

end Ds.GenKernel
