import DsProofs.KernelProofs
import Tie.NpProofs
/-!
# The backward loop of the kernels, as the translator emits it, against `Ds.Kernel`

`revBody w o` is one iteration `current += (w k − w (k+1)) / (k+1); all_importances[o k] += current`, folded over the ranks
`n−1, …, 0`.  Helper lemmas only.
-/
open Finset
namespace Ds.GenLoop
open Ds.Kernel

/-- one iteration of the inner loop at rank `k` -/
def revBody (w : ℕ → ℚ) (o : ℕ → ℕ) (st : ℚ × List ℚ) (k : ℕ) : ℚ × List ℚ :=
  let c := st.1 + (w k - w (k + 1)) / ((k : ℚ) + 1)
  (c, st.2.modify (o k) (· + c))

def δ (w : ℕ → ℚ) (t : ℕ) : ℚ := (w t - w (t + 1)) / ((t : ℚ) + 1)

theorem revLoop_spec (w : ℕ → ℚ) (o : ℕ → ℕ) (n : ℕ) (st : ℚ × List ℚ) :
    let r := (List.range n).reverse.foldl (revBody w o) st
    r.1 = st.1 + ∑ t ∈ range n, δ w t ∧ r.2.length = st.2.length ∧
    ∀ u, u < st.2.length →
      r.2.getD u 0 = st.2.getD u 0 + ∑ k ∈ range n, if o k = u then (st.1 + ∑ t ∈ range n, if k ≤ t then δ w t else 0) else 0 := by
  induction n generalizing st with
  | zero => simp
  | succ n ih =>
    intro r
    have hr : r = (List.range n).reverse.foldl (revBody w o) (revBody w o st n) := by
      simp only [r, List.range_succ, List.reverse_append, List.reverse_cons, List.reverse_nil, List.nil_append,
        List.cons_append, List.foldl_cons]
    obtain ⟨h1, h2, h3⟩ := ih (revBody w o st n)
    rw [← hr] at h1 h2 h3
    have hb1 : (revBody w o st n).1 = st.1 + δ w n := rfl
    have hb2 : (revBody w o st n).2 = st.2.modify (o n) (· + (st.1 + δ w n)) := rfl
    refine ⟨?_, ?_, ?_⟩
    · rw [h1, hb1, Finset.sum_range_succ]; ring
    · rw [h2, hb2, List.length_modify]
    · intro u hu
      rw [h3 u (by rw [hb2, List.length_modify]; exact hu), hb2, getD_modify_add _ _ _ _ hu, hb1,
        Finset.sum_range_succ (fun k => if o k = u then (st.1 + ∑ t ∈ range (n + 1), if k ≤ t then δ w t else 0) else 0)]
      have hlast : (∑ t ∈ range (n + 1), if n ≤ t then δ w t else 0) = δ w n := by
        rw [Finset.sum_range_succ]
        have : ∑ t ∈ range n, (if n ≤ t then δ w t else 0) = 0 := by
          apply Finset.sum_eq_zero
          intro t ht
          rw [if_neg (by have := Finset.mem_range.mp ht; omega)]
        rw [this]; simp
      rw [hlast]
      have hsum : ∀ k ∈ range n,
          (if o k = u then (st.1 + δ w n + ∑ t ∈ range n, if k ≤ t then δ w t else 0) else 0)
            = (if o k = u then (st.1 + ∑ t ∈ range (n + 1), if k ≤ t then δ w t else 0) else 0) := by
        intro k hk
        have hk' := Finset.mem_range.mp hk
        rw [Finset.sum_range_succ (fun t => if k ≤ t then δ w t else 0), if_pos (by omega : k ≤ n)]
        split_ifs <;> ring
      rw [Finset.sum_congr rfl hsum]
      ring

/-- sum over a zipped list as a sum over positions -/
theorem contrib_eq_range (order : List ℕ) (rs : List ℚ) (u : ℕ) (h : order.length = rs.length) :
    contrib order rs u = ∑ k ∈ range order.length, if order.getD k 0 = u then rs.getD k 0 else 0 := by
  induction order generalizing rs with
  | nil => simp [contrib]
  | cons o os ih =>
    cases rs with
    | nil => simp at h
    | cons x xs =>
      rw [contrib_cons, ih xs (by simpa using h), List.length_cons, Finset.sum_range_succ']
      simp [add_comm]

/-- **The translated inner loop is `pointAccum`.**  `w t` = utility of the unit of rank `t` (`w n` = null), `o t` = unit of rank `t`. -/
theorem revLoop_pointAccum (acc : List ℚ) (labels order : List ℕ) (util : List ℚ) (null : ℚ)
    (w : ℕ → ℚ) (o : ℕ → ℕ)
    (hw : ∀ t, t ≤ order.length → w t = ((usOf labels order util null) ++ [null]).getD t 0)
    (ho : ∀ t, t < order.length → o t = order.getD t 0) :
    ((List.range order.length).reverse.foldl (revBody w o) (0, acc)).2 = pointAccum acc labels order util null := by
  obtain ⟨_, h2, h3⟩ := revLoop_spec w o order.length (0, acc)
  apply ext_getD (n := acc.length) h2 (pointAccum_length _ _ _ _ _)
  intro u hu
  rw [h3 u hu, pointAccum_getD _ _ _ _ _ _ hu]
  congr 1
  unfold pointContrib
  have hlen : order.length = (rankScores (usOf labels order util null) null).length := by
    rw [rankScores_length, usOf_length]
  rw [contrib_eq_range _ _ _ hlen]
  apply Finset.sum_congr rfl
  intro k hk
  have hk' := Finset.mem_range.mp hk
  rw [ho k hk']
  split_ifs with h
  · rw [rankScores_closed _ _ _ (by rw [usOf_length]; exact hk'), usOf_length, zero_add]
    apply Finset.sum_congr rfl
    intro t ht
    have ht' := Finset.mem_range.mp ht
    unfold δ
    rw [hw t (by omega), hw (t + 1) (by omega)]
  · rfl

end Ds.GenLoop
