import Tie.GenProofs
import DsProofs.Properties.C01
import DsProofs.Properties.C07Batch
/-!
# TIE — theorems about the code as it is written NOW (translated source), not about a hand-written model

`Gen/Kernel.lean` is regenerated from `/repo` on every run by `harness/translate.py`:
`Gen.compute_all_importances` from `shapley.py:compute_all_importances`, `Gen.compute_all_importances_cy` from
`shapley_cy.pyx:compute_all_importances_cy` (cdef declarations and C types included: a single-precision local would route every
assignment to it through the uninterpreted function `narrow`, and none of the statements below could then be proved for all
`narrow`), `Gen.get_test_batch_size` from `shapley.py:get_test_batch_size`.

* `TIE_py_model`, `TIE_cy_model`: each translated kernel, run on any well-formed input with ANY sort routine that returns a
  permutation per validation point (ties: whatever it chose), returns exactly what the hand-written model `Ds.Kernel.importances`
  returns — so every theorem about the model (C01, C06, C07, C08, C13 rounding bounds) is a theorem about the translated source.
* `TIE_cy_eq_py` (C13, exact arithmetic) and `TIE_cy_eq_py_any` (C13 at ANY scalar type, no algebraic law used: the compiled kernel and
  the reference kernel perform the same operations on the same operands in the same order, so with IEEE doubles they agree bit for
  bit — "to within double-precision rounding" holds with error zero).
* `TIE_C01_cy` / `TIE_C01_py`: slot `u` of the translated kernel's result is the Shapley value of unit `u` in the mean 1-NN game.
* `TIE_batch_size`: the translated `get_test_batch_size` is the model's, hence returns `n_test` for every budget (C07).

Trusted: the translator and the meaning of the numpy primitives in `Ds/Np.lean` (both validated by running the translated
definitions against the implementation in the C13 check); `argsort` is a parameter.
-/
open Finset Ds.Kernel Ds.GenKernel

namespace DsProofs.Tie

/-- **TIE (reference kernel).** -/
theorem TIE_py_model (x : In) (sorter : List ℚ → List Int) (narrow : ℚ → ℚ) (ord : ℕ → List ℕ) (h : x.WF sorter ord) :
    Gen.compute_all_importances sorter narrow x.L x.D x.U x.nulls
      = importances x.n ((List.range x.m).map x.labelCol) ((List.range x.m).map ord) ((List.range x.m).map x.utilCol) x.nulls :=
  py_eq_model x sorter narrow ord h

/-- **TIE (Cython kernel).** -/
theorem TIE_cy_model (x : In) (sorter : List ℚ → List Int) (narrow : ℚ → ℚ) (ord : ℕ → List ℕ) (h : x.WF sorter ord) :
    Gen.compute_all_importances_cy sorter narrow x.L x.D x.U x.nulls
      = importances x.n ((List.range x.m).map x.labelCol) ((List.range x.m).map ord) ((List.range x.m).map x.utilCol) x.nulls :=
  cy_eq_model x sorter narrow ord h

/-- **C13 (exact arithmetic).** The translated compiled kernel and the translated reference kernel return the same vector. -/
theorem TIE_cy_eq_py (x : In) (sorter : List ℚ → List Int) (narrow : ℚ → ℚ) (ord : ℕ → List ℕ) (h : x.WF sorter ord) :
    Gen.compute_all_importances_cy sorter narrow x.L x.D x.U x.nulls
      = Gen.compute_all_importances sorter narrow x.L x.D x.U x.nulls := by
  rw [cy_eq_model x sorter narrow ord h, py_eq_model x sorter narrow ord h]

theorem argsort0_get2_any {α : Type} [Inhabited α] (D : Np.A2 α) (sorter : List α → List Int)
    (hs : ∀ j, j < D.c → (sorter (Np.col D (j : Int))).length = D.r) (j : ℕ) (hj : j < D.c) (k : ℕ) (hk : k ≤ D.r) :
    Np.get2 (Np.vstack2 (Np.argsort0 sorter D) (Np.full2 1 (D.c : Int) (D.r : Int))) (k : Int) (j : Int)
      = Np.get1 (Np.append1 (sorter (Np.col D (j : Int))) [(D.r : Int)]) (k : Int) := by
  rw [Np.get2_natCast, Np.get1_natCast]
  simp only [Np.vstack2, Np.argsort0, Np.transpose, Np.full2, Np.append1]
  have hlenT : ((List.range D.r).map (fun j_1 =>
      ((List.range D.c).map (fun (j : ℕ) => sorter (Np.col D (j : Int)))).map
        (fun row => row.getD j_1 default))).length = D.r := by simp
  by_cases hkn : k < D.r
  · rw [getD_append_lt _ _ _ _ (by rw [hlenT]; exact hkn), getD_append_lt _ _ _ _ (by rw [hs j hj]; exact hkn)]
    simp only [List.getD_eq_getElem?_getD, List.getElem?_map, List.getElem?_range hkn, List.getElem?_range hj,
      Option.map_some, Option.getD_some]
  · have hk' : k = D.r := by omega
    subst hk'
    have e1 := getD_append_len ((List.range D.r).map (fun j_1 =>
      ((List.range D.c).map (fun (j : ℕ) => sorter (Np.col D (j : Int)))).map
        (fun row => row.getD j_1 default))) (List.replicate (D.c : Int).toNat (D.r : Int)) []
    rw [hlenT] at e1
    have e2 := getD_append_len (sorter (Np.col D (j : Int))) (D.r : Int) default
    rw [hs j hj] at e2
    have e3 : (List.replicate (1 : Int).toNat (List.replicate (D.c : Int).toNat (D.r : Int))) = [List.replicate (D.c : Int).toNat (D.r : Int)] := by
      simp
    rw [e3, e1, e2]
    simp [List.getD_eq_getElem?_getD, hj]

/-- **C13 (any scalar type).** For every type of scalars with `+ − * / −x` and casts from ℕ — no law assumed, so also IEEE doubles with
their rounding — the two translated kernels are the SAME function of their arguments as soon as the sort routine returns one index per
unit: they perform identical operations in identical order. -/
theorem TIE_cy_eq_py_any {α : Type} [Inhabited α] [Add α] [Sub α] [Mul α] [Div α] [Neg α] [NatCast α]
    (sorter : List α → List Int) (narrow : α → α) (L : Np.A2 Int) (D U : Np.A2 α) (nulls : List α)
    (hs : ∀ j, j < D.c → (sorter (Np.col D (j : Int))).length = D.r) :
    Gen.compute_all_importances_cy sorter narrow L D U nulls = Gen.compute_all_importances sorter narrow L D U nulls := by
  unfold Gen.compute_all_importances_cy Gen.compute_all_importances
  simp only [Np.shape0, Np.shape1]
  show shape D.r D.c (fun i j => Np.get2 (Np.vstack2 (Np.argsort0 sorter D) (Np.full2 1 (D.c : Int) (D.r : Int))) i j)
      (fun u j => Np.get2 (Np.vstack1 L (Np.rep (U.r : Int) (D.c : Int))) u j)
      (fun l j => Np.get2 (Np.vstack1 U nulls) l j)
    = shape D.r D.c (fun i j => Np.get1 (Np.append1 (sorter (Np.col D j)) [(D.r : Int)]) i)
      (fun u j => Np.get2 (Np.vstack1 L (Np.rep (U.r : Int) (D.c : Int))) u j)
      (fun l j => Np.get2 (Np.vstack1 U nulls) l j)
  apply shape_congr
  intro j hj k hk
  exact argsort0_get2_any D sorter hs j hj k hk

/-- the mean, over the validation points, of the per-point 1-NN utility games of the kernel's input -/
noncomputable def meanGame (x : In) (ord : ℕ → List ℕ) : Sh.Game x.n := fun S =>
  (∑ j ∈ range x.m, nnGameU x.n (ord j) (x.labelCol j) (x.utilCol j) (x.nulls.getD j 0) S) / (x.m : ℚ)

theorem model_shapley (x : In) (sorter : List ℚ → List Int) (ord : ℕ → List ℕ) (h : x.WF sorter ord) (u : Fin x.n) :
    (importances x.n ((List.range x.m).map x.labelCol) ((List.range x.m).map ord) ((List.range x.m).map x.utilCol) x.nulls).getD u 0
      = Sh.phi (meanGame x ord) u := by
  rw [DsProofs.C01.C01_importances x.n x.m _ _ _ _ (by simp) (by simp) (by simp) h.hn
    (by
      intro o ho
      simp only [List.mem_map, List.mem_range] at ho
      obtain ⟨j, hj, rfl⟩ := ho
      exact (h.hsort j hj).2) u]
  congr 1
  funext S
  unfold meanGame
  congr 1
  apply Finset.sum_congr rfl
  intro j hj
  have hj' := Finset.mem_range.mp hj
  simp [List.getD_eq_getElem?_getD, hj']

/-- **C01 for the translated Cython kernel**: slot `u` = Shapley value of unit `u` in the mean 1-NN game. -/
theorem TIE_C01_cy (x : In) (sorter : List ℚ → List Int) (narrow : ℚ → ℚ) (ord : ℕ → List ℕ) (h : x.WF sorter ord) (u : Fin x.n) :
    (Gen.compute_all_importances_cy sorter narrow x.L x.D x.U x.nulls).getD u 0 = Sh.phi (meanGame x ord) u := by
  rw [cy_eq_model x sorter narrow ord h, model_shapley x sorter ord h u]

/-- **C01 for the translated reference kernel.** -/
theorem TIE_C01_py (x : In) (sorter : List ℚ → List Int) (narrow : ℚ → ℚ) (ord : ℕ → List ℕ) (h : x.WF sorter ord) (u : Fin x.n) :
    (Gen.compute_all_importances sorter narrow x.L x.D x.U x.nulls).getD u 0 = Sh.phi (meanGame x ord) u := by
  rw [py_eq_model x sorter narrow ord h, model_shapley x sorter ord h u]

/-! ### `get_test_batch_size` -/

theorem floordiv_natCast (a b : ℕ) : Np.floordiv (a : Int) (b : Int) = ((a / b : ℕ) : Int) := by
  unfold Np.floordiv
  rw [Int.fdiv_eq_ediv_of_nonneg _ (by omega)]
  simp

theorem imax_natCast (a b : ℕ) : Np.imax (a : Int) (b : Int) = ((max a b : ℕ) : Int) := by
  unfold Np.imax
  split_ifs with h <;> omega

/-- **TIE (batch size).** The translated `get_test_batch_size` is the model's. -/
theorem TIE_batch_size_model (B nTrain nTest : ℕ) :
    Gen.get_test_batch_size (B : Int) (nTrain : Int) (nTest : Int) = ((Ds.Neighbor.getTestBatchSize B nTrain nTest : ℕ) : Int) := by
  unfold Gen.get_test_batch_size Ds.Neighbor.getTestBatchSize
  simp only []
  have e1 : ((nTrain : Int) * (nTest : Int)) = ((nTrain * nTest : ℕ) : Int) := by push_cast; ring
  have e2 : ((1 : Int)) = ((1 : ℕ) : Int) := rfl
  rw [e1, floordiv_natCast, e2, imax_natCast, floordiv_natCast, imax_natCast]

/-- **C07 (batch clause) for the translated source**: whatever the budget, one batch holds the whole validation set. -/
theorem TIE_batch_size (B nTrain nTest : ℕ) :
    Gen.get_test_batch_size (B : Int) (nTrain : Int) (nTest : Int) = (nTest : Int) := by
  rw [TIE_batch_size_model, DsProofs.C07.C07_batch_size]

/-! ### Non-vacuity: a concrete well-formed input (2 units, 2 validation points, 2 classes, a unit with the null label) -/

def exIn : In := ⟨2, 2, 2, [[0, 1], [2, 0]], [[3, 1], [1, 2]], [[1, 0], [0, 1]], [1/2, 1/3]⟩

theorem exIn_wf : exIn.WF (fun _ => [1, 0]) (fun _ => [1, 0]) where
  hl := rfl
  hlr := by decide
  hu := rfl
  hn := rfl
  hlab := by decide
  hsort := fun _ _ => ⟨rfl, by decide⟩

example : Gen.compute_all_importances_cy (fun _ => [1, 0]) id exIn.L exIn.D exIn.U exIn.nulls
    = Gen.compute_all_importances (fun _ => [1, 0]) id exIn.L exIn.D exIn.U exIn.nulls :=
  TIE_cy_eq_py exIn _ _ _ exIn_wf

example : Gen.get_test_batch_size 4 3 5 = 5 := by decide

end DsProofs.Tie
