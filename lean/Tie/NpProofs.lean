import Ds.Np
import Mathlib.Data.List.Basic
import Mathlib.Data.List.Range
import Mathlib.Tactic.Ring
import Mathlib.Tactic.Linarith
/-!
# Facts about the numpy/Python primitives of `Ds/Np.lean` at indices that are casts of naturals
(what the loops of the translated kernels produce).  Helper lemmas only.
-/
namespace Np
variable {α : Type}

theorem pyIdx_natCast (len k : ℕ) : pyIdx len (k : Int) = if k < len then some k else none := by
  unfold pyIdx
  simp

theorem get1_natCast [Inhabited α] (l : List α) (k : ℕ) : get1 l (k : Int) = l.getD k default := by
  unfold get1
  rw [pyIdx_natCast]
  split_ifs with h
  · rfl
  · simp only [List.getD_eq_getElem?_getD]
    rw [List.getElem?_eq_none (by omega)]; rfl

theorem set1_natCast (l : List α) (k : ℕ) (v : α) : set1 l (k : Int) v = l.set k v := by
  unfold set1
  rw [pyIdx_natCast]
  split_ifs with h
  · rfl
  · rw [List.set_eq_of_length_le (by omega)]

theorem get2_natCast [Inhabited α] (a : A2 α) (i j : ℕ) :
    get2 a (i : Int) (j : Int) = (a.d.getD i []).getD j default := by
  unfold get2
  rw [get1_natCast, get1_natCast]; rfl

theorem col_natCast [Inhabited α] (a : A2 α) (j : ℕ) : col a (j : Int) = a.d.map (fun row => row.getD j default) := by
  unfold col
  simp only [get1_natCast]

theorem range_up (m : ℕ) : range 0 (m : Int) 1 = (List.range m).map (fun k : ℕ => (k : Int)) := by
  unfold range
  simp

theorem range_down (n : ℕ) : range ((n : Int) - 1) (-1) (-1) = (List.range n).reverse.map (fun k : ℕ => (k : Int)) := by
  unfold range
  have h1 : ¬ ((0 : Int) < -1) := by omega
  have h2 : ((-1 : Int) < 0) := by omega
  rw [if_neg h1, if_pos h2]
  have h3 : (((n : Int) - 1 - (-1) + (- (-1)) - 1) / (- (-1))).toNat = n := by
    simp
  rw [h3]
  apply List.ext_getElem
  · simp
  · intro i hi1 hi2
    simp only [List.length_map, List.length_range] at hi1
    simp only [List.getElem_map, List.getElem_range, List.getElem_reverse, List.length_range]
    omega

theorem ofInt_natCast (k : ℕ) : (ofInt (k : Int) : ℚ) = (k : ℚ) := by
  unfold ofInt
  simp

theorem ofInt_natCast_succ (k : ℕ) : (ofInt ((k : Int) + 1) : ℚ) = (k : ℚ) + 1 := by
  have : ((k : Int) + 1) = ((k + 1 : ℕ) : Int) := by push_cast; ring
  rw [this, ofInt_natCast]; push_cast; ring

theorem zeros1_natCast (n : ℕ) : (zeros1 (n : Int) : List ℚ) = List.replicate n 0 := by
  unfold zeros1; simp

theorem rep_natCast {β : Type} (x : β) (n : ℕ) : rep x (n : Int) = List.replicate n x := by
  unfold rep; simp

theorem slice1_dropLast (l : List α) : slice1 l none (some (-1)) = l.dropLast := by
  unfold slice1
  simp only []
  have : (if (-1 : Int) < 0 then (max (-1 + (l.length : Int)) 0).toNat else (min (-1) (l.length : Int)).toNat) = l.length - 1 := by
    rw [if_pos (by omega)]; omega
  rw [this]
  simp [List.dropLast_eq_take]

end Np
