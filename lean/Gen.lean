import Gen.Kernel
