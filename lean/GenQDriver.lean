import Lean.Data.Json
import GenQ.Query
/-!
# genqdriver — runs the TRANSLATED `Provenance.query` (`GenQ/Query.lean`, regenerated from /repo) on a concrete container and assignment

Request: `{"r":rows,"d":disjuncts,"c":conjuncts,"data":[[[[u,v],…],…],…],"n":num_units,"values":[…],"idx":false}`.
Answer: `{"ok":[…]}` (Booleans, or row positions when `"idx"` is true) or `{"raised":"<class>"}`.
-/
open Lean

def getL {α} (f : Json → Except String α) (j : Json) : Except String (List α) := do
  let a ← j.getArr?
  a.toList.mapM f

def handle (j : Json) : Except String Json := do
  let r ← (← j.getObjVal? "r").getNat?
  let d ← (← j.getObjVal? "d").getNat?
  let c ← (← j.getObjVal? "c").getNat?
  let n ← (← j.getObjVal? "n").getInt?
  let data ← getL (getL (getL (getL Json.getInt?))) (← j.getObjVal? "data")
  let values ← getL Json.getInt? (← j.getObjVal? "values")
  let idx ← (← j.getObjVal? "idx").getBool?
  let a : Np.A4 Int := ⟨r, d, c, data⟩
  if idx then
    match GenQ.query_idx a n values with
    | .ok l => pure (Json.mkObj [("ok", Json.arr (l.map (fun (z : Int) => Json.num z)).toArray)])
    | .error e => pure (Json.mkObj [("raised", Json.str e)])
  else
    match GenQ.query_mask a n values with
    | .ok l => pure (Json.mkObj [("ok", Json.arr (l.map Json.bool).toArray)])
    | .error e => pure (Json.mkObj [("raised", Json.str e)])

partial def loop (hin hout : IO.FS.Stream) : IO Unit := do
  let line ← hin.getLine
  if line.isEmpty then return ()
  let out := match Json.parse line with
    | .error e => (Json.mkObj [("bad", Json.str e)]).compress
    | .ok j => match handle j with
      | .ok r => r.compress
      | .error e => (Json.mkObj [("bad", Json.str e)]).compress
  hout.putStrLn out
  hout.flush
  loop hin hout

def main : IO Unit := do
  loop (← IO.getStdin) (← IO.getStdout)
