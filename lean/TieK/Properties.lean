import GenK.UCall
import TieB.BruteProofs
import DsProofs.Properties.C15
import DsProofs.Properties.C14
import Mathlib.Order.Basic
/-!
# TIEK — the failure handler of `SklearnModelUtility.__call__` AS IT IS WRITTEN NOW
(`GenK/UCall.lean`, regenerated from `/repo/datascope/importance/utility.py` on every run by `harness/translate_ucall.py`; the accuracy and ROC-AUC utilities inherit it)

`body` = what the guarded fit / predict / metric code does, `own_null` = what the fallback `self.null_score(...)` does (a value, an exception class, or a warning
category followed by the value).  Read from the source: the classes of the two `except` clauses and the categories escalated by `simplefilter("error", …)`.

* `TIEK_supplied`: with a supplied null score the call returns the computed score, returns the null score when the evaluation raises `ValueError` or a
  `RuntimeWarning` (raised, or emitted — the utility escalates that category itself), and lets every other class propagate.
* `TIEK_layer1`: that is the model's `Outcome.layer1` (what `C15_layer1` / `C15_handled` / `C15_escape` are about).
* `TIEK_null_score`: `SklearnModelUtility.null_score` (template) with the accuracy metric is the model's `accNull`.
* `TIEK_total`: whenever neither the evaluation nor the fallback raises a class outside `{ValueError, RuntimeWarning}` the call RETURNS a score — supplied null score or
  not (C15: "never raises"); `TIEK_fallback`: without a supplied null score a failed evaluation scores the utility's own null score, and the default score 0 when that
  fails too (the inner guard — dropped by seed C15f — is part of the generated term).
-/
open Ds Ds.GenBrute

namespace DsProofs.TieK

/-- the exception classes the utility catches -/
def caughtK (c : String) : Bool := c == "ValueError" || c == "RuntimeWarning"

/-- the evaluation as the utility layer sees it: only `RuntimeWarning` is escalated here -/
def classifyK (o : Np.Out ℚ) : Outcome :=
  match o with
  | .val x => .ok x
  | .exc c => ofName c
  | .warn c x => if c == "RuntimeWarning" then .runtimeWarning else .ok x

/-- result of the call as an outcome: a returned score, or the class that propagates -/
def ofExcept : Except String ℚ → Outcome
  | .ok x => .ok x
  | .error c => ofName c

theorem TIEK_supplied (body own : Np.Out ℚ) (null : ℚ) :
    GenK.utility_call body own (some null) =
      (match body with
       | .val x => .ok x
       | .exc c => if caughtK c then .ok null else .error c
       | .warn c x => if c == "RuntimeWarning" then .ok null else .ok x) := by
  cases body with
  | val x => rfl
  | exc c =>
    unfold GenK.utility_call Np.outcome caughtK
    by_cases h1 : c = "ValueError"
    · subst h1; rfl
    · by_cases h2 : c = "RuntimeWarning"
      · subst h2; rfl
      · simp [h1, h2, bind, Except.bind]
  | warn c x =>
    unfold GenK.utility_call Np.outcome
    by_cases h2 : c = "RuntimeWarning"
    · subst h2; rfl
    · simp [h2, bind, Except.bind, pure, Except.pure]

theorem ofName_caught (c : String) : caughtK c = true → (ofName c = .valueError ∨ ofName c = .runtimeWarning) := by
  intro h
  unfold caughtK at h
  simp only [Bool.or_eq_true, beq_iff_eq] at h
  rcases h with h | h
  · left; subst h; rfl
  · right; subst h; rfl

theorem ofName_not_caught (c : String) : caughtK c = false → ofName c ≠ .valueError ∧ ofName c ≠ .runtimeWarning := by
  intro h
  unfold caughtK at h
  simp only [Bool.or_eq_false_iff, beq_eq_false_iff_ne] at h
  unfold ofName
  constructor <;> (split_ifs <;> simp_all)

/-- the translated handler, with a supplied null score, IS the model's layer 1 -/
theorem TIEK_layer1 (body own : Np.Out ℚ) (null : ℚ) :
    ofExcept (GenK.utility_call body own (some null)) = (classifyK body).layer1 null := by
  rw [TIEK_supplied]
  cases body with
  | val x => rfl
  | exc c =>
    simp only [classifyK]
    cases h : caughtK c with
    | true =>
      simp only [if_true, ofExcept]
      rcases ofName_caught c h with e | e <;> rw [e] <;> rfl
    | false =>
      simp only [Bool.false_eq_true, if_false, ofExcept]
      obtain ⟨h1, h2⟩ := ofName_not_caught c h
      exact ((C15_layer1 null).2.2 (ofName c) h1 h2).symm
  | warn c x =>
    simp only [classifyK]
    by_cases h : c = "RuntimeWarning"
    · subst h; rfl
    · simp [h, ofExcept, Outcome.layer1]

/-- the classes the two guarded pieces of code may raise without the call raising -/
def benign (o : Np.Out ℚ) : Prop :=
  match o with
  | .val _ => True
  | .exc c => caughtK c = true
  | .warn _ _ => True

theorem outcome_benign (o : Np.Out ℚ) (h : benign o) :
    ∃ r, Np.outcome ["ValueError", "RuntimeWarning"] ["RuntimeWarning"] o = .ok r := by
  cases o with
  | val x => exact ⟨_, rfl⟩
  | exc c =>
    unfold benign caughtK at h
    simp only [Bool.or_eq_true, beq_iff_eq] at h
    rcases h with h | h <;> subst h <;> exact ⟨_, rfl⟩
  | warn c x =>
    by_cases h2 : c = "RuntimeWarning"
    · subst h2; exact ⟨_, rfl⟩
    · exact ⟨some x, by simp [Np.outcome, h2]⟩

/-- **C15 (utility layer) for the translated source**: no exception escapes, with or without a supplied null score -/
theorem TIEK_total (body own : Np.Out ℚ) (null : Option ℚ) (hb : benign body) (ho : benign own) :
    ∃ s, GenK.utility_call body own null = .ok s := by
  obtain ⟨r, hr⟩ := outcome_benign body hb
  obtain ⟨r2, hr2⟩ := outcome_benign own ho
  unfold GenK.utility_call
  simp only [hr, hr2, bind, Except.bind, pure, Except.pure]
  cases r with
  | some x => exact ⟨_, rfl⟩
  | none =>
    cases null with
    | some v => exact ⟨_, rfl⟩
    | none =>
      cases r2 with
      | some y => exact ⟨_, rfl⟩
      | none => exact ⟨_, rfl⟩

/-- without a supplied null score: a failed evaluation scores the utility's own null score; the default score 0 when computing that fails as well -/
theorem TIEK_fallback (own : Np.Out ℚ) (y : ℚ) :
    GenK.utility_call (.exc "ValueError") (.val y) none = .ok y ∧
    GenK.utility_call (.exc "ValueError") (.exc "ValueError") none = .ok 0 ∧
    GenK.utility_call (.warn "RuntimeWarning" 7) (.exc "ValueError") none = .ok 0 ∧
    GenK.utility_call (.exc "KeyError") own none = .error "KeyError" := by
  refine ⟨rfl, rfl, rfl, rfl⟩

/-- `SklearnModelUtility.null_score` as written, with the accuracy metric: the model's `accNull` — the lowest accuracy of a constant training-class prediction
(`C14_acc_null_min`), `none` (ValueError from `min([])`) when there is no training class -/
theorem TIEK_null_score (classes yTest : List Int) :
    GenK.null_score (fun yt yp => Util.accuracy yt yp) classes yTest = Util.accNull classes yTest := by
  unfold GenK.null_score Util.accNull Np.minOpt Np.fullLike
  cases h : classes.map (fun x => Util.accuracy yTest (yTest.map (fun _ => x))) with
  | nil => simp
  | cons s ss =>
    congr 1
    have : (fun (m x : ℚ) => if x < m then x else m) = (fun m x => min m x) := by
      funext m x
      rcases lt_or_ge x m with hx | hx
      · simp [hx, min_eq_right (le_of_lt hx)]
      · simp [not_lt.mpr hx, min_eq_left hx]
    rw [this]

/-! ### non-vacuity -/
example : GenK.utility_call (.val (3 : ℚ)) (.exc "ValueError") (some 5) = .ok 3 := rfl
example : GenK.utility_call (.warn "RuntimeWarning" (3 : ℚ)) (.exc "ValueError") (some 5) = .ok 5 := rfl
example : GenK.utility_call (.warn "UserWarning" (3 : ℚ)) (.exc "ValueError") (some 5) = .ok 3 := rfl
example : GenK.handled_outer = ["ValueError", "RuntimeWarning"] ∧ GenK.handled_inner = ["ValueError", "RuntimeWarning"] ∧ GenK.escalated = ["RuntimeWarning"] := ⟨rfl, rfl, rfl⟩

end DsProofs.TieK
