import GenE.Data
import DsProofs.Properties.C11
/-!
# TIEE (continued) — `Expression.data` / `Expression.from_data` AS THEY ARE WRITTEN NOW (`GenE/Data.lean`, regenerated from `/repo/datascope/utility/provenance.py` on every run by
`harness/translate_exprdata.py`)

* `TIEE_conj_data`, `TIEE_disj_data`: the array of a conjunction / disjunction is the model's `Expr.data3` (a disjunction pads its conjunctions with -1 to the longest one).
* `TIEE_from_data`: `Disjunction.from_data` on a stored row is the model's `exprFromData` — blocks entirely -1 and rows containing a -1 are dropped, a formula left without
  elements is an IndexError.
* `TIEE_roundtrip`, `TIEE_roundtrip_stored`: hence (`C11_roundtrip`) reading back the array of a proper formula — as it is, or padded to any container shape — returns its
  disjunctive normal form, for the source as written.
-/
open Ds Ds.Prov

namespace DsProofs.TieE

/-- a literal of the model's array as the two integers the code stores -/
def lit2 (l : Lit) : List Int := [l.1, l.2]
/-- a row of the model's container as the 3-D integer array -/
def row3 (r : Row) : List (List (List Int)) := r.map (fun cj => cj.map lit2)
/-- the model's result of reading a row back, in the vocabulary of the translation -/
def toE : Except Err Expr → Except String (List (List (Nat × Nat)))
  | .ok e => .ok e.dnf
  | .error e => .error e.name

theorem eq_data_lit (l : Nat × Nat) : GenE.Data.eq_data l = lit2 (Expr.litData l) := rfl

theorem TIEE_conj_data (es : List (Nat × Nat)) : [GenE.Data.conj_data es] = row3 (Expr.data3 (.conj es)) := by
  simp [GenE.Data.conj_data, row3, Expr.data3, eq_data_lit]

theorem foldl_imax_cast' (l : List Nat) (a : Nat) :
    (l.map (fun k : Nat => (k : Int))).foldl Np.imax (a : Int) = ((l.foldl max a : Nat) : Int) := by
  induction l generalizing a with
  | nil => rfl
  | cons x xs ih =>
    simp only [List.map_cons, List.foldl_cons]
    have : Np.imax (a : Int) (x : Int) = ((max a x : Nat) : Int) := by
      unfold Np.imax
      split <;> omega
    rw [this, ih]

theorem foldl_max_head (a : Nat) (t : List Nat) : (a :: t).foldl max a = (a :: t).foldl max 0 := by
  simp [List.foldl_cons]

theorem map_padTo' {A B : Type} (f : A → B) (l : List A) (n : Nat) (x : A) : (Expr.padTo l n x).map f = Np.padList (l.map f) n (f x) := by
  unfold Expr.padTo Np.padList
  simp

theorem TIEE_disj_data (cs : List (List (Nat × Nat))) (hne : cs ≠ []) : GenE.Data.disj_data cs = row3 (Expr.data3 (.disj cs)) := by
  obtain ⟨c0, rest, rfl⟩ := List.exists_cons_of_ne_nil hne
  have hshape : ((((c0 :: rest).map GenE.Data.conj_data).map (fun data => Np.len1 data)).foldl Np.imax
      (Np.len1 ((((c0 :: rest).map GenE.Data.conj_data)).headD []))) = ((((c0 :: rest).map List.length).foldl max 0 : Nat) : Int) := by
    have h1 : (((c0 :: rest).map GenE.Data.conj_data).map (fun data => Np.len1 data)) = ((c0 :: rest).map List.length).map (fun k : Nat => (k : Int)) := by
      simp [GenE.Data.conj_data, Np.len1]
    rw [h1]
    have h2 : Np.len1 ((((c0 :: rest).map GenE.Data.conj_data)).headD []) = ((c0.length : Nat) : Int) := by
      simp [GenE.Data.conj_data, Np.len1]
    rw [h2, foldl_imax_cast']
    congr 1
    exact foldl_max_head c0.length (rest.map List.length)
  show ((c0 :: rest).map GenE.Data.conj_data).map (fun data => Np.padList data
      (((((c0 :: rest).map GenE.Data.conj_data).map (fun data => Np.len1 data)).foldl Np.imax
        (Np.len1 ((((c0 :: rest).map GenE.Data.conj_data)).headD [])))).toNat [(-1 : Int), (-1 : Int)]) = _
  rw [hshape, Int.toNat_natCast]
  simp only [row3, Expr.data3, List.map_map]
  apply List.map_congr_left
  intro es _
  simp only [Function.comp_def, map_padTo', List.map_map, GenE.Data.conj_data]
  rfl

/-! ### reading back -/

theorem eq_from_lit2 (l : Lit) : GenE.Data.eq_from_data (lit2 l) = (l.1.toNat, l.2.toNat) := by
  simp [GenE.Data.eq_from_data, lit2, Np.get1, Np.pyIdx]

theorem conj_from_data_eq (c : Conj) :
    GenE.Data.conj_from_data (c.map lit2) = if (conjFromData c).isEmpty then .error "IndexError" else .ok (conjFromData c) := by
  have h : ((c.map lit2).filter (fun row => !(row.any (fun x => x == (-1 : Int))))).map GenE.Data.eq_from_data = conjFromData c := by
    unfold conjFromData
    rw [List.filter_map, List.map_map]
    have hp : ((fun row : List Int => !(row.any (fun x => x == (-1 : Int)))) ∘ lit2) = (fun l : Lit => !(l.1 == -1 || l.2 == -1)) := by
      funext l
      simp [lit2]
    rw [hp]
    apply List.map_congr_left
    intro l _
    exact eq_from_lit2 l
  unfold GenE.Data.conj_from_data
  simp only [h]
  rfl

theorem mapM_conj (ds : List Conj) :
    (ds.map (fun cj => cj.map lit2)).mapM GenE.Data.conj_from_data
      = if (ds.map conjFromData).any List.isEmpty then .error "IndexError" else .ok (ds.map conjFromData) := by
  induction ds with
  | nil => rfl
  | cons d ds ih =>
    simp only [List.map_cons, List.mapM_cons, conj_from_data_eq, List.any_cons]
    by_cases hd : (conjFromData d).isEmpty
    · simp only [hd, if_true, Bool.true_or]; rfl
    · simp only [hd, Bool.false_or]
      rw [ih]
      by_cases hr : (ds.map conjFromData).any List.isEmpty
      · simp only [hr, if_true]; rfl
      · simp only [hr]; rfl

theorem TIEE_from_data (r : Row) : GenE.Data.disj_from_data (row3 r) = toE (exprFromData r) := by
  have hf : (row3 r).filter (fun blk => !(blk.all (fun row => row.all (fun x => x == (-1 : Int)))))
      = (r.filter (fun c => !(c.all (fun l => l.1 == -1 && l.2 == -1)))).map (fun cj => cj.map lit2) := by
    unfold row3
    rw [List.filter_map]
    congr 1
    apply List.filter_congr
    intro c _
    simp [lit2, List.all_map, Function.comp_def]
  unfold GenE.Data.disj_from_data exprFromData
  rw [hf, mapM_conj]
  generalize r.filter (fun c => !(c.all (fun l => l.1 == -1 && l.2 == -1))) = ds
  cases ds with
  | nil => rfl
  | cons d ds =>
    by_cases ha : ((d :: ds).map conjFromData).any List.isEmpty
    · simp only [ha, if_true]
      simp [toE, bind, Except.bind, Err.name]
      rfl
    · simp only [ha]
      simp [toE, bind, Except.bind, pure, Except.pure, Expr.dnf]

/-- reading back the array of a proper formula returns its disjunctive normal form -/
theorem TIEE_roundtrip (e : Expr) (he : e.Proper) : GenE.Data.disj_from_data (row3 e.data3) = .ok e.dnf := by
  obtain ⟨e', h, hd, _⟩ := DsProofs.C11.C11_roundtrip_unpadded e he
  rw [TIEE_from_data, h]
  simp [toE, hd]

/-- … also from a container row, where the formula is padded to `d` disjuncts of `n` conjuncts -/
theorem TIEE_roundtrip_stored (e : Expr) (he : e.Proper) (d n : Nat) : GenE.Data.disj_from_data (row3 (padRow e.data3 d n)) = .ok e.dnf := by
  obtain ⟨e', h, hd, _⟩ := DsProofs.C11.C11_roundtrip e he d n
  rw [TIEE_from_data, h]
  simp [toE, hd]

/-- for the translated functions alone: `from_data(data(cs)) = cs` for a disjunction without empty parts -/
theorem TIEE_data_from_data (cs : List (List (Nat × Nat))) (hne : cs ≠ []) (hc : ∀ c ∈ cs, c ≠ []) :
    GenE.Data.disj_from_data (GenE.Data.disj_data cs) = .ok cs := by
  rw [TIEE_disj_data cs hne]
  exact TIEE_roundtrip (.disj cs) ⟨hne, hc⟩

/-! ### non-vacuity -/
example : GenE.Data.disj_data [[(0, 1), (2, 0)], [(1, 1)]] = [[[0, 1], [2, 0]], [[1, 1], [-1, -1]]] := by decide
example : GenE.Data.disj_from_data [[[0, 1], [2, 0]], [[1, 1], [-1, -1]], [[-1, -1], [-1, -1]]] = .ok [[(0, 1), (2, 0)], [(1, 1)]] := by rfl
example : GenE.Data.disj_from_data [[[-1, -1]]] = .error "IndexError" := by rfl

end DsProofs.TieE
