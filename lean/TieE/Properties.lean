import GenE.Ops
import DsProofs.Properties.C11
/-!
# TIEE — the overloaded operators `&` and `|` of the expression classes AS THEY ARE WRITTEN NOW
(`GenE/Ops.lean`, regenerated from `/repo/datascope/utility/provenance.py` on every run by `harness/translate_expr.py`: the 18 branches of
`Equality/Conjunction/Disjunction.__and__/__or__`, each compiled from its `return` expression with static operand classes)

* `TIEE_and`, `TIEE_or`: for all nine operand shapes the translated operator builds exactly the expression the model's `Expr.and` / `Expr.or` builds
  (same literals in the same order: the stored array is the same, not just the truth table).
* `TIEE_C11_and`, `TIEE_C11_or`: hence (`C11_and`, `C11_or`) under every assignment the result evaluates to the conjunction / disjunction of the operands' values.
-/
open Ds Ds.Prov

namespace DsProofs.TieE

theorem TIEE_and (x y : Expr) : GenE.and_ x y = Expr.and x y := by
  cases x <;> cases y <;>
    simp [GenE.and_, Expr.and, GenE.eq_and_eq, GenE.eq_and_conj, GenE.eq_and_disj, GenE.conj_and_eq, GenE.conj_and_conj, GenE.conj_and_disj,
      GenE.disj_and_eq, GenE.disj_and_conj, GenE.disj_and_disj]

theorem TIEE_or (x y : Expr) : GenE.or_ x y = Expr.or x y := by
  cases x <;> cases y <;>
    simp [GenE.or_, Expr.or, GenE.eq_or_eq, GenE.eq_or_conj, GenE.eq_or_disj, GenE.conj_or_eq, GenE.conj_or_conj, GenE.conj_or_disj,
      GenE.disj_or_eq, GenE.disj_or_conj, GenE.disj_or_disj]

/-- **C11 for the translated source** -/
theorem TIEE_C11_and (a : List Nat) (x y : Expr) : (GenE.and_ x y).eval a = (x.eval a && y.eval a) := by
  rw [TIEE_and]; exact DsProofs.C11.C11_and x y a

theorem TIEE_C11_or (a : List Nat) (x y : Expr) : (GenE.or_ x y).eval a = (x.eval a || y.eval a) := by
  rw [TIEE_or]; exact DsProofs.C11.C11_or x y a

/-! ### non-vacuity: `(x0 == 1) & ((x1 == 0) | (x2 == 1 & x0 == 0))` -/
example : GenE.and_ (.eq 0 1) (.disj [[(1, 0)], [(2, 1), (0, 0)]]) = .disj [[(0, 1), (1, 0)], [(0, 1), (2, 1), (0, 0)]] := by decide
example : GenE.or_ (.disj [[(1, 0)]]) (.conj [(2, 1), (0, 0)]) = .disj [[(1, 0)], [(2, 1), (0, 0)]] := by decide

end DsProofs.TieE
