import GenR.Units
import DsProofs.Properties.C11Units
/-!
# TIER — the unit / candidate registry AS IT IS WRITTEN NOW (`GenR/Units.lean`, regenerated from `/repo/datascope/utility/provenance.py` on every run by
`harness/translate_units.py`) is the model `Ds.Units`

* `TIER_init`, `TIER_getitem`, `TIER_union`, `TIER_prefix`, `TIER_union_prefixed`: `Units(...)`, `units[key]`, `Units.union`, `Units.prefix` are the model's `mk`, `getItem`, `union`, `prefixWith`.
* `TIER_eq_ok`, `TIER_eq_err`: `units[key] == value` — `Units.__getitem__` followed by `Unit.__eq__` — is the model's `eqPred`: on success the registry afterwards and the
  stored pair `Equality.data`; on failure the exception class, and the registry keeps the key that `units[key]` appended before the comparison failed.
* `TIER_from_data`: the lookups of `Equality.from_data` are the model's `fromData`.
* `TIER_roundtrip`: hence (`C11_units_roundtrip`) the pair stored for `units[key] == value` reads back as `(key, value)` and no other pair does, for the source as written.
-/
open Ds Ds.Units

namespace DsProofs.TieR

def regOf (u : U) : GenR.Reg := (u.keys, u.cands, u.frozenU, u.frozenC)
def toR : Except Err U → Except String GenR.Reg
  | .ok u => .ok (regOf u)
  | .error e => .error e.name

theorem TIER_init (us cs : Option (List Int)) : GenR.units_init us cs = regOf (mk us cs) := by
  cases us <;> cases cs <;> rfl

theorem TIER_getitem (u : U) (k : Int) : GenR.units_getitem (regOf u) k = toR (getItem u k) := by
  unfold GenR.units_getitem getItem regOf
  by_cases hm : k ∈ u.keys
  · simp [hm, toR, regOf, pure, Except.pure]
  · by_cases hf : u.frozenU = true
    · simp [hm, hf, toR, throw, throwThe, MonadExceptOf.throw, Err.name]
    · simp [hm, hf, toR, regOf, pure, Except.pure]

theorem unit_eq_spec (u : U) (v : Int) :
    GenR.unit_eq (regOf u) v =
      if v ∈ u.cands then .ok (regOf u) else if u.frozenC = true then .error "ValueError" else .ok (regOf { u with cands := u.cands ++ [v] }) := by
  unfold GenR.unit_eq regOf
  by_cases hm : v ∈ u.cands
  · simp [hm, pure, Except.pure]
  · by_cases hf : u.frozenC = true
    · simp [hm, hf, throw, throwThe, MonadExceptOf.throw]
    · simp [hm, hf, pure, Except.pure]

theorem indexOf_cast (l : List Int) (x : Int) : Np.indexOf l x = ((l.idxOf x : Nat) : Int) := rfl

/-- `units[key] == value` succeeds in the model: both translated steps succeed, the registry afterwards and the stored pair are the model's -/
theorem TIER_eq_ok (u u' : U) (k v : Int) (d : Nat × Nat) (h : eqPred u k v = (u', .ok d)) :
    (GenR.units_getitem (regOf u) k >>= fun r => GenR.unit_eq r v) = .ok (regOf u')
      ∧ GenR.equality_data (regOf u') k v = [(d.1 : Int), (d.2 : Int)] := by
  unfold eqPred at h
  rw [TIER_getitem]
  cases hg : getItem u k with
  | error e => rw [hg] at h; simp at h
  | ok u1 =>
    rw [hg] at h
    simp only [toR, bind, Except.bind, unit_eq_spec]
    by_cases hm : v ∈ u1.cands
    · simp only [hm, List.contains_eq_mem, decide_true, if_true] at h ⊢
      obtain ⟨rfl, hd⟩ := Prod.mk.inj h
      cases hd
      exact ⟨rfl, rfl⟩
    · by_cases hf : u1.frozenC = true
      · simp [hm, hf] at h
      · simp only [hm, hf, List.contains_eq_mem, decide_false, Bool.false_eq_true, if_false] at h ⊢
        obtain ⟨rfl, hd⟩ := Prod.mk.inj h
        cases hd
        exact ⟨rfl, rfl⟩

/-- `units[key] == value` fails in the model: the translation fails with the same exception class at the same step, and the registry the model reports is the one
the translation has reached (the key appended by `units[key]` stays when the comparison then fails) -/
theorem TIER_eq_err (u u' : U) (k v : Int) (e : Err) (h : eqPred u k v = (u', .error e)) :
    (GenR.units_getitem (regOf u) k = .error e.name ∧ u' = u)
      ∨ (GenR.units_getitem (regOf u) k = .ok (regOf u') ∧ GenR.unit_eq (regOf u') v = .error e.name) := by
  unfold eqPred at h
  rw [TIER_getitem]
  cases hg : getItem u k with
  | error e1 =>
    rw [hg] at h
    obtain ⟨rfl, he⟩ := Prod.mk.inj h
    cases he
    exact Or.inl ⟨rfl, rfl⟩
  | ok u1 =>
    rw [hg] at h
    right
    by_cases hm : v ∈ u1.cands
    · simp [hm] at h
    · by_cases hf : u1.frozenC = true
      · simp only [hm, hf, List.contains_eq_mem, decide_false, Bool.false_eq_true, if_false, if_true] at h
        obtain ⟨rfl, he⟩ := Prod.mk.inj h
        cases he
        refine ⟨rfl, ?_⟩
        rw [unit_eq_spec]
        simp [hm, hf, Err.name]
      · simp [hm, hf] at h

theorem getE_nat (l : List Int) (i : Nat) : Np.getE l (i : Int) = match l[i]? with | some x => .ok x | none => .error "IndexError" := by
  unfold Np.getE Np.pyIdx
  by_cases hi : i < l.length
  · simp [hi, List.getElem?_eq_getElem hi, pure, Except.pure]
  · have : l[i]? = none := List.getElem?_eq_none (by omega)
    simp [hi, this, throw, throwThe, MonadExceptOf.throw]

theorem TIER_from_data (u : U) (d : Nat × Nat) :
    GenR.equality_from_data (regOf u) (d.1 : Int) (d.2 : Int) = (match fromData u d with | .ok kv => .ok kv | .error e => .error e.name) := by
  unfold GenR.equality_from_data fromData regOf
  simp only [getE_nat]
  cases h1 : u.keys[d.1]? <;> cases h2 : u.cands[d.2]? <;> simp [bind, Except.bind, pure, Except.pure, throw, throwThe, MonadExceptOf.throw, Err.name]

theorem TIER_union (u o : U) : GenR.units_union (regOf u) (regOf o) = regOf (union u o) := by
  unfold GenR.units_union union regOf
  have h : ∀ (l init : List Int),
      l.foldl (fun (t : List Int) (key : Int) => if !(t.contains key) then t ++ [key] else t) init
        = l.foldl (fun ks k => if ks.contains k then ks else ks ++ [k]) init := by
    intro l
    induction l with
    | nil => intro init; rfl
    | cons x xs ih =>
      intro init
      simp only [List.foldl_cons]
      by_cases hc : init.contains x <;> simp [hc, ih]
  simp only [h]

theorem TIER_prefix (f : Int → Int) (u : U) : GenR.units_prefix f (regOf u) = regOf (prefixWith u f) := rfl

/-- `Units.union(other, prefix, other_prefix)`: both registries renamed first, then merged — the model's `union` of the two `prefixWith` -/
theorem TIER_union_prefixed (f g : Int → Int) (u o : U) :
    GenR.units_union (GenR.units_prefix f (regOf u)) (GenR.units_prefix g (regOf o)) = regOf (union (prefixWith u f) (prefixWith o g)) := by
  rw [TIER_prefix, TIER_prefix, TIER_union]

/-- the pair stored for `units[key] == value` reads back as `(key, value)`, and no other pair does — for the source as written -/
theorem TIER_roundtrip (u u' : U) (k v : Int) (d : Nat × Nat) (hI : DsProofs.Units.Inv u) (h : eqPred u k v = (u', .ok d)) :
    GenR.equality_from_data (regOf u') (d.1 : Int) (d.2 : Int) = .ok (k, v)
      ∧ ∀ d' : Nat × Nat, GenR.equality_from_data (regOf u') (d'.1 : Int) (d'.2 : Int) = .ok (k, v) ↔ d' = d := by
  obtain ⟨h1, h2⟩ := DsProofs.C11Units.C11_units_roundtrip hI h
  refine ⟨by rw [TIER_from_data, h1], fun d' => ?_⟩
  rw [TIER_from_data, ← h2 d']
  cases fromData u' d' <;> simp

/-! ### non-vacuity -/
example : (GenR.units_getitem (GenR.units_init none (some [0, 1])) 7 >>= fun r => GenR.unit_eq r 1) = .ok ([7], [0, 1], false, true) := by rfl
example : GenR.units_getitem (GenR.units_init (some [3, 4]) none) 7 = .error "KeyError" := by rfl
example : GenR.equality_data ([7, 9], [0, 1], false, true) 9 1 = [1, 1] := by decide

end DsProofs.TieR
