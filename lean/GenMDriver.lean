import Lean.Data.Json
import GenM.Walk
/-!
# genmdriver — runs the TRANSLATED Monte-Carlo walk (`GenM/Walk.lean`, regenerated from /repo) on a concrete utility table

Request (one JSON object per line): `{"n": units, "null": "p/q", "mean": "p/q", "tolerance": "p/q", "truncation_steps": T, "perm": [unit, …], "table": [[[a_0,…,a_{n-1}], kind, cls, "p/q"], …]}` where each table row says
what evaluating the coalition with assignment vector `a` does: kind `"val"` (returns the value), `"exc"` (raises class `cls`), `"warn"`
(emits warning category `cls`, would return the value).  An assignment missing from the table raises class `"Missing"`.
Answer: `{"ok": [marginal per unit], "counter": …, "cut_at": [j+1 if the walk was truncated else n]}` or `{"raised": "<class>"}`.
-/
open Lean

def parseRat (s : String) : Except String Rat :=
  match s.splitOn "/" with
  | [p] => match p.toInt? with | some i => pure (i : Rat) | none => throw s!"bad rational {s}"
  | [p, q] => match p.toInt?, q.toNat? with
      | some i, some d => if d == 0 then throw s!"zero denominator {s}" else pure ((i : Rat) / (d : Rat))
      | _, _ => throw s!"bad rational {s}"
  | _ => throw s!"bad rational {s}"

def ratStr (q : Rat) : String := if q.den == 1 then toString q.num else s!"{q.num}/{q.den}"

def getRat (j : Json) : Except String Rat := match j with
  | .str s => parseRat s
  | _ => do let i ← j.getInt?; pure (i : Rat)

instance : Inhabited Rat := ⟨0⟩

def parseRow (j : Json) : Except String (List Int × Np.Out Rat) := do
  let a ← j.getArr?
  if a.size != 4 then throw "table row: [assignment, kind, cls, value]"
  let asg ← (← a[0]!.getArr?).toList.mapM Json.getInt?
  let kind ← a[1]!.getStr?
  let cls ← a[2]!.getStr?
  let v ← getRat a[3]!
  match kind with
  | "val" => pure (asg, .val v)
  | "exc" => pure (asg, .exc cls)
  | "warn" => pure (asg, .warn cls v)
  | _ => throw s!"kind {kind}"

def handle (j : Json) : Except String Json := do
  let n ← (← j.getObjVal? "n").getNat?
  let null ← getRat (← j.getObjVal? "null")
  let mean ← getRat (← j.getObjVal? "mean")
  let tol ← getRat (← j.getObjVal? "tolerance")
  let T ← (← j.getObjVal? "truncation_steps").getInt?
  let perm ← (← (← j.getObjVal? "perm").getArr?).toList.mapM Json.getInt?
  let rows ← (← (← j.getObjVal? "table").getArr?).toList.mapM parseRow
  let body : List Int → Rat → Np.Out Rat := fun a _ =>
    match rows.find? (fun r => r.1 == a) with
    | some r => r.2
    | none => .exc "Missing"
  let units : List Int := (List.range n).map (fun (k : Nat) => (k : Int))
  let world : List Int := List.replicate n 1
  match GenM.mc_walk (fun a => a) body null mean tol T (n : Int) (n : Int) units world perm [(n : Int)] 0 with
  | .ok r => pure (Json.mkObj [("ok", Json.arr (r.1.map (fun q => Json.str (ratStr q))).toArray), ("counter", Json.num r.2.2.2.1),
      ("cut_at", Json.arr (r.2.2.2.2.map (fun (z : Int) => Json.num z)).toArray)])
  | .error e => pure (Json.mkObj [("raised", Json.str e)])

partial def loop (hin hout : IO.FS.Stream) : IO Unit := do
  let line ← hin.getLine
  if line.isEmpty then return ()
  let out := match Json.parse line with
    | .error e => (Json.mkObj [("bad", Json.str e)]).compress
    | .ok j => match handle j with
      | .ok r => r.compress
      | .error e => (Json.mkObj [("bad", Json.str e)]).compress
  hout.putStrLn out
  hout.flush
  loop hin hout

def main : IO Unit := do
  loop (← IO.getStdin) (← IO.getStdout)
