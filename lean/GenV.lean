import GenV.Value
