import TieU.ElemProofs
import TieU.NullProofs
import DsProofs.Properties.C14
/-!
# TIEU — theorems about the element-wise utility tables AS THEY ARE WRITTEN NOW (`GenU/Elem.lean`, regenerated from /repo by `harness/translate_util.py`)

`np.unique` is a parameter (`uniq`): the statements hold for whatever class list it returns.

* `TIEU_acc_elem`: the translated `SklearnModelAccuracy.elementwise_score` is the model table `accElem` (`[c][j] = (classes[c] == y_test[j])`).
* `TIEU_acc_null`: the translated `SklearnModelAccuracy.elementwise_null_score` (running minimum from `np.inf`, strict `>`) is `accNullElem`.
* `TIEU_auc_elem`: the translated `SklearnModelRocAuc.elementwise_score` is `aucElem` wherever that is defined (no class with count 0 or `n`: the code
  divides by those counts).
* `TIEU_C14_acc`, `TIEU_C14_acc_null`, `TIEU_C14_auc`: hence C14's clauses hold of the source as written: mean element-wise score of any prediction
  vector = its accuracy; the null row is the indicator row of the first training class of lowest constant-prediction accuracy and its mean is the null
  score; binary ROC-AUC element-wise entries sum to the ROC-AUC of the hard predictions.
-/
open Ds.Util Ds.GenElem

namespace DsProofs.TieU

theorem TIEU_acc_elem (uniq : List Int → List Int) (ytr yte : List Int) :
    (GenU.acc_elementwise_score uniq ytr yte : List (List ℚ)) = accElem (uniq ytr) yte :=
  acc_elem_eq uniq ytr yte

theorem TIEU_acc_null (uniq : List Int → List Int) (ytr yte : List Int) :
    (GenU.acc_elementwise_null_score uniq ytr yte : List ℚ) = accNullElem (uniq ytr) yte :=
  acc_null_eq uniq ytr yte

theorem TIEU_auc_elem (uniq : List Int → List Int) (ytr yte : List Int) (M : List (List ℚ))
    (h : aucElem (uniq ytr) yte = some M) :
    (GenU.auc_elementwise_score uniq ytr yte : List (List ℚ)) = M :=
  auc_elem_eq uniq ytr yte M h

/-- **C14 (accuracy) for the translated source**: for predictions drawn from the training classes, the mean over validation points of the
selected table entries is the accuracy of the predictions. -/
theorem TIEU_C14_acc (uniq : List Int → List Int) (ytr yte pred : List Int) (hlen : pred.length = yte.length)
    (hmem : ∀ p ∈ pred, p ∈ uniq ytr) :
    mean ((List.range yte.length).map
        (fun j => (((GenU.acc_elementwise_score uniq ytr yte : List (List ℚ))).getD ((uniq ytr).idxOf (pred.getD j 0)) []).getD j 0))
      = accuracy yte pred := by
  rw [TIEU_acc_elem]
  exact DsProofs.C14.C14_acc (uniq ytr) yte pred hlen hmem

/-- **C14 (accuracy null score) for the translated source.** -/
theorem TIEU_C14_acc_null (uniq : List Int → List Int) (ytr yte : List Int) (hc : uniq ytr ≠ []) :
    ∃ m, mean (GenU.acc_elementwise_null_score uniq ytr yte : List ℚ) = m ∧ accNull (uniq ytr) yte = some m
      ∧ (∀ x ∈ uniq ytr, m ≤ accuracy yte (yte.map (fun _ => x)))
      ∧ (∃ c ∈ uniq ytr, m = accuracy yte (yte.map (fun _ => c))) := by
  rw [TIEU_acc_null]
  exact DsProofs.C14.C14_acc_null_min (uniq ytr) yte hc

/-- **C14 (ROC-AUC) for the translated source**: binary labels `a ≠ b`, both present in the validation labels, `np.unique(y_train) = [a, b]`. -/
theorem TIEU_C14_auc (uniq : List Int → List Int) (ytr yte pred : List Int) (a b : Int) (hu : uniq ytr = [a, b]) (hab : a ≠ b)
    (hy : ∀ y ∈ yte, y = a ∨ y = b) (ha : a ∈ yte) (hb : b ∈ yte) (hlen : pred.length = yte.length)
    (hp : ∀ p ∈ pred, p = a ∨ p = b) :
    aucHard b yte pred
      = some (((List.range yte.length).map
          (fun j => (((GenU.auc_elementwise_score uniq ytr yte : List (List ℚ))).getD ([a, b].idxOf (pred.getD j 0)) []).getD j 0)).sum) := by
  obtain ⟨M, hM, hsum⟩ := DsProofs.C14.C14_auc yte pred a b hab hy ha hb hlen hp
  rw [TIEU_auc_elem uniq ytr yte M (by rw [hu]; exact hM)]
  exact hsum.1

/-- the translated `SklearnModelRocAuc.elementwise_null_score` (the constant prediction of the LEAST FREQUENT validation class, scored one class at a time: a point of that
class earns `1/p` as a true positive of its own class and `1/n` as a true negative of every other class, halved and averaged over the classes; every other point earns 0 —
the code divides by the class counts of the VALIDATION labels) is the model's `aucNullElem` wherever that is defined (at least two classes among the validation labels);
`uniq` = `np.unique`, whose contract (sorted distinct values) is the hypothesis -/
theorem TIEU_auc_null (uniq : List Int → List Int) (ytr yte : List Int) (v : List ℚ)
    (hu : uniq yte = Ds.Util.unique yte) (h : aucNullElem yte = some v) :
    (GenU.auc_elementwise_null_score uniq ytr yte : List ℚ) = v :=
  auc_null_eq uniq ytr yte v hu h

/-! ### non-vacuity -/
example : (GenU.auc_elementwise_null_score (fun _ => [0, 1]) [] [1, 0, 1, 1] : List ℚ) = [0, 1 / 2, 0, 0] := by decide +kernel
example : (GenU.acc_elementwise_score (fun _ => [0, 1, 2]) [2, 0, 1, 0] [1, 1, 2] : List (List ℚ)) = [[0, 0, 0], [1, 1, 0], [0, 0, 1]] := by
  decide +kernel
example : (GenU.acc_elementwise_null_score (fun _ => [0, 1, 2]) [2, 0, 1, 0] [1, 1, 2] : List ℚ) = [0, 0, 0] := by decide +kernel
example : (GenU.auc_elementwise_score (fun _ => [0, 1]) [0, 1] [0, 1, 1] : List (List ℚ)) = [[1/2, 0, 0], [0, 1/4, 1/4]] := by decide +kernel

end DsProofs.TieU
