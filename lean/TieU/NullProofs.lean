import TieU.ElemProofs
import Tie.NpProofs
/-!
# TieU.NullProofs — the translated `SklearnModelRocAuc.elementwise_null_score` is the model's `aucNullElem`
-/
open Ds Ds.Util

namespace Ds.GenElem

/-! ### `np.argmin` of the counts = first index of the minimum -/

theorem foldl_min_le (l : List ℕ) (b : ℕ) : l.foldl min b ≤ b := by
  induction l generalizing b with
  | nil => exact Nat.le_refl _
  | cons y ys ih =>
    simp only [List.foldl_cons]
    exact Nat.le_trans (ih _) (Nat.min_le_left _ _)

/-- the running-minimum scan of `Np.argminI`, started with best value `b` found at `bi`, next position `i` -/
theorem argminI_go (ys : List ℕ) (b bi i : ℕ) :
    Np.argminI.go ((b : ℕ) : Int) bi i (ys.map (fun k : ℕ => (k : Int)))
      = if ys.foldl min b < b then i + ys.idxOf (ys.foldl min b) else bi := by
  induction ys generalizing b bi i with
  | nil => simp [Np.argminI.go]
  | cons y ys ih =>
    simp only [List.map_cons, Np.argminI.go, List.foldl_cons, Nat.cast_lt]
    have hm := foldl_min_le ys (min b y)
    by_cases hy : y < b
    · have hmin : min b y = y := Nat.min_eq_right (Nat.le_of_lt hy)
      rw [if_pos hy, ih]
      simp only [hmin]
      rw [hmin] at hm
      have hlt : ys.foldl min y < b := Nat.lt_of_le_of_lt hm hy
      rw [if_pos hlt]
      by_cases h2 : ys.foldl min y < y
      · rw [if_pos h2]
        have hne : ¬ y = ys.foldl min y := by omega
        rw [List.idxOf_cons_ne _ hne]
        omega
      · rw [if_neg h2]
        have he : y = ys.foldl min y := by omega
        rw [← he, List.idxOf_cons_self]
        rfl
    · have hmin : min b y = b := Nat.min_eq_left (by omega)
      rw [if_neg hy, ih]
      simp only [hmin]
      by_cases h2 : ys.foldl min b < b
      · rw [if_pos h2, if_pos h2]
        have hne : ¬ y = ys.foldl min b := by omega
        rw [List.idxOf_cons_ne _ hne]
        omega
      · rw [if_neg h2, if_neg h2]

/-- `np.argmin` of a vector of naturals: first position of `foldl min` -/
theorem argminI_cast (l : List ℕ) :
    Np.argminI (l.map (fun k : ℕ => (k : Int))) = ((l.idxOf (l.foldl min (l.headD 0)) : ℕ) : Int) := by
  cases l with
  | nil => rfl
  | cons a t =>
    simp only [List.map_cons, Np.argminI, List.headD_cons, List.foldl_cons, Nat.min_self]
    rw [argminI_go]
    have hm := foldl_min_le t a
    congr 1
    by_cases h2 : t.foldl min a < a
    · rw [if_pos h2]
      have hne : ¬ a = t.foldl min a := by omega
      rw [List.idxOf_cons_ne _ hne]
      omega
    · rw [if_neg h2]
      have he : a = t.foldl min a := by omega
      rw [← he, List.idxOf_cons_self]

theorem countsOf_eq (cls y : List Int) :
    Np.countsOf cls y = (cls.map (count y)).map (fun k : ℕ => (k : Int)) := by
  unfold Np.countsOf count
  rw [List.map_map]
  rfl

/-- `classes[np.argmin(counts)]` is the model's least frequent class -/
theorem least_frequent_eq (cls y : List Int) :
    Np.get1 cls (Np.argminI (Np.countsOf cls y))
      = cls.getD ((cls.map (count y)).idxOf ((cls.map (count y)).foldl min ((cls.map (count y)).headD 0))) 0 := by
  rw [countsOf_eq, argminI_cast, Np.get1_natCast]
  rfl

/-! ### vectors tabulated over the validation labels -/

theorem fullLike_fullLike {γ : Type} (y : List γ) (x c : Int) : Np.fullLike (Np.fullLike y x) c = Np.fullLike y c := by
  unfold Np.fullLike
  rw [List.map_map]
  rfl

theorem eqVV_fullLike_left (y : List Int) (x : Int) : Np.eqVV (Np.fullLike y x) y = y.map (fun v => x == v) := by
  unfold Np.eqVV Np.fullLike
  induction y with
  | nil => rfl
  | cons a t ih => simp only [List.map_cons, List.zipWith_cons_cons, ih]

theorem neVV_fullLike_left (y : List Int) (x : Int) : Np.neVV (Np.fullLike y x) y = y.map (fun v => x != v) := by
  unfold Np.neVV Np.fullLike
  induction y with
  | nil => rfl
  | cons a t ih => simp only [List.map_cons, List.zipWith_cons_cons, ih]

theorem and1_map {ν : Type} (vs : List ν) (f g : ν → Bool) :
    Np.and1 (vs.map f) (vs.map g) = vs.map (fun v => f v && g v) := by
  unfold Np.and1
  rw [zipWith_map_self]

theorem b2f1_map {ν : Type} (vs : List ν) (f : ν → Bool) :
    (Np.b2f1 (vs.map f) : List ℚ) = vs.map (fun v => ind (f v)) := by
  unfold Np.b2f1
  simp [List.map_map, Function.comp_def, b2f_ind]

theorem zerosLikeF_map {ν : Type} (vs : List ν) : (Np.zerosLikeF vs : List ℚ) = vs.map (fun _ => (0 : ℚ)) := by
  simp [Np.zerosLikeF]

/-- accumulating tabulated vectors entry by entry (the 1-D `foldl_tab`) -/
theorem foldl_vec {ν : Type} (vs : List ν) (cs : List Int) (F : Int → ν → ℚ) (G : ν → ℚ) :
    cs.foldl (fun R c => List.zipWith (fun x y => x + y) R (vs.map (F c))) (vs.map G)
      = vs.map (fun v => G v + (cs.map (fun c => F c v)).sum) := by
  induction cs generalizing G with
  | nil => simp
  | cons c cs ih =>
    simp only [List.foldl_cons, zipWith_map_self, List.map_cons, List.sum_cons]
    rw [ih]
    apply List.map_congr_left
    intro v _
    ring

end Ds.GenElem

namespace DsProofs.TieU
open Ds.GenElem

/-- wherever the model's `aucNullElem` is defined (at least two classes among the validation labels), the translated method returns it; `uniq` = `np.unique` (its
contract — sorted distinct values — is the hypothesis `hu`; the counts of `return_counts=True` are `Np.countsOf`) -/
theorem auc_null_eq (uniq : List Int → List Int) (ytr yte : List Int) (v : List ℚ)
    (hu : uniq yte = Util.unique yte) (h : aucNullElem yte = some v) :
    (GenU.auc_elementwise_null_score uniq ytr yte : List ℚ) = v := by
  unfold aucNullElem at h
  simp only [] at h
  split_ifs at h
  simp only [Option.some.injEq] at h
  rw [← h]
  unfold GenU.auc_elementwise_null_score
  simp only [hu, least_frequent_eq, fullLike_fullLike, eqVV_fullLike_left, neVV_fullLike_left, and1_map, b2f1_map,
    zerosLikeF_map, countEq, countNe, List.map_map, Function.comp_def, zipWith_map_self]
  generalize (unique yte).getD ((List.map (count yte) (unique yte)).idxOf
    (List.foldl min ((List.map (count yte) (unique yte)).headD 0) (List.map (count yte) (unique yte)))) 0 = lf
  rw [foldl_vec, List.map_map]
  apply List.map_congr_left
  intro y _
  have h1 : (Np.ofInt 1 : ℚ) = 1 := by simp [Np.ofInt]
  have h2 : (Np.ofInt 2 : ℚ) = 2 := by simp [Np.ofInt]
  have h3 : (Np.ofInt (Np.len1 (unique yte)) : ℚ) = (((unique yte).length : ℕ) : ℚ) := by simp [Np.ofInt, Np.len1]
  simp only [Function.comp, h1, h2, h3, zero_add]
  congr 2
  apply List.map_congr_left
  intro c _
  rw [ind_and, ind_and]

/-! ### non-vacuity: validation labels `[1, 0, 1, 1]` (classes `[0, 1]`, counts `[1, 3]`, least frequent class 0) -/

/-- (`mergeSort` is defined by well-founded recursion, so `unique` is evaluated by `simp`, not by `decide`) -/
theorem ex_unique : Util.unique [1, 0, 1, 1] = [0, 1] := by
  simp [Util.unique, List.mergeSort, List.MergeSort.Internal.splitInTwo, List.eraseDups_cons]

theorem ex_model : aucNullElem [1, 0, 1, 1] = some [0, 1 / 2, 0, 0] := by
  unfold aucNullElem
  rw [ex_unique]
  decide +kernel

/-- the translated method evaluated directly -/
example : (GenU.auc_elementwise_null_score (fun _ => [0, 1]) [] [1, 0, 1, 1] : List ℚ) = [0, 1 / 2, 0, 0] := by
  decide +kernel

/-- the theorem applies to that input (both hypotheses hold) -/
example : (GenU.auc_elementwise_null_score (fun _ => [0, 1]) [7, 7] [1, 0, 1, 1] : List ℚ) = [0, 1 / 2, 0, 0] :=
  auc_null_eq (fun _ => [0, 1]) [7, 7] [1, 0, 1, 1] _ ex_unique.symm ex_model

end DsProofs.TieU

#print axioms DsProofs.TieU.auc_null_eq
