import GenU.Elem
import Ds.Util
import TieJ.JointProofs
/-!
# The translated element-wise utility tables (`GenU/Elem.lean`, regenerated from /repo) equal the model (`Ds.Util.accElem`, `accNullElem`, `aucElem`)
Helper lemmas; property-level statements in `TieU/Properties.lean`.
-/
open Ds.Util Ds.GenJoint

namespace Ds.GenElem

theorem b2f_ind (b : Bool) : (Np.b2f b : ℚ) = ind b := by
  unfold Np.b2f ind; cases b <;> simp

theorem beq_comm_int (a b : Int) : (a == b) = (b == a) := by
  by_cases h : a = b
  · subst h; rfl
  · have h' : ¬ b = a := fun e => h e.symm
    simp [h, h']

/-- `SklearnModelAccuracy.elementwise_score` -/
theorem acc_elem_eq (uniq : List Int → List Int) (ytr yte : List Int) :
    (GenU.acc_elementwise_score uniq ytr yte : List (List ℚ)) = accElem (uniq ytr) yte := by
  unfold GenU.acc_elementwise_score accElem Np.b2f2 Np.b2f1 Np.outerEq
  simp only [List.map_map]
  apply List.map_congr_left
  intro c _
  simp only [Function.comp, List.map_map]
  apply List.map_congr_left
  intro y _
  simp [b2f_ind]

theorem eqVV_fullLike (y : List Int) (x : Int) : Np.eqVV y (Np.fullLike y x) = y.map (fun v => v == x) := by
  unfold Np.eqVV Np.fullLike
  induction y with
  | nil => rfl
  | cons a t ih => simp only [List.map_cons, List.zipWith_cons_cons, ih]

theorem mean1_eq (l : List ℚ) : Np.mean1 l = mean l := by
  unfold Np.mean1 mean
  rw [sumGen_eq_sum]

theorem gtInf_eq (m : Option ℚ) (x : ℚ) : Np.gtInf m x = match m with | none => true | some v => decide (v > x) := by
  cases m <;> rfl

/-- `SklearnModelAccuracy.elementwise_null_score` -/
theorem acc_null_eq (uniq : List Int → List Int) (ytr yte : List Int) :
    (GenU.acc_elementwise_null_score uniq ytr yte : List ℚ) = accNullElem (uniq ytr) yte := by
  unfold GenU.acc_elementwise_null_score accNullElem
  simp only []
  have hz : (Np.zerosLikeF yte : List ℚ) = yte.map (fun _ => (0 : ℚ)) := by simp [Np.zerosLikeF]
  rw [hz]
  congr 1
  apply congrFun
  apply congrFun
  apply congrArg
  funext st x
  have he : (Np.b2f1 (Np.eqVV yte (Np.fullLike yte x)) : List ℚ) = yte.map (fun y => ind (y == x)) := by
    rw [eqVV_fullLike]
    simp [Np.b2f1, b2f_ind]
  rw [he, mean1_eq, gtInf_eq]
  rcases st with ⟨m, r⟩
  cases m with
  | none => simp
  | some v =>
    simp only []
    by_cases h : v > mean (yte.map (fun y => ind (y == x)))
    · simp [h]
    · simp [h]

end Ds.GenElem

namespace Ds.GenElem

/-- a matrix tabulated over row keys `ks` and column values `vs` -/
def tab {κ ν : Type} (ks : List κ) (vs : List ν) (f : κ → ν → ℚ) : List (List ℚ) := ks.map (fun k => vs.map (f k))
def tabB {κ ν : Type} (ks : List κ) (vs : List ν) (f : κ → ν → Bool) : List (List Bool) := ks.map (fun k => vs.map (f k))

theorem zipWith_map_self {A B C D : Type} (f : B → C → D) (g : A → B) (h : A → C) (l : List A) :
    List.zipWith f (l.map g) (l.map h) = l.map (fun a => f (g a) (h a)) := by
  induction l with
  | nil => rfl
  | cons a t ih => simp [ih]

theorem and2_tab {κ ν : Type} (ks : List κ) (vs : List ν) (f g : κ → ν → Bool) :
    Np.and2 (tabB ks vs f) (tabB ks vs g) = tabB ks vs (fun k v => f k v && g k v) := by
  unfold Np.and2 tabB
  rw [zipWith_map_self]
  apply List.map_congr_left
  intro k _
  unfold Np.and1
  rw [zipWith_map_self]

theorem b2f2_tab {κ ν : Type} (ks : List κ) (vs : List ν) (f : κ → ν → Bool) :
    (Np.b2f2 (tabB ks vs f) : List (List ℚ)) = tab ks vs (fun k v => ind (f k v)) := by
  unfold Np.b2f2 Np.b2f1 tabB tab
  simp [List.map_map, Function.comp_def, b2f_ind]

theorem mapM2_tab {κ ν : Type} (ks : List κ) (vs : List ν) (f : κ → ν → ℚ) (g : ℚ → ℚ) :
    Np.mapM2 g (tab ks vs f) = tab ks vs (fun k v => g (f k v)) := by
  unfold Np.mapM2 tab
  simp [List.map_map, Function.comp_def]

theorem zipM2_tab {κ ν : Type} (ks : List κ) (vs : List ν) (f g : κ → ν → ℚ) (h : ℚ → ℚ → ℚ) :
    Np.zipM2 h (tab ks vs f) (tab ks vs g) = tab ks vs (fun k v => h (f k v) (g k v)) := by
  unfold Np.zipM2 tab
  rw [zipWith_map_self]
  apply List.map_congr_left
  intro k _
  rw [zipWith_map_self]

theorem zeros2_tab (ks vs : List Int) : (Np.zeros2 (Np.len1 ks) (Np.len1 vs) : List (List ℚ)) = tab ks vs (fun _ _ => 0) := by
  unfold Np.zeros2 Np.len1 tab
  simp only [Int.toNat_natCast, Nat.cast_zero]
  rw [List.map_const', List.map_const']

theorem outerEq_tab (a b : List Int) : Np.outerEq a b = tabB a b (fun x y => x == y) := rfl
theorem outerNe_tab (a b : List Int) : Np.outerNe a b = tabB a b (fun x y => x != y) := rfl
theorem tabB_fullLike (a b : List Int) (c : Int) (f : Int → Int → Bool) :
    tabB (Np.fullLike a c) b f = tabB a b (fun _ y => f c y) := by
  unfold Np.fullLike tabB; simp

theorem countEq (y : List Int) (c : Int) : (Np.countTrueF (Np.eqVS y c) : ℚ) = ((count y c : ℕ) : ℚ) := by
  unfold Np.countTrueF Np.eqVS count
  rw [List.filter_map, List.length_map]
  rfl

theorem countNe (y : List Int) (c : Int) : (Np.countTrueF (Np.neVS y c) : ℚ) = (((y.length - count y c : ℕ)) : ℚ) := by
  unfold Np.countTrueF Np.neVS count
  rw [List.filter_map, List.length_map]
  congr 1
  show (y.filter (fun x => x != c)).length = y.length - (y.filter (· == c)).length
  induction y with
  | nil => rfl
  | cons a t ih =>
    have hle : (t.filter (· == c)).length ≤ t.length := List.length_filter_le _ _
    simp only [List.filter_cons, List.length_cons]
    by_cases h : a == c
    · have h' : (a != c) = false := by simp [bne, h]
      simp only [h, h', if_true, Bool.false_eq_true, if_false, List.length_cons]
      rw [ih]; omega
    · have h' : (a != c) = true := by simp [bne, h]
      simp only [h, h', if_true, Bool.false_eq_true, if_false, List.length_cons]
      rw [ih]; omega

/-- accumulating tabulated matrices entry by entry -/
theorem foldl_tab {κ ν : Type} (ks : List κ) (vs : List ν) (cs : List Int) (F : Int → κ → ν → ℚ) (G : κ → ν → ℚ) :
    cs.foldl (fun R c => Np.zipM2 (fun x y => x + y) R (tab ks vs (F c))) (tab ks vs G)
      = tab ks vs (fun k v => G k v + (cs.map (fun c => F c k v)).sum) := by
  induction cs generalizing G with
  | nil => simp
  | cons c cs ih =>
    simp only [List.foldl_cons, zipM2_tab, List.map_cons, List.sum_cons]
    rw [ih]
    unfold tab
    apply List.map_congr_left
    intro k _
    apply List.map_congr_left
    intro v _
    ring

theorem ind_and (a b : Bool) : ind (a && b) = ind a * ind b := by
  cases a <;> cases b <;> simp [ind]

/-- `SklearnModelRocAuc.elementwise_score`, whenever the model is defined (no class count is 0 or all) -/
theorem auc_elem_eq (uniq : List Int → List Int) (ytr yte : List Int) (M : List (List ℚ))
    (h : aucElem (uniq ytr) yte = some M) :
    (GenU.auc_elementwise_score uniq ytr yte : List (List ℚ)) = M := by
  unfold aucElem at h
  simp only [] at h
  split_ifs at h
  simp only [Option.some.injEq] at h
  rw [← h]
  unfold GenU.auc_elementwise_score
  simp only [outerEq_tab, outerNe_tab, tabB_fullLike, and2_tab, b2f2_tab, mapM2_tab, zipM2_tab, zeros2_tab,
    countEq, countNe]
  rw [foldl_tab (uniq ytr) yte (uniq ytr)
    (fun c k v => (ind (k == v && c == v) / ((count yte c : ℕ) : ℚ) + ind (k == v && c != v) / (((yte.length - count yte c : ℕ)) : ℚ))
      * ((Np.ofInt 1 : ℚ) / Np.ofInt 2))
    (fun _ _ => 0), mapM2_tab]
  unfold tab
  apply List.map_congr_left
  intro k _
  apply List.map_congr_left
  intro v _
  have h1 : (Np.ofInt 1 : ℚ) = 1 := by simp [Np.ofInt]
  have h2 : (Np.ofInt 2 : ℚ) = 2 := by simp [Np.ofInt]
  have h3 : (Np.ofInt (Np.len1 (uniq ytr)) : ℚ) = (((uniq ytr).length : ℕ) : ℚ) := by simp [Np.ofInt, Np.len1]
  simp only [h1, h2, h3, zero_add]
  congr 2
  apply List.map_congr_left
  intro c _
  rw [ind_and, ind_and]

end Ds.GenElem
