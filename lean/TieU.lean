import TieU.Properties
