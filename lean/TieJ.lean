import TieJ.Properties
