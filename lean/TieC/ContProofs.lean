import GenC.Container
import Ds.Prov
import TieQ.QueryProofs
/-!
# The translated container edits (`GenC/Container.lean`, regenerated from /repo) equal the model (`Ds.Prov.setItem`, `insert`, `delItem`)
-/
open Ds Ds.Prov Ds.GenQuery

namespace Ds.GenCont

def lit2 (l : Lit) : List Int := [l.1, l.2]
/-- `value.data` reshaped to 3-D, as the array the code sees -/
def v3 (e : Expr) : Np.V3 := ⟨e.height, e.width, e.data3.map (fun cj => cj.map lit2)⟩

theorem toA4_eq (p : P) : toA4 p = ⟨p.data.length, p.nDisj, p.nConj, p.data.map (fun row => row.map (fun cj => cj.map lit2))⟩ := rfl

theorem map_padTo {A B : Type} (f : A → B) (l : List A) (n : ℕ) (x : A) : (Expr.padTo l n x).map f = Np.padList (l.map f) n (f x) := by
  unfold Expr.padTo Np.padList
  simp

theorem padRow_map (r : Row) (d n : ℕ) :
    (padRow r d n).map (fun cj => cj.map lit2) = Np.padBlock (r.map (fun cj => cj.map lit2)) d n := by
  unfold padRow Np.padBlock padConj
  rw [map_padTo]
  simp only [List.map_map, Function.comp_def, map_padTo, List.map_replicate]
  rfl

theorem pyIdx_normIdx (len : ℕ) (i : Int) :
    normIdx len i = match Np.pyIdx len i with | some k => .ok k | none => .error Err.indexError := by
  unfold normIdx Np.pyIdx
  by_cases h0 : 0 ≤ i
  · by_cases h1 : i.toNat < len
    · have hA : 0 ≤ i ∧ i < (len : Int) := ⟨h0, by omega⟩
      rw [if_pos hA, if_pos h0, if_pos h1]; rfl
    · have hA : ¬ (0 ≤ i ∧ i < (len : Int)) := by intro h; omega
      have hB : ¬ (i < 0 ∧ -(len : Int) ≤ i) := by intro h; omega
      rw [if_neg hA, if_neg hB, if_pos h0, if_neg h1]; rfl
  · have hA : ¬ (0 ≤ i ∧ i < (len : Int)) := by intro h; omega
    by_cases h1 : (-i).toNat ≤ len
    · have hB : i < 0 ∧ -(len : Int) ≤ i := ⟨by omega, by omega⟩
      rw [if_neg hA, if_pos hB, if_neg h0, if_pos h1]; rfl
    · have hB : ¬ (i < 0 ∧ -(len : Int) ≤ i) := by intro h; omega
      rw [if_neg hA, if_neg hB, if_neg h0, if_neg h1]; rfl

/-- `__setitem__(int, expr)` -/
theorem setitem_eq (p : P) (i : Int) (e : Expr) :
    GenC.setitem_int (toA4 p) i (v3 e) = ((setItem p i e).map toA4).mapError Err.name := by
  unfold GenC.setitem_int setItem
  simp only [Np.shape4, Np.shapeV3, toA4_eq, v3]
  have h1 : ((1 : ℕ) = 0) = False := by simp
  have h2 : ((2 : ℕ) = 0) = False := by simp
  have h21 : ((2 : ℕ) = 1) = False := by simp
  simp only [h1, h2, h21, if_false, if_true]
  have hd : Np.imax (p.nDisj : Int) (e.height : Int) = ((max p.nDisj e.height : ℕ) : Int) := by
    unfold Np.imax; split_ifs <;> omega
  have hn : Np.imax (p.nConj : Int) (e.width : Int) = ((max p.nConj e.width : ℕ) : Int) := by
    unfold Np.imax; split_ifs <;> omega
  rw [hd, hn]
  simp only [Np.padA4, Np.padV3, Np.setRow4, Int.toNat_natCast, List.length_map]
  rw [pyIdx_normIdx]
  cases hk : Np.pyIdx p.data.length i with
  | none => rfl
  | some k =>
    simp only [bind, Except.bind, pure, Except.pure, Except.map, Except.mapError]
    congr 1
    simp only [toA4_eq, List.length_set]
    have hpad : Np.padList (List.map (fun row => Np.padBlock row (max p.nDisj e.height) (max p.nConj e.width))
          (p.data.map (fun row => row.map (fun cj => cj.map lit2)))) p.data.length
          (List.replicate (max p.nDisj e.height) (List.replicate (max p.nConj e.width) [-1, -1]))
        = (padData p.data (max p.nDisj e.height) (max p.nConj e.width)).map (fun row => row.map (fun cj => cj.map lit2)) := by
      unfold Np.padList padData
      simp only [List.length_map, Nat.sub_self, List.replicate_zero, List.append_nil, List.map_map, Function.comp_def, padRow_map]
    rw [hpad]
    have hlen : (padData p.data (max p.nDisj e.height) (max p.nConj e.width)).length = p.data.length := by simp [padData]
    congr 1
    · simp [hlen]
    · rw [List.map_set, padRow_map]

end Ds.GenCont

namespace Ds.GenCont

theorem map_insertIdx' {A B : Type} (f : A → B) (l : List A) (k : ℕ) (x : A) : (l.insertIdx k x).map f = (l.map f).insertIdx k (f x) := by
  induction l generalizing k with
  | nil => cases k <;> simp
  | cons a t ih =>
    cases k with
    | zero => simp
    | succ k => simp [ih]

theorem map_eraseIdx' {A B : Type} (f : A → B) (l : List A) (k : ℕ) : (l.eraseIdx k).map f = (l.map f).eraseIdx k := by
  induction l generalizing k with
  | nil => simp
  | cons a t ih =>
    cases k with
    | zero => simp
    | succ k => simp [ih]

/-- `insert(index, expr)` -/
theorem insert_eq (p : P) (i : Int) (e : Expr) :
    GenC.insert_int (toA4 p) i (v3 e) = ((Prov.insert p i e).map toA4).mapError Err.name := by
  unfold GenC.insert_int Prov.insert
  simp only []
  set k : ℕ := if i < 0 then (max ((p.data.length : Int) + i) 0).toNat else min i.toNat p.data.length with hk
  have hidx : (if (decide (i < (0 : Int))) then (Np.imax ((Np.shape4 (toA4 p) 0) + i) (0 : Int)) else (Np.imin i (Np.shape4 (toA4 p) 0))) = (k : Int) := by
    have h0 : Np.shape4 (toA4 p) 0 = (p.data.length : Int) := by simp [Np.shape4, toA4_eq]
    rw [h0, hk]
    by_cases hi : i < 0
    · simp only [hi, decide_true, if_true]
      unfold Np.imax
      split_ifs <;> omega
    · simp only [hi, decide_false, Bool.false_eq_true, if_false]
      unfold Np.imin
      split_ifs <;> omega
  rw [hidx]
  have hins : Np.insertRow4 (toA4 p) (k : Int) (-1)
      = toA4 { p with data := p.data.insertIdx k (List.replicate p.nDisj (List.replicate p.nConj padLit)) } := by
    have hkl : k ≤ p.data.length := by
      rw [hk]; split_ifs <;> omega
    simp only [Np.insertRow4, toA4_eq, Int.toNat_natCast, map_insertIdx', List.map_replicate]
    congr 1
    rw [List.length_insertIdx]
    simp [hkl]
  rw [hins]
  exact setitem_eq _ (k : Int) e

/-- `__delitem__(int)` -/
theorem delitem_eq (p : P) (i : Int) :
    GenC.delitem_int (toA4 p) i = ((delItem p i).map toA4).mapError Err.name := by
  unfold GenC.delitem_int delItem Np.deleteRow4
  simp only [toA4_eq]
  rw [pyIdx_normIdx]
  cases hk : Np.pyIdx p.data.length i with
  | none => rfl
  | some k =>
    have hlt : k < p.data.length := by
      unfold Np.pyIdx at hk
      split_ifs at hk <;> simp at hk <;> omega
    simp only [bind, Except.bind, pure, Except.pure, Except.map, Except.mapError, toA4_eq, map_eraseIdx']
    congr 2
    rw [List.length_eraseIdx]
    simp [hlt]

end Ds.GenCont
