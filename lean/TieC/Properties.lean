import TieC.ContProofs
import TieC.SelectProofs
import DsProofs.Properties.C12
import DsProofs.Properties.C19
/-!
# TIEC — the in-place edits of the provenance container with an integer index AS THEY ARE WRITTEN NOW (`GenC/Container.lean`, template translation by
`harness/translate_cont.py`: `_pad_array`, `Provenance.__setitem__`, `insert`, `__delitem__`, `__len__` must be exactly the known statements)

The container is its stored 4-D array with explicit shape (`toA4`), a formula is the 3-D array of `value.data` (`v3`).

* `TIEC_setitem`: `self[i] = expr` pads the stored array and the value to the larger of the two widths and writes row `i` (Python index; `IndexError` out of
  range) — exactly the model's `setItem` (so formulas wider or narrower than the stored ones are accepted: the F7 clause).
* `TIEC_insert`: the index is normalised as `list.insert` does, a row of padding is opened and assigned — the model's `insert` (the F15 clause).
* `TIEC_delitem`: `del self[i]` removes row `i` — the model's `delItem`.
Together with `C19_step` / `C19_history` (every modelled operation commutes with the abstraction to a plain list of formulas) these are C19's integer-index
clauses for the source as written; slice / list / mask indices stay hand-modelled.
-/
open Ds Ds.Prov Ds.GenQuery Ds.GenCont

namespace DsProofs.TieC

theorem TIEC_setitem (p : P) (i : Int) (e : Expr) :
    GenC.setitem_int (toA4 p) i (v3 e) = ((setItem p i e).map toA4).mapError Err.name := setitem_eq p i e

theorem TIEC_insert (p : P) (i : Int) (e : Expr) :
    GenC.insert_int (toA4 p) i (v3 e) = ((Prov.insert p i e).map toA4).mapError Err.name := insert_eq p i e

theorem TIEC_delitem (p : P) (i : Int) :
    GenC.delitem_int (toA4 p) i = ((delItem p i).map toA4).mapError Err.name := delitem_eq p i

/-- `Provenance.fork(sizes)` as written (template): the stored array with row `i` repeated `sizes[i]` times — the model's `fork` (`C12_fork`: for every assignment the
presence mask with each entry repeated accordingly) -/
theorem TIEC_fork (p : P) (sizes : List ℕ) :
    GenC.fork_rows (toA4 p) (sizes.map (fun k : ℕ => (k : Int))) = toA4 (Prov.fork p sizes) := fork_eq p sizes

/-- `Provenance.__getitem__` with a list / array of row positions as written (template; a FRESH array — the F20 clause): the model's `select` (`C12_select`) -/
theorem TIEC_getitem (p : P) (idx : List ℕ) (h : ∀ i ∈ idx, i < p.data.length) :
    GenC.getitem_rows (toA4 p) (idx.map (fun k : ℕ => (k : Int))) = .ok (toA4 (Prov.select p idx)) := getitem_eq p idx h

/-! ### non-vacuity: a 2-row container of width (1,1); assign a 2-disjunct formula at -1, insert at -1, delete out of range -/
def ex : Np.A4 Int := ⟨2, 1, 1, [[[[0, 1]]], [[[1, 1]]]]⟩
example : (GenC.setitem_int ex (-1) ⟨2, 1, [[[2, 1]], [[0, 0]]]⟩).toOption.map (·.v) = some [[[[0, 1]], [[-1, -1]]], [[[2, 1]], [[0, 0]]]] := by decide
example : (GenC.insert_int ex (-1) ⟨1, 1, [[[2, 1]]]⟩).toOption.map (·.v) = some [[[[0, 1]]], [[[2, 1]]], [[[1, 1]]]] := by decide
example : (GenC.delitem_int ex 2).toOption.map (·.v) = none := by decide

end DsProofs.TieC
