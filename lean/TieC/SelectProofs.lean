import TieC.ContProofs
open Ds Ds.Prov Ds.GenQuery Ds.GenCont

namespace DsProofs.TieC

/-- a stored row as nested lists of `[unit, candidate]` -/
def encRow (row : List (List Lit)) : List (List (List Int)) := row.map (fun cj => cj.map (fun l => [l.1, l.2]))

theorem toA4_eq (p : P) : toA4 p = ⟨p.data.length, p.nDisj, p.nConj, p.data.map encRow⟩ := rfl

theorem fork_flat (D : List (List (List Lit))) (S : List ℕ) :
    (List.zipWith (fun (a : List (List Lit)) (b : ℕ) => List.replicate b (encRow a)) D S).flatten
      = ((D.zip S).flatMap (fun rs => List.replicate rs.2 rs.1)).map encRow := by
  induction D generalizing S with
  | nil => simp
  | cons d ds ih =>
    cases S with
    | nil => simp
    | cons s ss =>
      simp only [List.zipWith_cons_cons, List.flatten_cons, List.zip_cons_cons, List.flatMap_cons, List.map_append, List.map_replicate]
      rw [ih ss]

theorem fork_eq (p : P) (sizes : List ℕ) :
    GenC.fork_rows (toA4 p) (sizes.map (fun k : ℕ => (k : Int))) = toA4 (Prov.fork p sizes) := by
  rw [toA4_eq, toA4_eq]
  unfold GenC.fork_rows Np.repeatRows4 Prov.fork
  simp only [List.zipWith_map_left, List.zipWith_map_right, Int.toNat_natCast, fork_flat, List.length_map]

theorem mapM_rows {β : Type} (f : Int → Except String β) (g : ℕ → β) (idx : List ℕ) (n : ℕ) (h : ∀ i ∈ idx, i < n)
    (hf : ∀ k : ℕ, k < n → f (k : Int) = .ok (g k)) :
    (idx.map (fun k : ℕ => (k : Int))).mapM f = .ok (idx.map g) := by
  induction idx with
  | nil => rfl
  | cons i is ih =>
    have hi : i < n := h i (by simp)
    rw [List.map_cons, List.mapM_cons, hf i hi, ih (fun j hj => h j (by simp [hj]))]
    rfl

theorem getitem_eq (p : P) (idx : List ℕ) (h : ∀ i ∈ idx, i < p.data.length) :
    GenC.getitem_rows (toA4 p) (idx.map (fun k : ℕ => (k : Int))) = .ok (toA4 (Prov.select p idx)) := by
  rw [toA4_eq, toA4_eq]
  unfold GenC.getitem_rows Np.takeRows4 Prov.select
  dsimp only
  rw [mapM_rows _ (fun k => (p.data.map encRow).getD k []) idx p.data.length h
    (by intro k hk; simp [Np.pyIdx_natCast, hk, pure, Except.pure])]
  have hsel : idx.filterMap (fun i => p.data[i]?) = idx.map (fun i => p.data.getD i []) := by
    clear * - h
    induction idx with
    | nil => rfl
    | cons i is ih =>
      have hi : i < p.data.length := h i (by simp)
      rw [List.filterMap_cons, List.map_cons, ← ih (fun j hj => h j (by simp [hj]))]
      simp [hi]
  rw [hsel]
  simp only [bind, Except.bind, pure, Except.pure, List.length_map, List.map_map]
  congr 2
  apply List.map_congr_left
  intro i hi
  have := h i hi
  simp [this]

end DsProofs.TieC
