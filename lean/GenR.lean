import GenR.Units
