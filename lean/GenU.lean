import GenU.Elem
