import Lean.Data.Json
import Ds
/-!
# dsdriver — line protocol around the executable model
One JSON request per input line, one JSON answer per output line:
`{"ok": …}` or `{"err": "<Python exception class>"}`; a malformed request answers `{"bad": "…"}`.
Rationals travel as strings `"p/q"` (or plain integers), doubles as their 64-bit patterns.
-/
open Lean Ds

/-! ## decoding -/

class FromJ (α : Type) where
  fromJ : Json → Except String α

def parseRat (s : String) : Except String Rat :=
  match s.splitOn "/" with
  | [p] => match p.toInt? with | some i => pure (i : Rat) | none => throw s!"bad rational {s}"
  | [p, q] => match p.toInt?, q.toNat? with
      | some i, some d => if d == 0 then throw s!"zero denominator {s}" else pure ((i : Rat) / (d : Rat))
      | _, _ => throw s!"bad rational {s}"
  | _ => throw s!"bad rational {s}"

instance : FromJ Json := ⟨pure⟩
instance : FromJ Nat := ⟨fun j => j.getNat?⟩
instance : FromJ Int := ⟨fun j => j.getInt?⟩
instance : FromJ Bool := ⟨fun j => j.getBool?⟩
instance : FromJ String := ⟨fun j => j.getStr?⟩
instance : FromJ Rat := ⟨fun j => match j with
  | .str s => parseRat s
  | _ => do let i ← j.getInt?; pure (i : Rat)⟩
instance : FromJ Float := ⟨fun j => do let n ← j.getNat?; pure (Float.ofBits n.toUInt64)⟩
instance {α} [FromJ α] : FromJ (List α) := ⟨fun j => do
  let a ← j.getArr?
  a.toList.mapM FromJ.fromJ⟩
instance {α} [FromJ α] : FromJ (Option α) := ⟨fun j => match j with
  | .null => pure none
  | _ => do let x ← FromJ.fromJ j; pure (some x)⟩
instance {α β} [FromJ α] [FromJ β] : FromJ (α × β) := ⟨fun j => do
  let a ← j.getArr?
  if a.size != 2 then throw "pair expected"
  let x ← FromJ.fromJ a[0]!
  let y ← FromJ.fromJ a[1]!
  pure (x, y)⟩

def get {α} [FromJ α] (j : Json) (k : String) : Except String α := do
  let v ← j.getObjVal? k
  match (FromJ.fromJ v : Except String α) with
  | .ok x => pure x
  | .error e => throw s!"{k}: {e}"

def getD {α} [FromJ α] (j : Json) (k : String) (d : α) : Except String α :=
  match j.getObjVal? k with
  | .ok v => match (FromJ.fromJ v : Except String α) with
      | .ok x => pure x
      | .error e => throw s!"{k}: {e}"
  | .error _ => pure d

/-! ## encoding -/

class ToJ (α : Type) where
  toJ : α → Json

def ratStr (q : Rat) : String := if q.den == 1 then toString q.num else s!"{q.num}/{q.den}"

instance : ToJ Json := ⟨id⟩
instance : ToJ Nat := ⟨fun n => Json.num n⟩
instance : ToJ Int := ⟨fun n => Json.num n⟩
instance : ToJ Bool := ⟨Json.bool⟩
instance : ToJ String := ⟨Json.str⟩
instance : ToJ Rat := ⟨fun q => Json.str (ratStr q)⟩
instance : ToJ Float := ⟨fun f => Json.num (f.toBits.toNat)⟩
instance {α} [ToJ α] : ToJ (List α) := ⟨fun l => Json.arr (l.map ToJ.toJ).toArray⟩
instance {α} [ToJ α] : ToJ (Option α) := ⟨fun o => match o with | none => Json.null | some x => ToJ.toJ x⟩
instance {α β} [ToJ α] [ToJ β] : ToJ (α × β) := ⟨fun p => Json.arr #[ToJ.toJ p.1, ToJ.toJ p.2]⟩

/-- result of one request -/
inductive Ans where
  | ok (j : Json)
  | err (e : Err)
  | bad (msg : String)

def Ans.render : Ans → String
  | .ok j => (Json.mkObj [("ok", j)]).compress
  | .err e => (Json.mkObj [("err", Json.str e.name)]).compress
  | .bad m => (Json.mkObj [("bad", Json.str m)]).compress

def ansOf {α} [ToJ α] : Except Err α → Ans
  | .ok x => .ok (ToJ.toJ x)
  | .error e => .err e

/-! ## provenance / expression transport -/

/-- expression tree: `{"eq":[u,c]}`, `{"and":[a,b]}`, `{"or":[a,b]}`, `{"conj":[[u,c],…]}`, `{"disj":[[[u,c],…],…]}` -/
partial def exprOf (j : Json) : Except String Prov.Expr := do
  if let .ok (uc : Nat × Nat) := get j "eq" then return .eq uc.1 uc.2
  if let .ok (es : List (Nat × Nat)) := get j "conj" then return .conj es
  if let .ok (cs : List (List (Nat × Nat))) := get j "disj" then return .disj cs
  if let .ok (ab : List Json) := get j "and" then
    match ab with
    | [a, b] => return (← exprOf a).and (← exprOf b)
    | _ => throw "and: two operands"
  if let .ok (ab : List Json) := get j "or" then
    match ab with
    | [a, b] => return (← exprOf a).or (← exprOf b)
    | _ => throw "or: two operands"
  throw "unknown expression"

instance : FromJ Prov.Expr := ⟨exprOf⟩

def exprJ : Prov.Expr → Json
  | .eq u c => Json.mkObj [("eq", ToJ.toJ (u, c))]
  | .conj es => Json.mkObj [("conj", ToJ.toJ es)]
  | .disj cs => Json.mkObj [("disj", ToJ.toJ cs)]
instance : ToJ Prov.Expr := ⟨exprJ⟩

/-- a container is sent either as raw `data` (4-D array) or as the list of expressions it is built from -/
def provOf (j : Json) : Except String Prov.P := do
  let nUnits : Nat ← get j "nUnits"
  let nCands : Nat ← getD j "nCands" 2
  if let .ok (es : List Prov.Expr) := get j "exprs" then
    return Prov.ofExprs es nUnits nCands
  if let .ok (ids : List Int) := get j "groups" then
    return Prov.ofGroups ids nCands
  if let .ok (_ : Bool) := get j "default" then
    return Prov.default nUnits nCands
  let data : List (List (List (Int × Int))) ← get j "data"
  let nDisj : Nat ← get j "nDisj"
  let nConj : Nat ← get j "nConj"
  return { data := data, nDisj := nDisj, nConj := nConj, nUnits := nUnits, nCands := nCands }

instance : FromJ Prov.P := ⟨provOf⟩

def provJ (p : Prov.P) : Json :=
  Json.mkObj [("data", ToJ.toJ p.data), ("nDisj", ToJ.toJ p.nDisj), ("nConj", ToJ.toJ p.nConj),
              ("nUnits", ToJ.toJ p.nUnits), ("len", ToJ.toJ p.data.length)]

/-- all assignments over `n` units and `C` candidates, product order -/
def allVals (C : Nat) : Nat → List (List Int)
  | 0 => [[]]
  | n + 1 => (List.range C).flatMap (fun c => (allVals C n).map (Int.ofNat c :: ·))

/-- truth table of every row of a container, assignments in product order (`null` = raised) -/
def truthTable (p : Prov.P) : Json :=
  ToJ.toJ ((allVals p.nCands p.nUnits).map (fun a => match Prov.query p a with
    | .ok m => (ToJ.toJ m : Json)
    | .error e => Json.str e.name))

def outcomeOf (j : Json) : Except String Outcome :=
  match j with
  | .str "ValueError" => pure .valueError
  | .str "RuntimeWarning" => pure .runtimeWarning
  | .str "UserWarning" => pure .userWarning
  | .str "Other" => pure .other
  | _ => do let q : Rat ← FromJ.fromJ j; pure (.ok q)
instance : FromJ Outcome := ⟨outcomeOf⟩

/-- table utility: outcome per set of selected rows (rows as ascending index list) -/
def tableLookup (tbl : List (List Nat × Outcome)) (rows : List Nat) : Outcome :=
  match tbl.find? (·.1 == rows) with
  | some e => e.2
  | none => .other

/-! ## container histories (C19) -/

/-- the object a request describes: the flag is on exactly for `Provenance(units=n)` -/
def objOf (j : Json) : Except String Prov.Obj := do
  let p ← provOf j
  let simple := match (get j "default" : Except String Bool) with | .ok _ => true | .error _ => false
  pure ⟨p, simple⟩

def objOpOf (op : Json) : Except String Prov.Obj.Op := do
  let kind : String ← get op "op"
  match kind with
  | "set" => do let i : Int ← get op "i"; let e : Prov.Expr ← get op "e"; pure (.set i e)
  | "insert" => do let i : Int ← get op "i"; let e : Prov.Expr ← get op "e"; pure (.insert i e)
  | "del" => do let i : Int ← get op "i"; pure (.del i)
  | "delmany" => do let idx : List Nat ← get op "idx"; pure (.delMany idx)
  | _ => throw s!"unknown mutation {kind}"

def historyStep (o : Prov.Obj) (op : Json) : Except String (Prov.Obj × Json) := do
  let kind : String ← get op "op"
  let p := o.p
  let wrap (r : Prov.Obj × Option Err) : Prov.Obj × Json := match r.2 with
    | none => (r.1, Json.str "ok")
    | some e => (r.1, Json.mkObj [("err", Json.str e.name)])
  let same (r : Prov.P × Json) : Prov.Obj × Json := ({ o with p := r.1 }, r.2)
  match kind with
  | "set" | "insert" | "del" | "delmany" => do pure (wrap (o.step (← objOpOf op)))
  | "append" => do let e : Prov.Expr ← get op "e"; pure (wrap (o.step (.insert p.data.length e)))
  | "select" => do let idx : List Nat ← get op "idx"; pure (o.select idx, Json.str "ok")
  | "fork" => do let sizes : List Nat ← get op "sizes"; pure (o.fork sizes, Json.str "ok")
  | "simple" => pure (o, ToJ.toJ o.simple)
  | _ => same <$> match kind with
  | "get" => do
      let i : Int ← get op "i"
      match Prov.getItem p i with
      | .ok e => pure (p, Json.mkObj [("expr", exprJ e)])
      | .error e => pure (p, Json.mkObj [("err", Json.str e.name)])
  | "len" => pure (p, ToJ.toJ p.data.length)
  | "table" => pure (p, truthTable p)
  | "query" => do
      let vals : List Int ← get op "vals"
      pure (p, match Prov.query p vals with | .ok m => ToJ.toJ m | .error e => Json.mkObj [("err", Json.str e.name)])
  | "queryIdx" => do
      let vals : List Int ← get op "vals"
      pure (p, match Prov.queryIdx p vals with | .ok m => ToJ.toJ m | .error e => Json.mkObj [("err", Json.str e.name)])
  | "queryDict" => do
      let d : List (Nat × Int) ← get op "dict"
      pure (p, match Prov.query p (Prov.ofDict p.nUnits d) with | .ok m => ToJ.toJ m | .error e => Json.mkObj [("err", Json.str e.name)])
  | "dump" => pure (p, provJ p)
  | _ => throw s!"unknown history op {kind}"

def runHistory (p : Prov.Obj) (ops : List Json) : Except String (List Json) := do
  let mut p := p
  let mut outs : List Json := []
  for op in ops do
    let (p', o) ← historyStep p op
    p := p'
    outs := outs ++ [o]
  pure outs

/-! ## ADD programs (C10) -/

abbrev DV (D : Dom) := Dd.Diagram (AVal D)

def avalJ {D : Dom} (v : AVal D) : Json := ToJ.toJ v.toList

def diagramJ {D : Dom} (d : DV D) : Json :=
  Json.mkObj [("units", ToJ.toJ d.units), ("root", ToJ.toJ d.root), ("diameter", ToJ.toJ d.diameter),
    ("nodes", ToJ.toJ (d.levels.map (fun lv => lv.map (fun nd => if nd.active then (1 : Nat) else 0)))),
    ("child", ToJ.toJ (d.levels.map (fun lv => lv.map (·.child)))),
    ("adder", Json.arr (d.levels.map (fun lv => Json.arr (lv.map (fun nd => Json.arr (nd.adder.map avalJ).toArray)).toArray)).toArray)]

def allArgs (C : Nat) : Nat → List (List Nat)
  | 0 => [[]]
  | n + 1 => (List.range C).flatMap (fun c => (allArgs C n).map (c :: ·))

def domOf (j : Json) : Except String Dom := do
  if let .ok (m : List Nat) := get j "box" then return .box m
  let t : List Nat ← get j "tally"
  match t with
  | [n, K, c] => return .tally n K c
  | _ => throw "tally: [n,K,c]"

def valOf (D : Dom) (j : Json) : Except String (AVal D) :=
  match j with
  | .null => pure none
  | _ => do
      let x : List Int ← FromJ.fromJ j
      match AVal.ofInts D x with
      | .ok v => pure v
      | .error _ => throw "value of wrong shape"

/-- registers hold diagrams; every step answers with an observation -/
def addStep (D : Dom) (regs : List (Nat × DV D)) (op : Json) : Except String (List (Nat × DV D) × Json) := do
  let kind : String ← get op "op"
  let reg (k : String) : Except String (DV D) := do
    let r : Nat ← get op k
    match regs.find? (·.1 == r) with
    | some e => pure e.2
    | none => throw s!"no register {r}"
  let store (r : Nat) (res : Except Err (DV D)) : List (Nat × DV D) × Json := match res with
    | .ok d => ((r, d) :: regs.filter (·.1 != r), Json.str "ok")
    | .error e => (regs, Json.mkObj [("err", Json.str e.name)])
  match kind with
  | "chain" => do
      let out : Nat ← get op "out"; let units : List Nat ← get op "units"; let C : Nat ← getD op "C" 2
      pure (store out (.ok (Dd.chain units C)))
  | "tree" => do
      let out : Nat ← get op "out"; let units : List Nat ← get op "units"; let C : Nat ← getD op "C" 2
      pure (store out (Dd.tree units C))
  | "stack" => do
      let out : Nat ← get op "out"; let factors : List Nat ← get op "factors"; let rs : List Nat ← get op "els"
      let els ← rs.mapM (fun r => match regs.find? (·.1 == r) with | some e => pure e.2 | none => throw s!"no register {r}")
      pure (store out (Dd.stack factors els))
  | "concat" => do
      let out : Nat ← get op "out"; let rs : List Nat ← get op "els"
      let els ← rs.mapM (fun r => match regs.find? (·.1 == r) with | some e => pure e.2 | none => throw s!"no register {r}")
      pure (store out (Dd.concatenate els))
  | "update" => do
      let d ← reg "d"; let out : Nat ← get op "d"
      let asg : List (Nat × Nat) ← get op "asg"; let v ← valOf D (← get op "v"); let inc : Bool ← get op "inc"
      match d.getUpdateLocation asg with
      | .ok loc => pure (store out (.ok (d.update loc v inc)))
      | .error e => pure (regs, Json.mkObj [("err", Json.str e.name)])
  | "setedge" => do
      let d ← reg "d"; let out : Nat ← get op "d"
      let loc : List (Nat × Nat × Nat) ← get op "loc"; let v ← valOf D (← get op "v"); let inc : Bool ← get op "inc"
      pure (store out (.ok (d.update loc v inc)))
  | "location" => do
      let d ← reg "d"; let asg : List (Nat × Nat) ← get op "asg"
      pure (regs, match d.getUpdateLocation asg with
        | .ok loc => ToJ.toJ (loc.mergeSort (fun a b => a.1 < b.1 || (a.1 == b.1 && (a.2.1 < b.2.1 || (a.2.1 == b.2.1 && a.2.2 ≤ b.2.2)))))
        | .error e => Json.mkObj [("err", Json.str e.name)])
  | "restrict" => do
      let d ← reg "d"; let out : Nat ← get op "out"; let u : Nat ← get op "unit"; let v : Nat ← get op "value"
      pure (store out (d.restrict u v))
  | "sum" => do
      let a ← reg "a"; let b ← reg "b"; let out : Nat ← get op "out"
      pure (store out (a.sum b))
  | "evalall" => do
      let d ← reg "d"
      pure (regs, Json.arr ((allArgs d.C d.units.length).map (fun a => match d.call a with
        | .ok v => avalJ v
        | .error e => Json.str e.name)).toArray)
  | "call" => do
      let d ← reg "d"; let args : List Nat ← get op "args"
      pure (regs, match d.call args with | .ok v => avalJ v | .error e => Json.mkObj [("err", Json.str e.name)])
  | "modelcount" => do
      let d ← reg "d"
      pure (regs, ToJ.toJ (d.modelcount AVal.sub? (D.vecs.map (AVal.clip D))))
  | "dump" => do
      let d ← reg "d"
      pure (regs, diagramJ d)
  | _ => throw s!"unknown add op {kind}"

def runAdd (D : Dom) (ops : List Json) : Except String (List Json) := do
  let mut regs : List (Nat × DV D) := []
  let mut outs : List Json := []
  for op in ops do
    match addStep D regs op with
    | .ok (r, o) =>
        regs := r
        outs := outs ++ [o]
    | .error e =>
        -- an operand register that was never defined (an earlier step failed): Python raises KeyError there
        if e.startsWith "no register" then outs := outs ++ [Json.mkObj [("err", Json.str "KeyError")]]
        else throw e
  pure outs

/-! ## dispatch -/

def orBad {α} (x : Except String α) (k : α → Ans) : Ans :=
  match x with
  | .ok v => k v
  | .error e => .bad e

def handle (j : Json) : Except String Ans := do
  let op : String ← get j "op"
  match op with
  | "ping" => pure (.ok (Json.str "pong"))
  -- kernel family ---------------------------------------------------------------------------
  | "kernel" => do
      let n : Nat ← get j "n"
      let labels : List (List Nat) ← get j "labels"
      let orders : List (List Nat) ← get j "orders"
      let utils : List (List Rat) ← get j "utils"
      let nulls : List Rat ← get j "nulls"
      let dists : Option (List (List Rat)) ← getD j "dists" none
      if orders.any (fun o => !Kernel.isPerm n o) then return .err Err.other
      if let some ds := dists then
        if (ds.zip orders).any (fun p => !Kernel.sortsWeakly p.1 p.2) then return .err Err.other
      pure (.ok (ToJ.toJ (Kernel.importances n labels orders utils nulls)))
  | "kernelF" => do
      let n : Nat ← get j "n"
      let labels : List (List Nat) ← get j "labels"
      let orders : List (List Nat) ← get j "orders"
      let utils : List (List Float) ← get j "utils"
      let nulls : List Float ← get j "nulls"
      pure (.ok (ToJ.toJ (Kernel.importances n labels orders utils nulls)))
  | "argsort" => do
      let d : List Rat ← get j "d"
      pure (.ok (ToJ.toJ (Kernel.argsortStable d)))
  | "unitReduce" => do
      let p : Prov.P ← get j "prov"
      let labels : List Nat ← get j "labels"
      let dist : List (List Rat) ← get j "dist"
      let nTest : Nat ← get j "nTest"
      let nullLabel : Nat ← getD j "nullLabel" 0
      pure (ansOf (do let ro ← Neighbor.rowsOf p; pure (Kernel.unitReduce ro labels dist nTest nullLabel)))
  | "neighbor" => do
      let p0 : Prov.P ← get j "prov"
      let simple0 : Bool ← getD j "simple" false
      -- "edits": the container is an OBJECT with a mutation history; the fast-path flag is then the model's own
      let edits : Option (List Json) ← getD j "edits" none
      let (p, simple) ← match edits with
        | none => pure (p0, simple0)
        | some es => do
            let o ← objOf (← (j.getObjVal? "prov"))
            let ops ← es.mapM objOpOf
            let o' := o.run ops
            pure (o'.p, o'.simple)
      let yTrain : List Int ← get j "yTrain"
      let yTest : List Int ← get j "yTest"
      let dist : List (List Rat) ← get j "dist"
      let K : Nat ← getD j "K" 1
      let B : Nat ← getD j "B" Neighbor.defaultBatchMatrixSize
      let orders : Option (List (List Nat)) ← getD j "orders" none
      let ukind : String ← getD j "utility" "accuracy"
      let u ← match ukind with
        | "accuracy" => pure Neighbor.UtilSpec.accuracy
        | "rocauc" => pure Neighbor.UtilSpec.rocauc
        | _ => do
            let m : List (List Rat) ← get j "util"
            let nl : List Rat ← get j "nulls"
            pure (Neighbor.UtilSpec.custom m nl)
      pure (ansOf (Neighbor.score B p simple yTrain yTest dist K u orders))
  | "batchsize" => do
      let B : Nat ← get j "B"; let a : Nat ← get j "nTrain"; let b : Nat ← get j "nTest"
      pure (.ok (ToJ.toJ (Neighbor.getTestBatchSize B a b)))
  -- provenance ------------------------------------------------------------------------------
  | "expr" => do
      let e : Prov.Expr ← get j "e"
      let n : Nat ← get j "nUnits"
      let C : Nat ← getD j "nCands" 2
      let tt := (allArgs C n).map (fun a => e.eval a)
      pure (.ok (Json.mkObj [("expr", exprJ e), ("data3", ToJ.toJ e.data3), ("table", ToJ.toJ tt)]))
  | "history" => do
      let p : Prov.Obj ← objOf (← (j.getObjVal? "prov"))
      let ops : List Json ← get j "ops"
      let outs ← runHistory p ops
      pure (.ok (Json.arr outs.toArray))
  | "join" => do
      let p : Prov.P ← get j "p"; let q : Prov.P ← get j "q"
      let r := Prov.join p q
      pure (.ok (Json.mkObj [("prov", provJ r), ("table", truthTable r)]))
  | "units" => do
      -- op sequence on a unit registry: {"mention":k} | {"eq":[k,v]} | {"from":[pos,idx]} | {"union":{...}} ; answers per op
      let us : Option (List Int) ← getD j "units" none
      let cs : Option (List Int) ← getD j "cands" none
      let ops : List Json ← get j "ops"
      let mut u := Units.mk us cs
      let mut outs : List Json := []
      for op in ops do
        if let .ok (k : Int) := get op "mention" then
          match Units.getItem u k with
          | .ok u' => u := u'; outs := outs ++ [Json.str "ok"]
          | .error e => outs := outs ++ [Json.mkObj [("err", Json.str e.name)]]
        else if let .ok (kv : Int × Int) := get op "eq" then
          let r := Units.eqPred u kv.1 kv.2
          u := r.1
          match r.2 with
          | .ok d => outs := outs ++ [ToJ.toJ [d.1, d.2]]
          | .error e => outs := outs ++ [Json.mkObj [("err", Json.str e.name)]]
        else if let .ok (d : Nat × Nat) := get op "from" then
          match Units.fromData u d with
          | .ok kv => outs := outs ++ [ToJ.toJ [kv.1, kv.2]]
          | .error e => outs := outs ++ [Json.mkObj [("err", Json.str e.name)]]
        else if let .ok (o : Json) := get op "union" then
          let ok : Option (List Int) ← getD o "units" none
          let oc : Option (List Int) ← getD o "cands" none
          u := Units.union u (Units.mk ok oc)
          outs := outs ++ [Json.str "ok"]
        else throw "unknown units op"
      pure (.ok (Json.mkObj [("outs", Json.arr outs.toArray), ("keys", ToJ.toJ u.keys), ("cands", ToJ.toJ u.cands)]))
  -- enumeration / sampling ------------------------------------------------------------------
  | "brute" => do
      let p : Prov.P ← get j "prov"
      let tbl : List (List Nat × Outcome) ← get j "table"
      let null : Rat ← get j "null"
      pure (match Brute.scoresProv p (tableLookup tbl) null with
        | some s => .ok (ToJ.toJ s)
        | none => .err Err.other)
  | "mc" => do
      let p : Prov.P ← get j "prov"
      let tbl : List (List Nat × Outcome) ← get j "table"
      let null : Rat ← get j "null"
      let mean : Rat ← get j "mean"
      let timeout : Rat ← getD j "timeout" 0
      let tol : Rat ← getD j "tolerance" (1 / 10)
      let T : Nat ← getD j "truncSteps" 0
      let perms : List (List Nat) ← get j "perms"
      let clock : List Rat ← getD j "clock" []
      pure (match MC.runProv p (tableLookup tbl) null mean { timeout := timeout, tolerance := tol, truncSteps := T } perms clock with
        | some (some s) => .ok (ToJ.toJ s)
        | some none => .ok (Json.str "nan")
        | none => .err Err.other)
  | "handlers" => do
      let o : Outcome ← get j "outcome"
      let null : Rat ← get j "null"
      let l1 := o.layer1 null
      let enc (o : Outcome) : Json := match o with
        | .ok s => ToJ.toJ s | .valueError => Json.str "ValueError" | .runtimeWarning => Json.str "RuntimeWarning"
        | .userWarning => Json.str "UserWarning" | .other => Json.str "Other"
      pure (.ok (Json.mkObj [("layer1", enc l1), ("layer2", match l1.caught null with | some s => ToJ.toJ s | none => Json.str "raise"),
                              ("direct2", match o.caught null with | some s => ToJ.toJ s | none => Json.str "raise")]))
  -- utilities -------------------------------------------------------------------------------
  | "util" => do
      let classes : List Int ← get j "classes"
      let yTest : List Int ← get j "yTest"
      let pred : List Int ← getD j "pred" []
      pure (.ok (Json.mkObj [
        ("accElem", ToJ.toJ (Util.accElem classes yTest)),
        ("accNullElem", ToJ.toJ (Util.accNullElem classes yTest)),
        ("accNull", ToJ.toJ (Util.accNull classes yTest)),
        ("accuracy", if pred.length == yTest.length && !yTest.isEmpty then ToJ.toJ (Util.accuracy yTest pred) else Json.null),
        ("aucElem", ToJ.toJ (Util.aucElem classes yTest)),
        ("aucNullElem", ToJ.toJ (Util.aucNullElem yTest)),
        ("aucHard", if pred.length == yTest.length then ToJ.toJ (Util.aucHard (classes.getD 1 1) yTest pred) else Json.null)]))
  | "joint" => do
      let ws : List Rat ← get j "weights"
      let xs : List Rat ← getD j "scalars" []
      let ms : List (List (List Rat)) ← getD j "matrices" []
      let rs : List (Option Rat) ← getD j "results" []
      let null : Rat ← getD j "null" 0
      pure (.ok (Json.mkObj [("scalar", ToJ.toJ (Util.jointScalar ws xs)), ("elem", ToJ.toJ (Util.jointElem ws ms)),
                              ("call", ToJ.toJ (Util.jointCall ws rs null))]))
  -- value domains / diagrams / oracle -------------------------------------------------------
  | "aval" => do
      let D ← domOf (← get j "dom")
      let a ← valOf D (← get j "a")
      let b ← valOf D (← get j "b")
      pure (.ok (Json.mkObj [("add", avalJ (a + b)), ("sub", avalJ (AVal.sub a b)),
        ("indexA", ToJ.toJ (D.index a)), ("eq", ToJ.toJ (a == b)),
        ("boxIndexA", match D with | .box m => ToJ.toJ (Dom.boxIndex m a.toList) | _ => Json.null)]))
  | "domain" => do
      let D ← domOf (← get j "dom")
      pure (.ok (Json.mkObj [("domain", Json.arr (D.domain.map avalJ).toArray), ("domainsize", ToJ.toJ D.domainsize)]))
  | "addprog" => do
      let D ← domOf (← get j "dom")
      let ops : List Json ← get j "ops"
      let outs ← runAdd D ops
      pure (.ok (Json.arr outs.toArray))
  | "compile" => do
      let p : Prov.P ← get j "prov"
      let D ← domOf (← get j "dom")
      pure (match (Oracle.compile p : Except Err (Oracle.Compiled (AVal D))) with
        | .ok c => .ok (Json.mkObj [("add", diagramJ c.add), ("locs", ToJ.toJ c.locs), ("locSpecOk", ToJ.toJ (Oracle.locSpecOk p c))])
        | .error e => .err e)
  | "oracle" => do
      let p : Prov.P ← get j "prov"
      let labels : List Nat ← get j "labels"
      let dist : List Rat ← get j "dist"
      let K : Nat ← get j "K"; let c : Nat ← get j "c"; let n : Nat ← get j "numtuples"
      let queries : List (Nat × (Option Nat × Option Nat)) ← get j "queries"
      let withSpec : Bool ← getD j "spec" false
      let D := Dom.tally n K c
      match Oracle.build D c p labels dist with
      | .error e => pure (.err e)
      | .ok b =>
        let R := p.data.length
        let res := queries.map (fun q => match Oracle.query c b R q.1 q.2.1 q.2.2 with
          | .ok counts =>
              let spec : Json := if withSpec then
                  ToJ.toJ (D.vecs.map (fun vec => Oracle.countSpec p labels dist c K q.1 q.2.1 q.2.2 (vec.headD 0)
                    ((vec.drop 1).take c) ((vec.drop (1 + c)).take c)))
                else Json.null
              Json.mkObj [("counts", ToJ.toJ counts), ("spec", spec)]
          | .error e => Json.mkObj [("err", Json.str e.name)])
        pure (.ok (Json.mkObj [("vecs", ToJ.toJ D.vecs), ("results", Json.arr res.toArray), ("locSpecOk", ToJ.toJ (Oracle.locSpecOk p b.base))]))
  | "addpath" => do
      let p : Prov.P ← get j "prov"
      let labels : List Nat ← get j "labels"
      let dist : List (List Rat) ← get j "dist"
      let util : List (List Rat) ← get j "util"
      let nulls : List Rat ← get j "nulls"
      let K : Nat ← get j "K"; let c : Nat ← get j "c"
      pure (ansOf (Oracle.scores p labels dist util nulls K c))
  | "knn" => do
      let p : Prov.P ← get j "prov"
      let labels : List Nat ← get j "labels"
      let order : List Nat ← get j "order"
      let util : List Rat ← get j "util"
      let null : Rat ← get j "null"
      let K : Nat ← get j "K"; let c : Nat ← get j "c"
      pure (.ok (ToJ.toJ ((allAssign p.nUnits).map (fun a => Oracle.knnValue p labels order util null K c a))))
  | _ => pure (.bad s!"unknown op {op}")

def answer (line : String) : String :=
  match Json.parse line with
  | .error e => (Ans.bad s!"json: {e}").render
  | .ok j => match handle j with
      | .ok a => a.render
      | .error e => (Ans.bad e).render

partial def loop (hin hout : IO.FS.Stream) : IO Unit := do
  let line ← hin.getLine
  if line.isEmpty then return ()
  if !line.trimAscii.isEmpty then
    hout.putStrLn (answer line)
    hout.flush
  loop hin hout

def main : IO Unit := do
  loop (← IO.getStdin) (← IO.getStdout)
