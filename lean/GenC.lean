import GenC.Container
