import GenA.Call
