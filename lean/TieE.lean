import TieE.Properties
