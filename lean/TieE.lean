import TieE.Properties
import TieE.DataProofs
