import TieV.Properties
