import TieR.Properties
