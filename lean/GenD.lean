import GenD.Ops
