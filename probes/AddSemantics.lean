import Mathlib.Algebra.Group.Defs
import Mathlib.Algebra.BigOperators.Group.List.Basic
import Mathlib.Data.List.Basic
import Mathlib.Tactic.Ring
import Mathlib.Tactic.Abel
import Mathlib.Tactic.Linarith

namespace Dd

/-- one node of a level: `nodes[i,j]`, `child[i,j,:]`, `adder[i,j,:]` of `add.py` -/
structure Node (V : Type) where
  active : Bool
  child : List ℕ
  adder : List V

abbrev Level (V : Type) := List (Node V)

variable {V : Type} [AddCommMonoid V]

def Node.ch (nd : Node V) (c : ℕ) : ℕ := nd.child.getD c 0
def Node.ad (nd : Node V) (c : ℕ) : V := nd.adder.getD c 0
def nodeAt (lv : Level V) (j : ℕ) : Node V := lv.getD j ⟨false, [], []⟩

/-- value of the path that starts at node `j` of the first level and follows `args` -/
def evalFrom : List (Level V) → ℕ → List ℕ → V
  | [], _, _ => 0
  | _ :: _, _, [] => 0
  | lv :: rest, j, a :: as => (nodeAt lv j).ad a + evalFrom rest ((nodeAt lv j).ch a) as

/-- `ADD.__call__`: left-to-right accumulation starting from zero -/
def evalAcc : List (Level V) → ℕ → List ℕ → V → V
  | [], _, _, acc => acc
  | _ :: _, _, [], acc => acc
  | lv :: rest, j, a :: as, acc => evalAcc rest ((nodeAt lv j).ch a) as (acc + (nodeAt lv j).ad a)

theorem evalAcc_eq (L : List (Level V)) (j : ℕ) (as : List ℕ) (acc : V) :
    evalAcc L j as acc = acc + evalFrom L j as := by
  induction L generalizing j as acc with
  | nil => simp [evalAcc, evalFrom]
  | cons lv rest ih =>
    cases as with
    | nil => simp [evalAcc, evalFrom]
    | cons a as => simp [evalAcc, evalFrom, ih, add_assoc]

/-- every node reachable from `j` (through candidates `< C`) is active -/
def wf (C : ℕ) : List (Level V) → ℕ → Prop
  | [], _ => True
  | lv :: rest, j => (nodeAt lv j).active = true ∧ ∀ c, c < C → wf C rest ((nodeAt lv j).ch c)

/-! ### restrict -/

/-- fold level `next` (fixed to `value`) into the active nodes of level `lv` -/
def foldInto (C : ℕ) (lv next : Level V) (value : ℕ) : Level V :=
  lv.map (fun nd =>
    if nd.active then
      { active := true
        child := (List.range C).map (fun c => (nodeAt next (nd.ch c)).ch value)
        adder := (List.range C).map (fun c => nd.ad c + (nodeAt next (nd.ch c)).ad value) }
    else nd)

/-- `restrict` for a variable that is not the first one: `idx = k+1` -/
def restrictPos (C : ℕ) : ℕ → ℕ → List (Level V) → List (Level V)
  | 0, value, lv :: next :: rest => foldInto C lv next value :: rest
  | k + 1, value, lv :: rest => lv :: restrictPos C k value rest
  | _, _, L => L

theorem nodeAt_foldInto (C : ℕ) (lv next : Level V) (value j : ℕ) (hact : (nodeAt lv j).active = true) :
    ∀ c, c < C →
      (nodeAt (foldInto C lv next value) j).ch c = (nodeAt next ((nodeAt lv j).ch c)).ch value ∧
      (nodeAt (foldInto C lv next value) j).ad c = (nodeAt lv j).ad c + (nodeAt next ((nodeAt lv j).ch c)).ad value := by
  intro c hc
  unfold nodeAt foldInto at *
  by_cases hj : j < lv.length
  · simp only [List.getD_eq_getElem?_getD, List.getElem?_map, List.getElem?_eq_getElem hj,
      Option.map_some, Option.getD_some] at hact ⊢
    simp only [hact, if_true, Node.ch, Node.ad, List.getD_eq_getElem?_getD]
    simp [hc, nodeAt, List.getD_eq_getElem?_getD]
  · simp only [List.getD_eq_getElem?_getD, List.getElem?_eq_none (Nat.le_of_not_lt hj),
      Option.getD_none] at hact
    simp at hact

theorem eval_restrictPos (C : ℕ) (k value : ℕ) (L : List (Level V)) (j : ℕ) (as : List ℕ)
    (hk : k + 1 < L.length) (hlen : as.length + 1 = L.length) (hC : ∀ a ∈ as, a < C) (hw : wf C L j) :
    evalFrom (restrictPos C k value L) j as = evalFrom L j (as.insertIdx (k + 1) value) := by
  induction k generalizing L j as with
  | zero =>
    match L, as with
    | lv :: next :: rest, a :: as =>
      have ha : a < C := hC a (by simp)
      obtain ⟨h1, h2⟩ := nodeAt_foldInto C lv next value j hw.1 a ha
      simp only [restrictPos, evalFrom, List.insertIdx_succ_cons, List.insertIdx_zero, h1, h2, add_assoc]
    | lv :: next :: rest, [] => simp at hlen
    | [_], _ => simp at hk
    | [], _ => simp at hk
  | succ k ih =>
    match L, as with
    | lv :: rest, a :: as =>
      have ha : a < C := hC a (by simp)
      simp only [restrictPos, evalFrom, List.insertIdx_succ_cons]
      congr 1
      apply ih
      · simpa using hk
      · simpa using hlen
      · intro x hx; exact hC x (by simp [hx])
      · exact hw.2 a ha
    | lv :: rest, [] => simp only [List.length_cons, List.length_nil] at hlen hk; omega
    | [], _ => simp at hk


/-! ### sum (product construction with `setdefault` numbering) -/

abbrev Pair := ℕ × ℕ

/-- `cnodes.setdefault(p, len(cnodes))` on an insertion-ordered table -/
def intern (tbl : List Pair) (p : Pair) : List Pair × ℕ :=
  if tbl.idxOf p < tbl.length then (tbl, tbl.idxOf p) else (tbl ++ [p], tbl.length)

def internAll : List Pair → List Pair → List Pair × List ℕ
  | tbl, [] => (tbl, [])
  | tbl, p :: ps => ((internAll (intern tbl p).1 ps).1, (intern tbl p).2 :: (internAll (intern tbl p).1 ps).2)

theorem prefix_getElem? {α} {l₁ l₂ : List α} (h : l₁ <+: l₂) {i : ℕ} {x : α} (hx : l₁[i]? = some x) :
    l₂[i]? = some x := by
  obtain ⟨t, rfl⟩ := h
  have hi : i < l₁.length := by
    by_contra hn; rw [List.getElem?_eq_none (Nat.le_of_not_lt hn)] at hx; simp at hx
  rw [List.getElem?_append_left hi]; exact hx

theorem intern_spec (tbl : List Pair) (p : Pair) :
    tbl <+: (intern tbl p).1 ∧ (intern tbl p).1[(intern tbl p).2]? = some p := by
  unfold intern
  by_cases h : tbl.idxOf p < tbl.length
  · simp only [h, if_true]
    refine ⟨List.prefix_refl _, ?_⟩
    rw [List.getElem?_eq_getElem h]; simp
  · simp only [h, if_false]
    exact ⟨List.prefix_append _ _, by simp⟩

theorem internAll_spec (tbl ps : List Pair) :
    tbl <+: (internAll tbl ps).1 ∧ (internAll tbl ps).2.length = ps.length ∧
      ∀ (m : ℕ) (p : Pair), ps[m]? = some p → ∃ k : ℕ, (internAll tbl ps).2[m]? = some k ∧ (internAll tbl ps).1[k]? = some p := by
  induction ps generalizing tbl with
  | nil => simp [internAll]
  | cons q qs ih =>
    obtain ⟨h1, h2⟩ := intern_spec tbl q
    obtain ⟨g1, g2, g3⟩ := ih (intern tbl q).1
    refine ⟨h1.trans g1, by simp [internAll, g2], ?_⟩
    intro m p hm
    cases m with
    | zero =>
      simp only [List.getElem?_cons_zero, Option.some.injEq] at hm; subst hm
      exact ⟨(intern tbl q).2, by simp [internAll], prefix_getElem? g1 h2⟩
    | succ m =>
      simp only [List.getElem?_cons_succ] at hm
      obtain ⟨k, hk1, hk2⟩ := g3 m p hm
      exact ⟨k, by simpa [internAll] using hk1, hk2⟩

def reqs (C : ℕ) (la lb : Level V) (p : Pair) : List Pair :=
  (List.range C).map (fun c => ((nodeAt la p.1).ch c, (nodeAt lb p.2).ch c))

/-- one level of `ADD.sum`: nodes are created in the order of `pairs`; returns the next table -/
def sumLevel (C : ℕ) (la lb : Level V) : List Pair → List Pair → List Pair × Level V
  | tbl, [] => (tbl, [])
  | tbl, p :: ps =>
      ((sumLevel C la lb (internAll tbl (reqs C la lb p)).1 ps).1,
       { active := true
         child := (internAll tbl (reqs C la lb p)).2
         adder := (List.range C).map (fun c => (nodeAt la p.1).ad c + (nodeAt lb p.2).ad c) } ::
        (sumLevel C la lb (internAll tbl (reqs C la lb p)).1 ps).2)

def sumLevels (C : ℕ) : List (Level V) → List (Level V) → List Pair → List (Level V)
  | la :: ra, lb :: rb, pairs =>
      (sumLevel C la lb [] pairs).2 :: sumLevels C ra rb (sumLevel C la lb [] pairs).1
  | _, _, _ => []

theorem sumLevel_spec (C : ℕ) (la lb : Level V) (tbl pairs : List Pair) :
    tbl <+: (sumLevel C la lb tbl pairs).1 ∧
      ∀ (k : ℕ) (p : Pair), pairs[k]? = some p → ∀ c : ℕ, c < C →
        (sumLevel C la lb tbl pairs).1[(nodeAt (sumLevel C la lb tbl pairs).2 k).ch c]? =
            some ((nodeAt la p.1).ch c, (nodeAt lb p.2).ch c) ∧
        (nodeAt (sumLevel C la lb tbl pairs).2 k).ad c = (nodeAt la p.1).ad c + (nodeAt lb p.2).ad c := by
  induction pairs generalizing tbl with
  | nil => simp [sumLevel]
  | cons q qs ih =>
    obtain ⟨a1, a2, a3⟩ := internAll_spec tbl (reqs C la lb q)
    obtain ⟨b1, b2⟩ := ih (internAll tbl (reqs C la lb q)).1
    refine ⟨a1.trans b1, ?_⟩
    intro k p hk c hc
    cases k with
    | zero =>
      simp only [List.getElem?_cons_zero, Option.some.injEq] at hk; subst hk
      have hreq : (reqs C la lb q)[c]? = some ((nodeAt la q.1).ch c, (nodeAt lb q.2).ch c) := by
        simp [reqs, hc]
      obtain ⟨kk, hk1, hk2⟩ := a3 c _ hreq
      constructor
      · have : (nodeAt (sumLevel C la lb tbl (q :: qs)).2 0).ch c = kk := by
          simp [sumLevel, nodeAt, Node.ch, List.getD_eq_getElem?_getD, hk1]
        rw [this]; exact prefix_getElem? b1 hk2
      · simp [sumLevel, nodeAt, Node.ad, List.getD_eq_getElem?_getD, hc]
    | succ k =>
      simp only [List.getElem?_cons_succ] at hk
      have := b2 k p hk c hc
      simpa [sumLevel, nodeAt, List.getD_eq_getElem?_getD] using this

/-- **`ADD.sum` is the pointwise sum.** Node `k` of the result stands for the pair `pairs[k]`. -/
theorem eval_sumLevels (C : ℕ) (LA LB : List (Level V)) (pairs : List Pair) (k : ℕ) (p : Pair)
    (as : List ℕ) (hlen : LA.length = LB.length) (hk : pairs[k]? = some p) (hC : ∀ a ∈ as, a < C) :
    evalFrom (sumLevels C LA LB pairs) k as = evalFrom LA p.1 as + evalFrom LB p.2 as := by
  induction LA generalizing LB pairs k p as with
  | nil =>
    cases LB with
    | nil => simp [sumLevels, evalFrom]
    | cons _ _ => simp at hlen
  | cons la ra ih =>
    cases LB with
    | nil => simp at hlen
    | cons lb rb =>
      cases as with
      | nil => simp [sumLevels, evalFrom]
      | cons a as =>
        have ha : a < C := hC a (by simp)
        obtain ⟨_, hs⟩ := sumLevel_spec C la lb [] pairs
        obtain ⟨h1, h2⟩ := hs k p hk a ha
        simp only [sumLevels, evalFrom]
        rw [h2, ih rb _ _ _ as (by simpa using hlen) h1 (fun x hx => hC x (by simp [hx]))]
        abel


/-! ### modelcount -/

/-- all argument tuples of length `n` over candidates `< C` -/
def allArgs (C : ℕ) : ℕ → List (List ℕ)
  | 0 => [[]]
  | n + 1 => (List.range C).flatMap (fun c => (allArgs C n).map (c :: ·))

variable [DecidableEq V]

/-- specification: number of argument tuples whose path from node `j` evaluates to `e` -/
def countSpec (C : ℕ) (L : List (Level V)) (j : ℕ) (e : V) : ℕ :=
  (allArgs C L.length).countP (fun as => evalFrom L j as = e)

/-- the backward dynamic programme of `ADD.modelcount`, as a recurrence
(`sub? e a` is `e - a`, `none` when the difference is the invalid value) -/
def mc (C : ℕ) (sub? : V → V → Option V) : List (Level V) → ℕ → V → ℕ
  | [], _, e => if e = 0 then 1 else 0
  | lv :: rest, j, e =>
      if (nodeAt lv j).active then
        ((List.range C).map (fun c =>
          match sub? e ((nodeAt lv j).ad c) with
          | some r => mc C sub? rest ((nodeAt lv j).ch c) r
          | none => 0)).sum
      else 0

theorem countP_flatMap_map (C n : ℕ) (P : List ℕ → Bool) :
    ((List.range C).flatMap (fun c => (allArgs C n).map (c :: ·))).countP P =
      ((List.range C).map (fun c => (allArgs C n).countP (fun as => P (c :: as)))).sum := by
  induction (List.range C) with
  | nil => simp
  | cons c cs ih =>
    simp only [List.flatMap_cons, List.countP_append, List.map_cons, List.sum_cons, ih]
    congr 1
    rw [List.countP_map]; rfl

theorem evalFrom_cons (lv : Level V) (rest : List (Level V)) (j a : ℕ) (as : List ℕ) :
    evalFrom (lv :: rest) j (a :: as) = (nodeAt lv j).ad a + evalFrom rest ((nodeAt lv j).ch a) as := by
  simp [evalFrom]

theorem mc_eq_countSpec (C : ℕ) (sub? : V → V → Option V) (valid : V → Prop)
    (H : ∀ e a r, valid e → (sub? e a = some r ↔ a + r = e))
    (Hv : ∀ e a r, valid e → a + r = e → valid r)
    (L : List (Level V)) (j : ℕ) (e : V) (he : valid e) (hw : wf C L j) :
    mc C sub? L j e = countSpec C L j e := by
  induction L generalizing j e with
  | nil => simp [mc, countSpec, allArgs, evalFrom, eq_comm]
  | cons lv rest ih =>
    unfold mc countSpec
    rw [if_pos hw.1]
    simp only [List.length_cons, allArgs]
    rw [countP_flatMap_map]
    apply congrArg
    apply List.map_congr_left
    intro c hc
    have hcC : c < C := List.mem_range.mp hc
    cases hsub : sub? e ((nodeAt lv j).ad c) with
    | none =>
      show 0 = _
      symm
      rw [List.countP_eq_zero]
      intro as _
      simp only [decide_eq_true_eq]
      intro hsum
      rw [evalFrom_cons] at hsum
      have := (H e _ _ he).mpr hsum
      rw [hsub] at this; cases this
    | some r =>
      show mc C sub? rest ((nodeAt lv j).ch c) r = _
      have hr := (H e _ r he).mp hsub
      rw [ih _ r (Hv e _ r he hr) (hw.2 c hcC)]
      unfold countSpec
      apply List.countP_congr
      intro as _
      simp only [decide_eq_true_eq]
      rw [evalFrom_cons]
      constructor
      · intro h; rw [h]; exact hr
      · intro h
        have h2 := (H e _ _ he).mpr h
        rw [hsub] at h2
        exact (Option.some.inj h2).symm

end Dd
#print axioms Dd.mc_eq_countSpec
