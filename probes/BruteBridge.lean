import Mathlib.Algebra.BigOperators.Group.Finset.Basic
import Mathlib.Algebra.BigOperators.Group.Finset.Powerset
import Mathlib.Algebra.BigOperators.Fin
import Mathlib.Data.Fintype.Powerset
import Mathlib.Data.Finset.Powerset
import Mathlib.Data.Rat.Defs
import Mathlib.Tactic.Ring
import Mathlib.Tactic.Linarith
import Mathlib.Tactic.FieldSimp
import Mathlib.Data.Nat.Choose.Basic
import Mathlib.Algebra.Order.Field.Rat

open Finset

namespace Br

/-- all 0/1 assignments of n units in `itertools.product` order (first unit varies slowest) -/
def allAssign : ℕ → List (List ℕ)
  | 0 => [[]]
  | n + 1 => [0, 1].flatMap (fun c => (allAssign n).map (c :: ·))

/-- the coalition an assignment stands for -/
def toSet (n : ℕ) (a : List ℕ) : Finset (Fin n) := univ.filter (fun i => a.getD i.val 0 = 1)

theorem toSet_cons_zero (n : ℕ) (a : List ℕ) :
    toSet (n+1) (0 :: a) = (toSet n a).map (Fin.succEmb n) := by
  ext i
  simp only [toSet, mem_filter, mem_univ, true_and, mem_map, Fin.coe_succEmb]
  constructor
  · intro h
    refine Fin.cases ?_ (fun j hj => ?_) i h
    · intro h0; simp at h0
    · exact ⟨j, by simpa using hj, rfl⟩
  · rintro ⟨j, hj, rfl⟩; simpa using hj

theorem toSet_cons_one (n : ℕ) (a : List ℕ) :
    toSet (n+1) (1 :: a) = insert 0 ((toSet n a).map (Fin.succEmb n)) := by
  ext i
  simp only [toSet, mem_filter, mem_univ, true_and, mem_insert, mem_map, Fin.coe_succEmb]
  constructor
  · intro h
    refine Fin.cases ?_ (fun j hj => ?_) i h
    · intro _; left; rfl
    · right; exact ⟨j, by simpa using hj, rfl⟩
  · rintro (rfl | ⟨j, hj, rfl⟩)
    · simp
    · simpa using hj

/-- decomposition of a sum over all coalitions of `n+1` players by membership of player 0 -/
theorem sum_finset_succ (n : ℕ) (f : Finset (Fin (n+1)) → ℚ) :
    ∑ S : Finset (Fin (n+1)), f S =
      ∑ S : Finset (Fin n), f (S.map (Fin.succEmb n)) + ∑ S : Finset (Fin n), f (insert 0 (S.map (Fin.succEmb n))) := by
  classical
  have hu : (univ : Finset (Fin (n+1))) = insert 0 ((univ : Finset (Fin n)).image Fin.succ) := by
    ext i; refine Fin.cases ?_ (fun j => ?_) i <;> simp
  have h0 : (0 : Fin (n+1)) ∉ (univ : Finset (Fin n)).image Fin.succ := by simp [Fin.succ_ne_zero]
  rw [← Finset.powerset_univ, hu, Finset.sum_powerset_insert h0, Finset.powerset_image,
    Finset.sum_image, Finset.sum_image, Finset.powerset_univ]
  · simp [Finset.map_eq_image]
  · intro S _ T _ h
    exact Finset.image_injective (Fin.succ_injective n) h
  · intro S _ T _ h
    exact Finset.image_injective (Fin.succ_injective n) h

/-- **Bridge**: a list-sum over the enumerated assignments is the Finset-sum over all coalitions. -/
theorem sum_allAssign (n : ℕ) (f : Finset (Fin n) → ℚ) :
    ((allAssign n).map (fun a => f (toSet n a))).sum = ∑ S : Finset (Fin n), f S := by
  induction n with
  | zero =>
    simp only [allAssign, List.map_cons, List.map_nil, List.sum_cons, List.sum_nil, add_zero]
    rw [Fintype.sum_unique]
    congr 1
  | succ n ih =>
    rw [sum_finset_succ]
    simp only [allAssign, List.flatMap_cons, List.flatMap_nil, List.append_nil, List.map_append,
      List.map_map, List.sum_append]
    have e0 : ((fun a => f (toSet (n+1) a)) ∘ fun x => 0 :: x) = fun a => f ((toSet n a).map (Fin.succEmb n)) := by
      funext a; simp [toSet_cons_zero]
    have e1 : ((fun a => f (toSet (n+1) a)) ∘ fun x => 1 :: x) = fun a => f (insert 0 ((toSet n a).map (Fin.succEmb n))) := by
      funext a; simp [toSet_cons_one]
    rw [e0, e1, ih (fun S => f (S.map (Fin.succEmb n))), ih (fun S => f (insert 0 (S.map (Fin.succEmb n))))]


/-! ### `_shapley_bruteforce` accumulates exactly the coefficient form of the Shapley value -/

-- same definitions as in ShapleyCore.lean
def w (n s : ℕ) : ℚ := (s.factorial * (n - s - 1).factorial : ℚ) / n.factorial
def coef (n : ℕ) (i : Fin n) (S : Finset (Fin n)) : ℚ := if i ∈ S then w n (S.card - 1) else - w n S.card
def phi {n : ℕ} (v : Finset (Fin n) → ℚ) (i : Fin n) : ℚ := ∑ S : Finset (Fin n), v S * coef n i S

/-- `factor_0`, `factor_1` of the code -/
def f0 (n s : ℕ) : ℚ := -1 / (((n - 1).choose (min s (n - 1)) : ℚ) * n)
def f1 (n s : ℕ) : ℚ := 1 / (((n - 1).choose (max (s - 1) 0) : ℚ) * n)

/-- unit `i`'s accumulated importance -/
def brute (n : ℕ) (v : List ℕ → ℚ) (i : ℕ) : ℚ :=
  ((allAssign n).map (fun a =>
    v a * ((1 - (a.getD i 0 : ℚ)) * f0 n a.sum + (a.getD i 0 : ℚ) * f1 n a.sum))).sum

theorem w_eq (n s : ℕ) (hs : s + 1 ≤ n) : w n s = 1 / (((n - 1).choose s : ℚ) * n) := by
  obtain ⟨m, rfl⟩ : ∃ m, n = m + 1 := ⟨n - 1, by omega⟩
  have hsm : s ≤ m := by omega
  have key := Nat.choose_mul_factorial_mul_factorial hsm
  have e : m + 1 - s - 1 = m - s := by omega
  unfold w
  rw [e, Nat.add_sub_cancel]
  have hc : ((m.choose s : ℕ) : ℚ) ≠ 0 := by exact_mod_cast (Nat.choose_pos hsm).ne'
  have hm : (((m + 1 : ℕ)) : ℚ) ≠ 0 := by exact_mod_cast (Nat.succ_ne_zero m)
  have hf : ((m + 1).factorial : ℚ) ≠ 0 := by exact_mod_cast Nat.factorial_ne_zero _
  rw [div_eq_div_iff hf (mul_ne_zero hc hm)]
  have : ((m.choose s * s.factorial * (m - s).factorial : ℕ) : ℚ) = (m.factorial : ℚ) := by exact_mod_cast key
  push_cast at this
  rw [Nat.factorial_succ]; push_cast
  rw [← this]; ring

theorem mem_allAssign {n : ℕ} {a : List ℕ} (h : a ∈ allAssign n) :
    a.length = n ∧ ∀ x ∈ a, x = 0 ∨ x = 1 := by
  induction n generalizing a with
  | zero => simp [allAssign] at h; subst h; simp
  | succ n ih =>
    simp only [allAssign, List.flatMap_cons, List.flatMap_nil, List.append_nil, List.mem_append,
      List.mem_map] at h
    rcases h with ⟨b, hb, rfl⟩ | ⟨b, hb, rfl⟩ <;>
    · obtain ⟨h1, h2⟩ := ih hb
      refine ⟨by simp [h1], ?_⟩
      intro x hx
      rcases List.mem_cons.mp hx with rfl | hx
      · simp
      · exact h2 x hx

theorem card_toSet {n : ℕ} {a : List ℕ} (h : a ∈ allAssign n) : (toSet n a).card = a.sum := by
  induction n generalizing a with
  | zero => simp [allAssign] at h; subst h; simp [toSet]
  | succ n ih =>
    simp only [allAssign, List.flatMap_cons, List.flatMap_nil, List.append_nil, List.mem_append,
      List.mem_map] at h
    rcases h with ⟨b, hb, rfl⟩ | ⟨b, hb, rfl⟩
    · rw [toSet_cons_zero, Finset.card_map, ih hb]; simp
    · rw [toSet_cons_one, Finset.card_insert_of_notMem, Finset.card_map, ih hb]
      · simp [add_comm]
      · simp [Fin.succ_ne_zero]

theorem getD_toSet {n : ℕ} {a : List ℕ} (h : a ∈ allAssign n) (i : Fin n) :
    (a.getD i.val 0 : ℚ) = if i ∈ toSet n a then 1 else 0 := by
  obtain ⟨hl, h01⟩ := mem_allAssign h
  have hi : i.val < a.length := by rw [hl]; exact i.isLt
  have hx : a.getD i.val 0 = a[i.val] := by simp [List.getD_eq_getElem?_getD, hi]
  have := h01 a[i.val] (List.getElem_mem hi)
  simp only [toSet, mem_filter, mem_univ, true_and, hx]
  rcases this with e | e <;> simp [e]

/-- **C03 core**: the bruteforce accumulation equals the Shapley value (coefficient form; its
equality with the textbook marginal form is `phiM_eq_phi`). -/
theorem brute_eq_phi {n : ℕ} (v : Finset (Fin n) → ℚ) (i : Fin n) :
    brute n (fun a => v (toSet n a)) i.val = phi v i := by
  unfold brute phi
  rw [← sum_allAssign n (fun S => v S * coef n i S)]
  congr 1
  apply List.map_congr_left
  intro a ha
  rw [getD_toSet ha i, ← card_toSet ha]
  set S := toSet n a with hS
  unfold coef
  by_cases hi : i ∈ S
  · rw [if_pos hi, if_pos hi]
    have hpos : 1 ≤ S.card := Finset.card_pos.mpr ⟨i, hi⟩
    have hle : S.card ≤ n := by simpa using S.card_le_univ
    have : max (S.card - 1) 0 = S.card - 1 := by omega
    unfold f1; rw [this, w_eq n (S.card - 1) (by omega)]; ring
  · rw [if_neg hi, if_neg hi]
    have hlt : S.card < n := by
      have : S ⊂ univ := by
        rw [Finset.ssubset_univ_iff]; intro h; rw [h] at hi; exact hi (Finset.mem_univ i)
      simpa using Finset.card_lt_card this
    have : min S.card (n - 1) = S.card := by omega
    unfold f0; rw [this, w_eq n S.card (by omega)]; ring

example : allAssign 2 = [[0,0],[0,1],[1,0],[1,1]] := by decide

end Br
#print axioms Br.brute_eq_phi
