import Mathlib.Algebra.BigOperators.Group.Finset.Basic
import Mathlib.Algebra.BigOperators.Ring.Finset
import Mathlib.Algebra.BigOperators.Intervals
import Mathlib.Data.Rat.Defs
import Mathlib.Algebra.Order.Field.Rat
import Mathlib.Tactic.Ring
import Mathlib.Tactic.Linarith

open Finset

namespace Kn

/-- Model of the backward loop of `compute_all_importances(_cy)` for one validation point.
`L` = utilities in rank order from rank `i` on, with the null value appended as the last entry.
Returns `(current, scores for ranks i, i+1, …)`. -/
def aux : List ℚ → ℕ → ℚ × List ℚ
  | [], _ => (0, [])
  | [_], _ => (0, [])
  | u :: v :: rest, i =>
      let r := aux (v :: rest) (i + 1)
      let c := r.1 + (u - v) / ((i : ℚ) + 1)
      (c, c :: r.2)

def rankScores (us : List ℚ) (null : ℚ) : List ℚ := (aux (us ++ [null]) 0).2

/-- closed form of one entry -/
def closed (L : List ℚ) (i r : ℕ) : ℚ :=
  ∑ k ∈ range (L.length - 1), if r ≤ k then (L.getD k 0 - L.getD (k+1) 0) / ((i : ℚ) + k + 1) else 0

theorem aux_length (L : List ℚ) (i : ℕ) : (aux L i).2.length = L.length - 1 := by
  induction L generalizing i with
  | nil => simp [aux]
  | cons u t ih =>
    cases t with
    | nil => simp [aux]
    | cons v rest => simp [aux, ih (i+1)]

theorem closed_cons_zero (u v : ℚ) (rest : List ℚ) (i : ℕ) :
    closed (u :: v :: rest) i 0 = (u - v) / ((i:ℚ) + 1) + closed (v :: rest) (i+1) 0 := by
  unfold closed
  simp only [List.length_cons, Nat.add_sub_cancel, Nat.zero_le, if_true]
  rw [Finset.sum_range_succ']
  simp only [List.getD_cons_succ, List.getD_cons_zero, Nat.cast_zero, add_zero]
  rw [add_comm]
  congr 1
  apply Finset.sum_congr rfl
  intro k _
  push_cast; ring_nf

theorem closed_cons_succ (u v : ℚ) (rest : List ℚ) (i r : ℕ) :
    closed (u :: v :: rest) i (r+1) = closed (v :: rest) (i+1) r := by
  unfold closed
  simp only [List.length_cons, Nat.add_sub_cancel]
  rw [Finset.sum_range_succ']
  simp only [List.getD_cons_succ, Nat.succ_le_succ_iff, Nat.add_le_add_iff_right]
  have : ¬ (r + 1 ≤ 0) := by omega
  rw [if_neg this, add_zero]
  apply Finset.sum_congr rfl
  intro k _
  push_cast; ring_nf

theorem aux_spec (L : List ℚ) (i : ℕ) :
    (aux L i).1 = closed L i 0 ∧ ∀ r, r < L.length - 1 → (aux L i).2.getD r 0 = closed L i r := by
  induction L generalizing i with
  | nil => simp [aux, closed]
  | cons u t ih =>
    cases t with
    | nil => simp [aux, closed]
    | cons v rest =>
      obtain ⟨h1, h2⟩ := ih (i+1)
      refine ⟨?_, ?_⟩
      · simp only [aux]; rw [h1, closed_cons_zero]; ring
      · intro r hr
        cases r with
        | zero => simp only [aux, List.getD_cons_zero]; rw [h1, closed_cons_zero]; ring
        | succ r =>
          simp only [aux, List.getD_cons_succ]
          rw [closed_cons_succ]
          apply h2
          simp only [List.length_cons] at hr ⊢; omega

/-- The kernel's value at rank `r` is `Σ_{k ≥ r} (u_k − u_{k+1})/(k+1)` with `u_n = null`. -/
theorem rankScores_closed (us : List ℚ) (null : ℚ) (r : ℕ) (hr : r < us.length) :
    (rankScores us null).getD r 0 =
      ∑ k ∈ range us.length, if r ≤ k then ((us ++ [null]).getD k 0 - (us ++ [null]).getD (k+1) 0) / ((k:ℚ) + 1) else 0 := by
  unfold rankScores
  have := (aux_spec (us ++ [null]) 0).2 r (by simp; omega)
  rw [this]; unfold closed
  simp

example : rankScores [1, 0, 1] 0 = [5/6, -1/6, 1/3] := by
  simp [rankScores, aux]; norm_num

end Kn
#print axioms Kn.rankScores_closed
