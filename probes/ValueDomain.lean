import Mathlib.Algebra.Group.Defs
import Mathlib.Algebra.Group.Pi.Basic
import Mathlib.Algebra.Order.Monoid.Unbundled.Basic
import Mathlib.Order.Basic
import Mathlib.Tactic.Ring
import Mathlib.Tactic.Linarith

namespace Av

/-- a value domain: a decidable, downward-closed set of vectors containing zero
(`AValue[max…]`: a box; `ATally[n,K,c]`: first ≤ n and each label block sums ≤ K) -/
structure Dom (d : ℕ) where
  ok : (Fin d → ℕ) → Bool
  zero_ok : ok 0 = true
  down : ∀ x y, ok x = true → (∀ i, y i ≤ x i) → ok y = true

variable {d : ℕ} (D : Dom d)

/-- a clipped value: `none` is the single invalid value ("inf") -/
abbrev Val := Option {x : Fin d → ℕ // D.ok x = true}

/-- `_clip` -/
def clip (x : Fin d → ℕ) : Val D := if h : D.ok x = true then some ⟨x, h⟩ else none

def add : Val D → Val D → Val D
  | some a, some b => clip D (a.1 + b.1)
  | _, _ => none

/-- `e - a`: invalid as soon as a component would become negative -/
def sub : Val D → Val D → Val D
  | some e, some a => if ∀ i, a.1 i ≤ e.1 i then clip D (fun i => e.1 i - a.1 i) else none
  | _, _ => none

theorem add_comm' (a b : Val D) : add D a b = add D b a := by
  cases a <;> cases b <;> simp [add, add_comm]

theorem add_zero' (a : Val D) : add D a (some ⟨0, D.zero_ok⟩) = a := by
  cases a with
  | none => simp [add]
  | some a => simp [add, clip, a.2]

theorem clip_add_assoc (a b c : Fin d → ℕ) :
    (match clip D (a + b) with | some ab => clip D (ab.1 + c) | none => none) = clip D (a + b + c) := by
  unfold clip
  by_cases h : D.ok (a + b + c) = true
  · have hab : D.ok (a + b) = true := D.down _ _ h (fun i => by simp)
    simp [h, hab]
  · by_cases hab : D.ok (a + b) = true
    · simp [h, hab]
    · simp [h, hab]

theorem add_assoc' (a b c : Val D) : add D (add D a b) c = add D a (add D b c) := by
  cases a with
  | none => simp [add]
  | some a =>
  cases b with
  | none => simp [add]
  | some b =>
  cases c with
  | none =>
    simp only [add]
    cases clip D (a.1 + b.1) <;> simp [add]
  | some c =>
    have l := clip_add_assoc D a.1 b.1 c.1
    have r := clip_add_assoc D b.1 c.1 a.1
    have e : b.1 + c.1 + a.1 = a.1 + b.1 + c.1 := by rw [add_comm (b.1 + c.1), add_assoc]
    rw [e] at r
    simp only [add]
    cases hab : clip D (a.1 + b.1) with
    | none =>
      cases hbc : clip D (b.1 + c.1) with
      | none => simp [add]
      | some bc =>
        rw [hab] at l; rw [hbc] at r
        dsimp only at l r
        simp only [add]
        rw [show a.1 + bc.1 = bc.1 + a.1 from add_comm _ _, r]; exact l
    | some ab =>
      cases hbc : clip D (b.1 + c.1) with
      | none =>
        rw [hab] at l; rw [hbc] at r
        dsimp only at l r
        simp only [add]; rw [l]; exact r.symm
      | some bc =>
        rw [hab] at l; rw [hbc] at r
        dsimp only at l r
        simp only [add]
        rw [l, show a.1 + bc.1 = bc.1 + a.1 from add_comm _ _, r]

/-- the law `modelcount` relies on: for a valid total `e`, `a ⊕ r = e` iff `r = e − a` -/
theorem sub_spec (e : {x : Fin d → ℕ // D.ok x = true}) (a r : Val D) :
    sub D (some e) a = r ∧ r ≠ none ↔ add D a r = some e := by
  cases a with
  | none =>
    simp only [sub, add, reduceCtorEq, iff_false, not_and, ne_eq, not_not]
    intro h; exact h.symm
  | some a =>
    cases r with
    | none => simp [add]
    | some r =>
      simp only [sub, add, ne_eq, reduceCtorEq, not_false_eq_true, and_true]
      constructor
      · intro h
        by_cases hle : ∀ i, a.1 i ≤ e.1 i
        · rw [if_pos hle] at h
          unfold clip at h ⊢
          split at h
          · have hr : r.1 = fun i => e.1 i - a.1 i := by
              have := Option.some.inj h; exact (congrArg Subtype.val this).symm
            have hsum : a.1 + r.1 = e.1 := by
              funext i; rw [hr]; simp only [Pi.add_apply]; have := hle i; omega
            simp [hsum, e.2]
          · simp at h
        · rw [if_neg hle] at h; simp at h
      · intro h
        unfold clip at h
        split at h
        · have hsum : a.1 + r.1 = e.1 := congrArg Subtype.val (Option.some.inj h)
          have hle : ∀ i, a.1 i ≤ e.1 i := fun i => by rw [← hsum]; simp
          rw [if_pos hle]
          have hr : (fun i => e.1 i - a.1 i) = r.1 := by
            funext i; rw [← hsum]; simp
          unfold clip; simp [hr, r.2]
        · simp at h

end Av
#print axioms Av.add_assoc'
#print axioms Av.sub_spec
